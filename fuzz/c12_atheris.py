#!/venv/bin/python
"""atheris (libFuzzer) target for property C12 - optional stage of the thorough tier.

usage: c12_atheris.py {parse_tag|template} <corpus_dir> [libFuzzer flags]

Every input goes through exactly the oracle of vf/props/c12.py (`run_string` / `run_src`): outcome must be success or
TemplateSyntaxError within the deterministic step budget.  A failing input does not crash the fuzzer; it is printed once per
bucket as a line `VF-FINDING {"case": ..., "bucket": ..., "message": ...}` which the C12 check replays through its own
oracle (without atheris) before reporting it.  If atheris cannot be imported the script prints ATHERIS-UNAVAILABLE and exits 0.
"""
import json
import os
import sys

HERE = os.path.dirname(os.path.dirname(os.path.abspath(__file__)))
sys.path.insert(0, HERE)
sys.path.insert(0, os.path.join(HERE, ".deps"))

try:
    import atheris
except Exception as e:  # noqa
    print("ATHERIS-UNAVAILABLE %r" % (e,))
    sys.exit(0)


def main():
    target = sys.argv[1]
    corpus = sys.argv[2]
    flags = sys.argv[3:]
    # instrument the library while it is imported for the first time (django.setup() imports the app)
    with atheris.instrument_imports(include=["django_components"]):
        from vf import env

        env.setup()
        from vf.props import c12

        c12._rt()

    os.makedirs(corpus, exist_ok=True)
    dict_path = os.path.join(corpus, "..", "c12_%s.dict" % target)
    with open(dict_path, "w") as f:
        for i, tok in enumerate(c12.EXT_ALPHA + ["{% slot ", " %}", "{% endslot %}", '{% component "probe" ', "{% endcomponent %}", "{% verbatim %}", "{% endverbatim %}"]):
            f.write('kw%d="%s"\n' % (i, "".join("\\x%02x" % b for b in tok.encode("utf-8"))))
    seeds = ['k=[1, *lst, {"a": b|upper, **dct}] ...attrs only /', "_('a')|default:\"x\" key='{{ a }}'", '"a\\"b" [[1], {"k": {"z": 1}}]', "a | upper : 'x' data-x=1"]
    for i, sd in enumerate(seeds):
        with open(os.path.join(corpus, "seed%d" % i), "w") as f:
            f.write(sd)

    seen = set()
    tag_names = c12.TAG_NAMES

    def report(case, fails):
        for msg, bucket in fails:
            if bucket in seen:
                continue
            seen.add(bucket)
            print("VF-FINDING " + json.dumps({"case": case, "bucket": bucket, "message": msg[:500]}))
            sys.stdout.flush()

    def one_input(data):
        if not data:
            return
        sel = data[0]
        s = data[1:].decode("utf-8", "replace")
        if target == "parse_tag":
            report({"part": "str", "s": s, "tags": []}, c12.run_string(s, [])[0])
        else:
            k = sel % (len(tag_names) + 1)
            if k == len(tag_names):
                report({"part": "src", "src": s}, c12.run_src(s)[0])
            else:
                tags = [tag_names[k]]
                pre, post = c12.TAGS[tags[0]]
                out, fails, _ = c12.judge("tag:" + tags[0], pre + s + post, c12._template_call)
                report({"part": "str", "s": s, "tags": tags}, fails)

    atheris.Setup([sys.argv[0], corpus, "-dict=%s" % dict_path, "-print_final_stats=1"] + flags, one_input)
    atheris.Fuzz()


if __name__ == "__main__":
    main()
