#!/venv/bin/python
"""Coverage-guided run of ONE ordinary Hypothesis shard of any check (started by vf.run for specs with "cg": N).

  /venv/bin/python /verif/fuzz/cg_shard.py <prop module> <spec.json> <result.pickle>

The shard is executed exactly as in the plain tier (`mod.run_shard(spec)`: same strategy, same oracle, same
attribution of known findings, same epilogue), except that `vf.core.hyp_search` - seeing `core.CG` - does not let
Hypothesis choose the examples: the @given test is driven through `test.hypothesis.fuzz_one_input` by atheris /
libFuzzer, with the library (`django_components.*`) byte-code instrumented, so that the coverage reached inside the
code under test decides which generated cases are kept and mutated further. The oracle is the check's own; a
failing case is recorded once per bucket and the campaign goes on (the bucket is muted), nothing relies on the
process crashing. libFuzzer never returns from its driver, therefore the driver runs in a second thread that parks
itself after the last execution while the main thread finishes the shard and writes the Collector.
"""
import json
import os
import pickle
import sys

HERE = os.path.dirname(os.path.dirname(os.path.abspath(__file__)))
sys.path.insert(0, os.path.join(HERE, ".deps"))
sys.path.insert(0, HERE)


def main():
    modname, spec_path, out_path = sys.argv[1:4]
    with open(spec_path) as f:
        spec = json.load(f)
    import warnings

    warnings.filterwarnings("ignore")
    import atheris

    from vf import core, env

    include = spec.get("cg_include") or ["django_components"]
    with atheris.instrument_imports(include=include):
        import importlib

        mod0 = importlib.import_module(modname)
        if getattr(mod0, "NEEDS_DJANGO", True):
            env.setup()
        mod = importlib.import_module(modname)
    import queue
    import threading
    import traceback

    handoff = queue.Queue()
    core.CG = {
        "runs": int(spec["cg"]),
        "seed": int(spec["seed"]) % (2**31 - 1) + 1,
        "max_len": int(spec.get("cg_max_len", 4096)),
        "workdir": os.path.dirname(os.path.abspath(out_path)),
        "handoff": handoff,
    }

    def shard():
        try:
            col = mod.run_shard(spec)
        except BaseException:  # noqa
            col = core.Collector()
            col.error("coverage-guided shard %r crashed:\n%s" % (spec.get("kind"), traceback.format_exc()[-3000:]))
        with open(out_path + ".tmp", "wb") as f:
            pickle.dump(col, f)
        os.replace(out_path + ".tmp", out_path)
        sys.stdout.flush()
        sys.stderr.flush()
        os._exit(0)

    threading.Thread(target=shard, daemon=True).start()
    argv, one = handoff.get()  # the shard reached hyp_search (otherwise it ends the process itself)
    atheris.Setup(argv, one)
    atheris.Fuzz()


if __name__ == "__main__":
    main()
