#!/venv/bin/python
"""Coverage-guided fuzz target for C09 (thorough tier; started by vf/props/c09.py, one process per shard).

  /venv/bin/python /verif/fuzz/c09_atheris.py -runs=100000 -seed=1 -max_len=64 [corpus dir]

Every input (bytes -> latin-1 string) goes through the very oracle of vf.props.c09 (partition / contents /
lineno invariants, differential against the stock lexer / the model). A failing clause whose bucket is not
listed in $C09_MUTE (newline separated) and that is not attributed to a known finding raises, which makes
libFuzzer write a crash artifact; the parent replays that artifact through `replay()` and records it.
Hashes of the non-trivial sources seen are appended to $C09_STATS.
"""
import os
import sys

HERE = os.path.dirname(os.path.dirname(os.path.abspath(__file__)))
sys.path.insert(0, os.path.join(HERE, ".deps"))
sys.path.insert(0, HERE)

import atheris  # noqa: E402

from vf import env  # noqa: E402

with atheris.instrument_imports(include=["django_components.util.template_parser", "vf.props.c09"]):
    env.setup()
    import django_components.util.template_parser  # noqa: F401,E402
    from vf.props import c09  # noqa: E402

MUTED = set(filter(None, os.environ.get("C09_MUTE", "").split("\n")))
_stats = open(os.environ["C09_STATS"], "a", buffering=1) if os.environ.get("C09_STATS") else None
_seen = set()
_n = [0]


class OracleFailure(Exception):
    pass


def TestOneInput(data):
    src = c09.fuzz_bytes_to_src(data)
    fails, ana = c09.check_source(src)
    _n[0] += 1
    if _stats is not None:
        if ana["nontrivial"]:
            h = c09.jhash(src)
            if h not in _seen:
                _seen.add(h)
                _stats.write(h + "\n")
        if _n[0] % 2000 == 0:
            _stats.flush()
    for message, bucket in fails:
        if bucket in MUTED:
            continue
        if c09.attribute({"part": "src", "src": src, "via": "direct"}, message, bucket):
            continue
        if _stats is not None:
            _stats.flush()
        raise OracleFailure("[%s] %s" % (bucket, message))


if __name__ == "__main__":
    atheris.Setup(sys.argv, TestOneInput)
    atheris.Fuzz()
