"""Cooperative thread scheduler (C07): real threads, but only the holder of a baton runs.

A sys.settrace tracer installed in every task thread fires on `line` events of frames that belong to
django-components modules and whose line touches process-global state of the library (computed from the
source text, see `yield_points`). At such a yield point the scheduler consults the generated schedule and
may hand the baton to another task. The schedule is therefore an ordinary generated input: it shrinks and
replays, and a run is a deterministic function of (tasks, schedule).

Schedule forms:
  {"kind": "preempt", "points": [[k, t], ...]}   at the k-th yield point (global count) switch to task t
  {"kind": "prio", "prios": [...], "changes": [[k, t], ...]}   PCT style: always run the runnable task with
        the highest priority; at yield point k task t drops to the lowest priority
"""
import os
import re
import sys
import threading

KEYWORDS = [
    "provide_cache",
    "provide_references",
    "all_reference_ids",
    "active_provide_ids",
    "component_context_cache",
    "component_renderer_cache",
    "child_component_attrs",
    "component_node_subclasses_by_name",
    "comp_hash_mapping",
    "template_cache",
    "media_cache",
    ".resolved",
    "comp_media",
    "_component_media",
    "render_state",
    "post_render_callbacks",
    "on_component_rendered_callbacks",
]
WHOLE_FILES = ["util/cache.py"]  # every executable line of the LRU cache

_yield_cache = {}

# module-level names that are process-global by construction but not per-render state
_NOISE = {"__all__", "app_settings", "registry", "urlpatterns", "defaults", "register", "logger", "all_registries"}
_MUTABLE_CALLS = {"deque", "dict", "list", "set", "defaultdict", "OrderedDict", "WeakValueDictionary", "WeakKeyDictionary", "LRUCache", "Counter"}
_IMMUTABLE_CALLS = {"compile", "TypeVar", "getLogger", "NewType", "namedtuple", "frozenset", "Library", "cast", "ParamSpec", "partial", "Lock", "RLock", "local", "object", "Signal"}


def global_state_names(pkg):
    """Names of module-level mutable objects of the library, found in its syntax tree (so that state introduced by a
    change of the code under test is followed too): module-level assignments of list / dict / set displays or of calls
    other than known immutable constructors, and every name declared `global` inside a function."""
    import ast

    names = set()
    for dirpath, _dirs, files in os.walk(pkg):
        for fn in files:
            if not fn.endswith(".py"):
                continue
            try:
                tree = ast.parse(open(os.path.join(dirpath, fn), encoding="utf-8").read())
            except (OSError, SyntaxError):
                continue
            for node in tree.body:
                targets, val = [], None
                if isinstance(node, ast.Assign):
                    targets, val = [t for t in node.targets if isinstance(t, ast.Name)], node.value
                elif isinstance(node, ast.AnnAssign) and isinstance(node.target, ast.Name) and node.value is not None:
                    targets, val = [node.target], node.value
                if not targets:
                    continue
                mutable = isinstance(val, (ast.List, ast.Dict, ast.Set, ast.ListComp, ast.DictComp, ast.SetComp))
                if isinstance(val, ast.Call):
                    f = val.func
                    mutable = (f.attr if isinstance(f, ast.Attribute) else getattr(f, "id", "")) not in _IMMUTABLE_CALLS
                if mutable:
                    names.update(t.id for t in targets if not t.id.isupper())
            for node in ast.walk(tree):
                if isinstance(node, ast.Global):
                    names.update(node.names)
                elif isinstance(node, ast.ClassDef):
                    # mutable objects assigned in a class body are shared by all instances (and threads) too
                    for stmt in node.body:
                        targets, val = [], None
                        if isinstance(stmt, ast.Assign):
                            targets, val = [t for t in stmt.targets if isinstance(t, ast.Name)], stmt.value
                        elif isinstance(stmt, ast.AnnAssign) and isinstance(stmt.target, ast.Name) and stmt.value is not None:
                            targets, val = [stmt.target], stmt.value
                        if not targets:
                            continue
                        mutable = isinstance(val, (ast.List, ast.Dict, ast.Set, ast.ListComp, ast.DictComp, ast.SetComp))
                        if isinstance(val, ast.Call):
                            f = val.func
                            mutable = (f.attr if isinstance(f, ast.Attribute) else getattr(f, "id", "")) in _MUTABLE_CALLS
                        if mutable:
                            names.update("." + t.id for t in targets if not t.id.isupper())
                    # ... and mutable containers that __init__ puts on the instance: shared as soon as an instance is
                    # (Component.as_view() keeps ONE instance for all requests)
                    for fn_ in node.body:
                        if isinstance(fn_, ast.FunctionDef) and fn_.name == "__init__":
                            for stmt in ast.walk(fn_):
                                tgt, val = None, None
                                if isinstance(stmt, ast.Assign) and len(stmt.targets) == 1:
                                    tgt, val = stmt.targets[0], stmt.value
                                elif isinstance(stmt, ast.AnnAssign) and stmt.value is not None:
                                    tgt, val = stmt.target, stmt.value
                                if not (isinstance(tgt, ast.Attribute) and isinstance(tgt.value, ast.Name) and tgt.value.id == "self"):
                                    continue
                                mutable = isinstance(val, (ast.List, ast.Dict, ast.Set))
                                if isinstance(val, ast.Call):
                                    f = val.func
                                    mutable = (f.attr if isinstance(f, ast.Attribute) else getattr(f, "id", "")) in _MUTABLE_CALLS
                                if mutable:
                                    names.add("." + tgt.attr)
    return names - _NOISE


class _AllLines:
    """Every line of a file (the tracer only reports executable ones)."""

    def __contains__(self, n):
        return True

    def __len__(self):
        return 1


def all_lines(src_root, only=None):
    """{filename: every line} for all modules of the library: a pre-emption is possible before EVERY executed line of
    django-components (used for a few small task pairs; finds races on state that no name-based rule can know about,
    e.g. an attribute of a shared object)."""
    key = (src_root, "all", tuple(only or ()))
    if key in _yield_cache:
        return _yield_cache[key]
    out = {}
    pkg = os.path.join(src_root, "django_components")
    for dirpath, _dirs, files in os.walk(pkg):
        for fn in files:
            if fn.endswith(".py"):
                rel = os.path.relpath(os.path.join(dirpath, fn), pkg).replace(os.sep, "/")
                if only and rel not in only:
                    continue
                out[os.path.realpath(os.path.join(dirpath, fn))] = _AllLines()
    _yield_cache[key] = out
    return out


def yield_points(src_root):
    """{filename: set(line numbers)} of lines that touch process-global state of the library."""
    if src_root in _yield_cache:
        return _yield_cache[src_root]
    out = {}
    pkg = os.path.join(src_root, "django_components")
    import re

    auto = global_state_names(pkg)
    plain = sorted(n for n in auto if not n.startswith("."))
    attrs = sorted(n[1:] for n in auto if n.startswith("."))  # class-level objects are reached as `self.x` / `cls.x`
    pats = []
    if plain:
        pats.append(r"(?<![\w.])(?:%s)\b" % "|".join(map(re.escape, plain)))
    if attrs:
        pats.append(r"\.(?:%s)\b" % "|".join(map(re.escape, attrs)))
    auto_re = re.compile("|".join(pats)) if pats else None
    for dirpath, _dirs, files in os.walk(pkg):
        for fn in files:
            if not fn.endswith(".py"):
                continue
            path = os.path.join(dirpath, fn)
            rel = os.path.relpath(path, pkg).replace(os.sep, "/")
            try:
                lines = open(path, encoding="utf-8").read().split("\n")
            except OSError:
                continue
            pts = set()
            for i, line in enumerate(lines, 1):
                s = line.strip()
                if not s or s.startswith("#") or s.startswith(("import ", "from ")):
                    continue
                if rel in WHOLE_FILES:
                    pts.add(i)
                elif any(k in s for k in KEYWORDS) or (auto_re is not None and auto_re.search(s)):
                    pts.add(i)
            if pts:
                out[os.path.realpath(path)] = pts
    _yield_cache[src_root] = out
    return out


class Deadlock(Exception):
    pass


class Scheduler:
    def __init__(self, tasks, schedule, points, watchdog=8.0, max_yields=200000):
        self.tasks = tasks  # list of callables
        self.n = len(tasks)
        self.schedule = schedule
        self.points = points
        self.cv = threading.Condition()
        self.current = None
        self.alive = [True] * self.n
        self.started = [False] * self.n
        self.k = 0  # global yield counter
        self.results = [None] * self.n
        self.switches = []  # (k, from, to, file:line)
        self.touched = [set() for _ in range(self.n)]  # yield lines each task visited
        self.watchdog = watchdog
        self.max_yields = max_yields
        self.deadlock = False
        self.keep_trace = False
        self.trace = []
        self.pre = {}
        self.prios = None
        if schedule.get("kind") == "prio":
            self.prios = list(schedule.get("prios") or range(self.n, 0, -1))[: self.n]
            while len(self.prios) < self.n:
                self.prios.append(0)
            self.low = -1
            for k, t in schedule.get("changes", []):
                self.pre[int(k)] = int(t) % self.n
        else:
            for k, t in schedule.get("points", []):
                self.pre[int(k)] = int(t) % self.n

    # -- tracing -----------------------------------------------------------
    def _global_trace(self, tid):
        points = self.points

        def local_trace(frame, event, arg):
            if event == "line":
                pts = points.get(frame.f_code.co_filename)
                if pts is not None and frame.f_lineno in pts:
                    self._yield(tid, frame)
            return local_trace

        def global_trace(frame, event, arg):
            if frame.f_code.co_filename in points:
                return local_trace
            return None

        return global_trace

    def _pick_next(self, tid):
        """Which task runs after yield point self.k (called with cv held)."""
        if self.prios is not None:
            if self.k in self.pre:
                t = self.pre[self.k]
                self.prios[t] = self.low
                self.low -= 1
            best = None
            for t in range(self.n):
                if self.alive[t] and (best is None or self.prios[t] > self.prios[best]):
                    best = t
            return best
        t = self.pre.get(self.k)
        if t is not None and self.alive[t]:
            return t
        return tid

    def _yield(self, tid, frame):
        with self.cv:
            self.k += 1
            where = "%s:%d" % (os.path.basename(frame.f_code.co_filename), frame.f_lineno)
            self.touched[tid].add(where)
            if self.keep_trace:
                self.trace.append((tid, where))
            if self.k > self.max_yields:
                return
            nxt = self._pick_next(tid)
            if nxt is not None and nxt != tid:
                self.switches.append((self.k, tid, nxt, "%s:%d" % (os.path.basename(frame.f_code.co_filename), frame.f_lineno)))
                self.current = nxt
                self.cv.notify_all()
                self._wait_for(tid)

    def _wait_for(self, tid):
        # cv held
        while self.current != tid:
            if not self.cv.wait(self.watchdog):
                if self.current != tid:
                    self.deadlock = True
                    self.current = tid  # break out: inconclusive case
                    break

    def _runner(self, tid):
        _TLS.tid = tid
        with self.cv:
            self._wait_for(tid)
        sys.settrace(self._global_trace(tid))
        try:
            try:
                self.results[tid] = ("ok", self.tasks[tid]())
            except BaseException as e:  # noqa
                self.results[tid] = ("exc", e)
        finally:
            sys.settrace(None)
            with self.cv:
                self.alive[tid] = False
                nxt = None
                if self.prios is not None:
                    for t in range(self.n):
                        if self.alive[t] and (nxt is None or self.prios[t] > self.prios[nxt]):
                            nxt = t
                else:
                    for t in range(self.n):
                        if self.alive[t]:
                            nxt = t
                            break
                self.current = nxt
                self.cv.notify_all()

    def run(self):
        _ACTIVE["sched"] = self
        try:
            return self._run()
        finally:
            _ACTIVE["sched"] = None

    def _run(self):
        threads = [threading.Thread(target=self._runner, args=(i,), daemon=True) for i in range(self.n)]
        for t in threads:
            t.start()
        with self.cv:
            first = 0
            if self.prios is not None:
                first = max(range(self.n), key=lambda t: self.prios[t])
            self.current = first
            self.cv.notify_all()
        for t in threads:
            t.join(self.watchdog * 4)
            if t.is_alive():
                self.deadlock = True
        return self.results


# ---------------------------------------------------------------------------
# cooperative replacement for real locks inside the code under test

_ACTIVE = {"sched": None}
_TLS = threading.local()


class CoopLock:
    """Re-entrant lock that never blocks the baton holder: a task that finds the lock taken hands the baton to
    the owner and retries when it gets the baton back. Only one task runs at a time, so plain fields suffice."""

    def __init__(self):
        self.owner = None
        self.count = 0

    def acquire(self, blocking=True, timeout=-1):
        s = _ACTIVE["sched"]
        tid = getattr(_TLS, "tid", None)
        if s is not None and tid is not None:
            while self.owner is not None and self.owner != tid:
                s.block_on(tid, self.owner)
        self.owner = tid
        self.count += 1
        return True

    def release(self):
        self.count -= 1
        if self.count <= 0:
            self.count = 0
            self.owner = None

    def __enter__(self):
        return self.acquire()

    def __exit__(self, *a):
        self.release()


def _block_on(self, tid, owner):
    with self.cv:
        if not self.alive[owner]:
            raise Deadlock("lock owned by a finished task")
        self.switches.append((self.k, tid, owner, "lock-wait"))
        self.lock_waits += 1
        self.current = owner
        self.cv.notify_all()
        self._wait_for(tid)


Scheduler.block_on = _block_on
Scheduler.lock_waits = 0


class coop_locks:
    """While active, LRUCache instances created by the library get a CoopLock in place of their real lock
    (if they have one: a tree without the lock is simply exercised through its unprotected lines)."""

    def __enter__(self):
        from django_components.util import cache as djc_cache_mod

        self.cls = djc_cache_mod.LRUCache
        self.orig = self.cls.__init__
        orig = self.orig

        def init(obj, *a, **k):
            orig(obj, *a, **k)
            if hasattr(obj, "_lock"):
                obj._lock = CoopLock()

        self.cls.__init__ = init
        return self

    def __exit__(self, *a):
        self.cls.__init__ = self.orig
