"""C06 — a finished or failed render leaves nothing behind.

PG programs whose user code (get_context_data, on_render_before/after, inject, a custom filter and a
custom tag placed anywhere in templates / fills / slot defaults / provide bodies) ticks a global
counter.  Run 0 counts N invocations; then for EVERY i in 1..N the run in which invocation i raises.
"""
import gc
import weakref

from hypothesis import strategies as st

from vf import env
from vf.core import Collector, derive_seed, exc_bucket, hyp_search, jhash, known_active
from vf.gen import pg, pgmin, pgrun, pgstrat

PROP = "C06"
LEVEL = "fault_enumeration"
RULE = (
    "PG programs with provide/inject, hooks and tick points ({% vf_ticktag %}, {{ x|vf_tick }}) in templates, fill bodies, slot defaults and provide bodies; "
    "for each program and mode: fault-free run counts N user-code invocations, then EVERY invocation index i in 1..N is made to raise (all i; in the quick tier programs with N > 60 get 60 indices: the first 30 and an even spread) one of "
    "8 exception shapes (string arg, multi-line message, non-string arg, no args, OSError(errno,msg), custom two-argument exception, TemplateSyntaxError, custom TypeError subclass with a payload attribute). "
    "Oracle per faulted run: the exception that escapes IS the injected object and still carries its original message; all six per-render registries are empty; "
    "a sentinel object in the page context is unreachable after dropping the exception and gc.collect(); a follow-up fault-free render in the same process "
    "equals the baseline. Per program additionally: 25 repetitions of one failing and of the fault-free render grow neither the registries nor the gc object count; "
    "generated sequences mixing successful and failing renders of several programs without resetting library state (each render equals its solo result). "
    "Non-trivial = fault raised inside a nested component (depth >= 2), or in fill/slot/provide content (tag/filter tick), or while a provider is active; distinct by (program, mode, i)."
)
ASSUMPTIONS = [
    "tick order of a program is deterministic (deterministic render ids, PYTHONHASHSEED=0); checked: run 0 is repeated and must tick identically",
    "gc object growth is a guarded secondary signal (threshold 3 objects/repetition over 25 repetitions after warm-up, must hold in two consecutive windows)",
    "Python slot functions passed to Component.render are exercised by a fixed family of hand-written programs, not by the generator",
]
BOUNDS = {"quick": {"programs": 160, "sequences": 64}, "thorough": {"programs": 3000, "sequences": 800}}
CFG = {"provide": True, "inject": True, "ticks": True, "hooks": True, "errors": False, "isfilled": False, "max_nodes": 3, "max_comps": 3, "provide_weight": 2, "inject_pct": 60}


class CustomTypeError(TypeError):
    """A user exception that derives from a built-in one the library itself raises / converts."""

    def __init__(self, msg, payload):
        super().__init__(msg)
        self.payload = payload


class Custom2(Exception):
    def __init__(self, a, b):
        super().__init__(a, b)
        self.a, self.b = a, b


def make_exc(kind, i):
    from django.template import TemplateSyntaxError

    if kind == 0:
        return ValueError("boom-%d" % i)
    if kind == 1:
        return ValueError("first line %d\nsecond line" % i)
    if kind == 2:
        return KeyError(1700 + i)
    if kind == 3:
        return RuntimeError()
    if kind == 4:
        return FileNotFoundError(2, "No such file or directory: f%d" % i)
    if kind == 5:
        return Custom2("c-%d" % i, {"k": i})
    if kind == 7:
        return CustomTypeError("cte-%d" % i, {"k": i})
    return TemplateSyntaxError("tse-%d" % i)


ORIG = {0: lambda i: "boom-%d" % i, 1: lambda i: "first line %d\nsecond line" % i, 6: lambda i: "tse-%d" % i}


class Sentinel:
    def __str__(self):
        return "S"


class Ticker:
    def __init__(self, fail_at=None, exc=None):
        self.n = 0
        self.labels = []
        self.fail_at = fail_at
        self.exc = exc

    def __call__(self, label):
        self.n += 1
        self.labels.append(label)
        if self.fail_at is not None and self.n == self.fail_at:
            raise self.exc


def attribute(case, message, bucket):
    return None


def tag_uids(prog):
    """Copy of the program in which every component tag passes a unique literal kwarg uid="uN" (identifies the TAG in
    tick labels, so that a tick can be related to the model instances created from that tag without modelling the
    order in which the library calls user code)."""
    import copy

    p = copy.deepcopy(prog)
    n = 0
    for nodes in [c["tpl"] for c in p["comps"]] + [p["page"]["tpl"]]:
        for node in pgstrat.walk(nodes):
            if node["t"] == "comp":
                n += 1
                node["kwargs"] = dict(node["kwargs"], uid={"lit": "u%d" % n})
    return p


def chains_by_uid(it):
    out = {}
    for inst in it.instances:
        chain = []
        x = inst
        while x is not None:
            chain.append(x.spec["name"])
            x = x.parent
        out.setdefault(inst.kwargs.get("uid"), set()).add(tuple(reversed(chain)))
    return out


def path_names(message):
    """Component names of 'An error occured while rendering components A > B(slot:x) > C:' (slot entries dropped)."""
    first = message.split("\n", 1)[0]
    marker = "rendering components "
    if marker not in first:
        return None
    body = first.split(marker, 1)[1].rstrip(":")
    return [x.strip() for x in body.split(" > ") if "(slot:" not in x and x.strip()]


def faulted_run(prog, mode, i, kind, baseline, keep_state=False, expect_chain=None):
    """One run in which invocation i raises. Returns list of (message, bucket) and label of the tick."""
    fails = []
    exc = make_exc(kind, i)
    tk = Ticker(i, exc)
    sent = Sentinel()
    wr = weakref.ref(sent)
    res = pgrun.run_real(prog, mode, budget=100000, tick=tk, keep_state=keep_state, extra_ctx={"vf_sentinel": sent})
    label = tk.labels[i - 1] if len(tk.labels) >= i else None
    got = res.exc
    if tk.n < i:
        return [("[%s] tick order not deterministic: only %d invocations in the faulted run, wanted #%d" % (mode, tk.n, i), "c06-harness-nondeterministic")], label
    if got is None:
        fails.append(("[%s] invocation #%d (%s) raised %r but the render returned normally: exception swallowed" % (mode, i, label, exc), "c06-swallowed"))
    elif got is not exc:
        fails.append(("[%s] invocation #%d (%s) raised %r but %r escaped (different object)" % (mode, i, label, exc, got), "c06-replaced:%s->%s" % (type(exc).__name__, exc_bucket(got))))
    else:
        if kind in ORIG and not str(got.args[0] if got.args else got).endswith(ORIG[kind](i)):
            fails.append(("[%s] invocation #%d (%s): message %r no longer ends with the original message %r" % (mode, i, label, str(got), ORIG[kind](i)), "c06-message-mangled"))
        if kind == 5 and (got.a, got.b) != ("c-%d" % i, {"k": i}):
            fails.append(("[%s] custom exception attributes changed: %r" % (mode, (got.a, got.b)), "c06-exception-attrs"))
        if expect_chain is not None and got.args and isinstance(got.args[0], str):
            names = path_names(got.args[0])
            if names is None:
                fails.append(("[%s] invocation #%d (%s): exception message carries no component path: %r" % (mode, i, label, got.args[0][:200]), "c06-path-missing"))
            else:
                from collections import Counter

                ok = any(not (Counter(names) - Counter(ch)) and names and names[-1] == ch[-1] for ch in expect_chain)
                if not ok:
                    fails.append(
                        (
                            "[%s] invocation #%d (%s): component path %r in the message names components that do not enclose the failing instance (enclosing chains, in the rendered structure, of the instances created by that tag: %r)"
                            % (mode, i, label, names, sorted(expect_chain)),
                            "c06-path-wrong",
                        )
                    )
    residue = res.residue
    if res.ctx_unchanged is False:
        # the caller's Context (its scopes, render_context depth, bound template) is per-render state too: stock Django's
        # own tags restore it when a render fails (context managers), so a later render with the same Context is unaffected
        fails.append(("[%s] after invocation #%d (%s) raised: the caller's Context is not as it was before the render: %s" % (mode, i, label, (res.ctx_diff or "")[:700]), "c06-context-left-behind"))
    if residue:
        fails.append(("[%s] after invocation #%d (%s) raised: registries not empty: %r" % (mode, i, label, residue), "c06-residue:" + ",".join(sorted(residue))))
    # reachability of the sentinel
    res.exc = None
    res.rec = None
    del res, got, exc, tk, sent
    if wr() is not None:
        gc.collect()  # only cycles need the collector; it is expensive on a large heap
    if wr() is not None:
        fails.append(("[%s] after invocation #%d (%s) raised: object passed in the page context is still reachable (referrers: %s)" % (mode, i, label, _referrers(wr())), "c06-sentinel-alive"))
    # follow-up render
    if baseline is not None:
        res2 = pgrun.run_real(prog, mode, budget=100000, tick=Ticker(), keep_state=True)
        if res2.exc is not None:
            fails.append(("[%s] render after the failed one (invocation #%d, %s) raised %r" % (mode, i, label, res2.exc), "c06-followup-exc:" + exc_bucket(res2.exc)))
        elif pg.normalize_real(res2.out) != baseline:
            fails.append(("[%s] render after the failed one (invocation #%d) differs from the baseline\n baseline: %r\n now:      %r" % (mode, i, baseline[:300], pg.normalize_real(res2.out)[:300]), "c06-followup-differs"))
        elif res2.residue:
            fails.append(("[%s] follow-up render leaves registries %r" % (mode, res2.residue), "c06-residue-followup"))
    return fails, label


def _referrers(obj):
    try:
        out = []
        for r in gc.get_referrers(obj)[:4]:
            out.append(type(r).__name__ + (":" + ",".join(list(r)[:4]) if isinstance(r, dict) else ""))
        return "; ".join(out)
    except Exception:
        return "?"


def _is_nontrivial(label, labels_before):
    if label is None:
        return False
    if label.startswith(("tag:", "filter:")):
        return True
    depth = sum(1 for x in labels_before if x.startswith("gcd:"))
    return depth >= 2 or any(x.startswith("inject:") for x in labels_before)


def check_program(case, col=None):
    prog = tag_uids(case["program"])
    fails = []
    for mode in case.get("modes", ["django", "isolated"]):
        kind, exp, it = pgrun.run_model(prog, mode)
        if kind != "ok":
            if col is not None:
                col.case(None, False, labels=("model:" + kind,))
            continue
        tk0 = Ticker()
        res0 = pgrun.run_real(prog, mode, budget=100000, tick=tk0)
        if res0.exc is not None:
            fails.append(("[%s] fault-free run raised %r" % (mode, res0.exc), "c06-baseline-exc:" + exc_bucket(res0.exc)))
            continue
        if res0.residue:
            fails.append(("[%s] fault-free render leaves registries %r" % (mode, res0.residue), "c06-residue-ok-render"))
        baseline = pg.normalize_real(res0.out)
        tk1 = Ticker()
        res1 = pgrun.run_real(prog, mode, budget=100000, tick=tk1)
        if tk1.labels != tk0.labels:
            fails.append(("[%s] harness: tick sequence differs between two fault-free runs" % mode, "c06-harness-nondeterministic"))
            continue
        n = tk0.n
        # relate gcd / inject ticks to the model instances created by the same tag (for the component-path clause)
        by_uid = chains_by_uid(it)
        chains = {}
        for idx, lb in enumerate(tk0.labels, 1):
            if lb.startswith(("gcd:", "inject:")) and "@" in lb and lb.split("@", 1)[1] in by_uid:
                chains[idx] = by_uid[lb.split("@", 1)[1]]
        only = case.get("only_i")
        cap = case.get("cap")
        if cap and n > cap and not only:
            # quick tier: programs with very many invocations get the first cap/2 indices and an even spread of the rest
            head = list(range(1, cap // 2 + 1))
            rest = list(range(cap // 2 + 1, n + 1))
            step = max(1, len(rest) // (cap - len(head)))
            only = set(head + rest[::step])
            if col is not None:
                col.count("programs_with_capped_fault_indices")
        for i in range(1, n + 1):
            if only and i not in only:
                continue
            k = (case.get("exc_kind", 0) + i) % 8
            f, label = faulted_run(prog, mode, i, k, baseline, expect_chain=chains.get(i) if k in ORIG else None)
            if col is not None and i in chains and k in ORIG:
                col.count("component_path_judged")
            fails.extend(f)
            if col is not None:
                nt = _is_nontrivial(label, tk0.labels[: i - 1])
                lb = ["mode:" + mode, "fault_at:" + (label or "?").split(":")[0], "exc_kind:%d" % k]
                col.case(jhash([prog, mode, i]), nt, sample={"mode": mode, "fault_at": [i, label], "of": n, "exception": repr(make_exc(k, i)), "page": pg.template_source(prog["page"]["tpl"])[:250]} if nt and i % 7 == 1 else None, labels=lb)
            if len(fails) > 6:
                break
        # repetition: registries / gc objects must not grow
        if n and not case.get("only_i") and not fails and case.get("exc_kind", 0) % 3 == 0:
            fails.extend(_repeat(prog, mode, 1 + (case.get("exc_kind", 0) % n), baseline))
            if col is not None:
                col.count("repetition_blocks")
    return fails


def _repeat(prog, mode, i, baseline):
    fails = []
    for what in ("fail", "ok"):

        def once():
            if what == "fail":
                pgrun.run_real(prog, mode, budget=100000, tick=Ticker(i, make_exc(0, i)), keep_state=True)
            else:
                pgrun.run_real(prog, mode, budget=100000, tick=Ticker(), keep_state=True)

        env.reset()
        for _ in range(4):
            once()
        gc.collect()
        counts = [len(gc.get_objects())]
        for _w in range(2):
            for _ in range(25):
                once()
            gc.collect()
            counts.append(len(gc.get_objects()))
        sizes = env.registry_sizes()
        if any(sizes.values()):
            fails.append(("[%s] registries after 54 repetitions of the %s render: %r" % (mode, what, {k: v for k, v in sizes.items() if v}), "c06-growth-registries"))
        d1, d2 = counts[1] - counts[0], counts[2] - counts[1]
        if d1 >= 75 and d2 >= 75:
            fails.append(("[%s] gc-tracked objects grow with every %s render: +%d, +%d over two windows of 25 repetitions" % (mode, what, d1, d2), "c06-growth-objects"))
    env.reset()
    return fails


def check_sequence(case, col=None):
    """case: {"programs":[...], "steps":[[prog_idx, fault_fraction or None], ...], "mode":...}"""
    mode = case["mode"]
    fails = []
    base = []
    for prog in case["programs"]:
        kind, _exp, _it = pgrun.run_model(prog, mode)
        tk = Ticker()
        res = pgrun.run_real(prog, mode, budget=100000, tick=tk)
        if kind != "ok" or res.exc is not None:
            if col is not None:
                col.case(None, False, labels=("seq:skipped",))
            return []
        base.append((pg.normalize_real(res.out), tk.n))
    env.reset()
    n_fail = 0
    for si, (pi, frac) in enumerate(case["steps"]):
        prog = case["programs"][pi]
        out0, n = base[pi]
        _reregister()
        if frac is None or n == 0:
            res = pgrun.run_real(prog, mode, budget=100000, tick=Ticker(), keep_state=True)
            if res.exc is not None:
                fails.append(("[%s] step %d: fault-free render raised %r after %d failed renders" % (mode, si, res.exc, n_fail), "c06-seq-exc:" + exc_bucket(res.exc)))
                break
            if pg.normalize_real(res.out) != out0:
                fails.append(("[%s] step %d: output differs from the solo render after %d failed renders" % (mode, si, n_fail), "c06-seq-differs"))
                break
            if res.residue:
                fails.append(("[%s] step %d: registries %r" % (mode, si, res.residue), "c06-seq-residue"))
                break
        else:
            i = 1 + int(frac * (n - 1) / 100.0)
            f, _label = faulted_run(prog, mode, i, (si + i) % 8, None, keep_state=True)
            n_fail += 1
            if f:
                fails.extend([(m.replace("[%s]" % mode, "[%s] step %d:" % (mode, si)), b.replace("c06-", "c06-seq-")) for m, b in f])
                break
    env.reset()
    if col is not None:
        nt = n_fail >= 1 and len(case["steps"]) >= 3
        col.case(jhash(["seq", case]), nt, sample={"sequence": case["steps"], "mode": mode} if nt else None, labels=("sequence", "seq_failures:%d" % min(n_fail, 3)))
    return fails


def _reregister():
    from django_components import registry
    from django_components.app_settings import app_settings
    from django_components.component import component_node_subclasses_by_name
    from django_components.components.dynamic import DynamicComponent

    registry.clear()
    component_node_subclasses_by_name.clear()
    registry.register(app_settings.DYNAMIC_COMPONENT_NAME, DynamicComponent)


# ---------------------------------------------------------------------------
# hand-written family: Python slot functions and render() entry point


def check_pyslots(case, col=None):
    """Component.render(slots={name: function}) where the slot function / nested render raises at call #i."""
    from django_components import Component, registry

    mode = case["mode"]
    fails = []
    for i in range(1, 6):
        for kind in range(8):
            env.reset()
            exc = make_exc(kind, i)
            state = {"n": 0}
            sent = Sentinel()
            wr = weakref.ref(sent)

            def tick():
                state["n"] += 1
                if state["n"] == i:
                    raise exc

            with env.components_settings(context_behavior=mode):

                class Inner(Component):
                    template = "<i>{% slot 'x' default %}d{% endslot %}</i>"

                    def get_context_data(self, v=None):
                        tick()
                        return {"v": v}

                class Outer(Component):
                    template = "<o>{% component 'inner' v=v %}{% slot 'a' %}{% endslot %}{% endcomponent %}{% slot 'b' / %}</o>"

                    def get_context_data(self, v=None):
                        tick()
                        return {"v": v}

                registry.register("inner", Inner)
                registry.register("outer", Outer)

                def slot_a(ctx, data, ref):
                    tick()
                    return Inner.render(kwargs={"v": sent}, slots={"x": slot_x}, render_dependencies=False)

                def slot_x(ctx, data, ref):
                    tick()
                    return "X"

                try:
                    Outer.render(kwargs={"v": sent}, slots={"a": slot_a, "b": slot_x}, render_dependencies=False)
                    got = None
                except Exception as e:  # noqa
                    got = e
            if state["n"] >= i:
                if got is None:
                    fails.append(("[%s] pyslots: call #%d raised %r, render returned normally" % (mode, i, exc), "c06-swallowed"))
                elif got is not exc:
                    fails.append(("[%s] pyslots: call #%d raised %r but %r escaped" % (mode, i, exc, got), "c06-replaced:%s->%s" % (type(exc).__name__, exc_bucket(got))))
            residue = {k: v for k, v in env.registry_sizes().items() if v}
            if residue:
                fails.append(("[%s] pyslots: registries after call #%d raised: %r" % (mode, i, residue), "c06-residue:" + ",".join(sorted(residue))))
            del got, exc, sent
            slot_a = slot_x = Inner = Outer = None
            gc.collect()
            if wr() is not None:
                fails.append(("[%s] pyslots: kwarg object still reachable after call #%d raised (referrers: %s)" % (mode, i, _referrers(wr())), "c06-sentinel-alive"))
            if col is not None:
                col.case(jhash(["pyslots", mode, i, kind]), True, sample={"pyslots": True, "mode": mode, "fault_call": i, "exc_kind": kind} if kind == 0 else None, labels=("pyslots",))
    env.reset()
    return fails


class ReuseBoom(Exception):
    pass


REUSE_POINTS = ["get_context_data", "on_render_before", "get_template", "template_filter", "on_render_after"]


def check_reuse(case, col=None):
    """ONE component instance rendered again and again (as `Component.as_view()` does with its instance), each render
    failing at a user-code point: the objects passed to a failed render must become unreachable, the instance must not
    grow, and a fault-free render afterwards gives the normal output."""
    import gc
    import weakref

    from django_components import Component

    from vf import vf_tags

    mode, point = case["mode"], case["point"]
    fails = []
    env.reset()
    with env.components_settings(context_behavior=mode):
        state = {"fail": False}

        def maybe(where):
            if state["fail"] and where == point:
                raise ReuseBoom("boom at " + where)

        class R(Component):
            def get_template(self, context):
                maybe("get_template")
                return "{% load vf_tags %}<b>{{ v|vf_tick:'f' }}</b>"

            def get_context_data(self, obj=None, **kw):
                maybe("get_context_data")
                return {"v": "ok"}

            def on_render_before(self, context, template):
                maybe("on_render_before")

            def on_render_after(self, context, template, content):
                maybe("on_render_after")

        vf_tags.TICK["fn"] = lambda label: maybe("template_filter")
        try:
            inst = R()
            good = inst.render(kwargs={"obj": None}, render_dependencies=False)
            refs = []
            sizes = []
            for rep in range(6):
                s_ = Sentinel()
                refs.append(weakref.ref(s_))
                state["fail"] = True
                try:
                    inst.render(kwargs={"obj": s_}, slots={"x": lambda ctx, data, ref, _s=s_: "x"}, render_dependencies=False)
                    fails.append(("[%s] reused instance: the injected failure at %s did not propagate" % (mode, point), "c06-reuse-swallowed"))
                except ReuseBoom:
                    pass
                except Exception as e:  # noqa
                    fails.append(("[%s] reused instance: failure at %s surfaced as %r" % (mode, point, e), "c06-reuse-replaced:" + exc_bucket(e)))
                finally:
                    state["fail"] = False
                del s_
                gc.collect()
                sizes.append(sum(len(v) for v in vars(inst).values() if hasattr(v, "__len__") and not isinstance(v, str)))
            alive = sum(1 for r in refs if r() is not None)
            if alive:
                fails.append(("[%s] ONE instance rendered 6 times, each failing at %s: %d of the 6 objects passed to the failed renders are still reachable afterwards (sizes of the instance's containers after each failure: %r)" % (mode, point, alive, sizes), "c06-reuse-sentinel-alive"))
            elif len(set(sizes)) > 1:
                fails.append(("[%s] ONE instance rendered 6 times, each failing at %s: the instance's containers grow: %r" % (mode, point, sizes), "c06-reuse-growth"))
            again = inst.render(kwargs={"obj": None}, render_dependencies=False)
            from vf.core import normalize_ids

            if normalize_ids(again) != normalize_ids(good):
                fails.append(("[%s] reused instance: render after the failures gives %r, before them %r" % (mode, again[:200], good[:200]), "c06-reuse-later-render"))
            res = {k: v for k, v in env.registry_sizes().items() if v}
            if res:
                fails.append(("[%s] reused instance: registries not empty after failures at %s: %r" % (mode, point, res), "c06-reuse-residue"))
        finally:
            vf_tags.TICK["fn"] = None
    if col is not None:
        col.case(jhash(["reuse", mode, point]), True, sample={"family": "one instance rendered repeatedly, failing", "mode": mode, "fault_point": point}, labels=("reused_instance",))
    env.reset()
    return fails


# ---------------------------------------------------------------------------
# family: a nested component that is prepared but whose output never reaches the page


UNRENDERED_SHAPES = ["arg_ignored", "arg_printed", "arg_ignored_nested", "arg_ignored_then_fail"]


def check_unrendered(case, col=None):
    """A component written inside a nested-template tag ARGUMENT (`val="{% component 'child' v=obj / %}"`) is prepared
    while the arguments are resolved; whether it is ever rendered depends on the receiver printing the value. Either way
    the finished (or failed) render must leave nothing behind and the object passed to the child must become unreachable."""
    import gc
    import weakref

    from django.template import Context, Template

    from django_components import Component, registry

    mode, shape = case["mode"], case["shape"]
    fails = []
    env.reset()
    with env.components_settings(context_behavior=mode):

        class Child(Component):
            template = "<i>{{ v }}</i>"

            def get_context_data(self, v=None):
                return {"v": v}

        class Ignore(Component):
            template = "<b>ignored</b>"

            def get_context_data(self, val=None):
                return {}

        class Show(Component):
            template = "<b>{{ val }}</b>"

            def get_context_data(self, val=None):
                return {"val": val}

        class Boom(Component):
            template = "x"

            def get_context_data(self):
                raise ReuseBoom("boom after an unrendered sibling")

        class Outer(Component):
            template = "<div>{% component 'vf_ignore' val=\"{% component 'vf_child' v=obj / %}\" / %}</div>"

            def get_context_data(self, obj=None):
                return {"obj": obj}

        for n_, c_ in (("vf_child", Child), ("vf_ignore", Ignore), ("vf_show", Show), ("vf_boom", Boom), ("vf_outer", Outer)):
            c_.__module__ = "vfgen.c06u"
            registry.register(n_, c_)
        import sys as _sys
        import types as _types

        if "vfgen.c06u" not in _sys.modules:
            _m = _types.ModuleType("vfgen.c06u")
            _m.__file__ = None
            _sys.modules["vfgen.c06u"] = _m
        arg = "\"{% component 'vf_child' v=obj / %}\""
        src = {
            "arg_ignored": "{% component 'vf_ignore' val=" + arg + " / %}",
            "arg_printed": "{% component 'vf_show' val=" + arg + " / %}",
            "arg_ignored_nested": "{% component 'vf_outer' obj=obj / %}",
            "arg_ignored_then_fail": "{% component 'vf_ignore' val=" + arg + " / %}{% component 'vf_boom' / %}",
        }[shape]
        tpl = Template(src)
        refs = []
        for rep in range(3):
            s_ = Sentinel()
            refs.append(weakref.ref(s_))
            try:
                out = tpl.render(Context({"obj": s_}))
                if shape == "arg_ignored_then_fail":
                    fails.append(("[%s] %s: the injected failure did not propagate" % (mode, shape), "c06-unrendered-swallowed"))
                elif shape == "arg_printed" and ">S</i>" not in out:
                    fails.append(("[%s] %s: the printed argument did not render the nested component: %r" % (mode, shape, out[:200]), "c06-unrendered-output"))
            except ReuseBoom:
                pass
            except Exception as e:  # noqa
                fails.append(("[%s] %s: render raised %r" % (mode, shape, e), "c06-unrendered-exc:" + exc_bucket(e)))
            del s_
            gc.collect()
            res = {k: v for k, v in env.registry_sizes().items() if v}
            if res and not fails:
                fails.append(("[%s] %s (%s): registries not empty after render #%d: %r" % (mode, shape, src, rep + 1, res), "c06-unrendered-residue"))
        alive = sum(1 for r in refs if r() is not None)
        if alive and not fails:
            fails.append(("[%s] %s (%s): %d of the 3 objects passed to the nested component are still reachable after the renders" % (mode, shape, src, alive), "c06-unrendered-sentinel-alive"))
    if col is not None:
        col.case(jhash(["unrendered", mode, shape]), True, sample={"family": "component inside a tag argument, output printed or not", "mode": mode, "shape": shape}, labels=("unrendered_child",))
    env.reset()
    return fails


def plan(tier, seed, scale=1.0):
    b = BOUNDS[tier]
    n = max(16, int(b["programs"] * scale))
    shards = 32 if tier == "quick" else 96
    specs = [{"kind": "main", "n": max(1, n // shards), "seed": derive_seed(seed, "c06", sh), "cap": 60 if tier == "quick" else None} for sh in range(shards)]
    ns = max(8, int(b["sequences"] * scale))
    for sh in range(8):
        specs.append({"kind": "seq", "n": max(1, ns // 8), "seed": derive_seed(seed, "c06s", sh)})
    specs.append({"kind": "pyslots", "mode": "django"})
    specs.append({"kind": "pyslots", "mode": "isolated"})
    for mode in ("django", "isolated"):
        for point in REUSE_POINTS:
            specs.append({"kind": "reuse", "mode": mode, "point": point})
        for shape in UNRENDERED_SHAPES:
            specs.append({"kind": "unrendered", "mode": mode, "shape": shape})
    return specs


def _reduce(case, still):
    small = pgmin.minimize(case, still, 120)
    return small


def run_shard(spec):
    col = Collector()
    if spec["kind"] == "pyslots":
        case = {"kind": "pyslots", "mode": spec["mode"]}
        for m, b in check_pyslots(case, col):
            col.fail(case, m, b)
        return col
    if spec["kind"] == "reuse":
        case = {"kind": "reuse", "mode": spec["mode"], "point": spec["point"]}
        for m, b in check_reuse(case, col):
            col.fail(case, m, b)
        return col
    if spec["kind"] == "unrendered":
        case = {"kind": "unrendered", "mode": spec["mode"], "shape": spec["shape"]}
        for m, b in check_unrendered(case, col):
            col.fail(case, m, b)
        return col
    if spec["kind"] == "main":
        strat = st.builds(lambda p, k: {"kind": "main", "program": p, "exc_kind": k, "cap": spec.get("cap")}, pgstrat.programs(CFG), st.integers(0, 7))
        return hyp_search(strat, lambda case: check_program(case, col), col, max_examples=spec["n"], seed=spec["seed"], shrink=False, attribute=attribute, post_min=_reduce)
    strat = st.builds(
        lambda ps, steps, m: {"kind": "seq", "programs": ps, "steps": [[pi % len(ps), fr] for pi, fr in steps], "mode": m},
        st.lists(pgstrat.programs(CFG), min_size=1, max_size=3),
        st.lists(st.tuples(st.integers(0, 2), st.one_of(st.none(), st.integers(0, 100))).map(list), min_size=2, max_size=6),
        st.sampled_from(["django", "isolated"]),
    )
    return hyp_search(strat, lambda case: check_sequence(case, col), col, max_examples=spec["n"], seed=spec["seed"], shrink=False, attribute=attribute)


def replay(case):
    if case.get("kind") == "seq":
        return check_sequence(case)
    if case.get("kind") == "pyslots":
        return check_pyslots(case)
    if case.get("kind") == "reuse":
        return check_reuse(case)
    if case.get("kind") == "unrendered":
        return check_unrendered(case)
    return check_program(case)
