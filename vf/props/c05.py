"""C05 — inject() returns the nearest enclosing {% provide %} of the rendered structure.

PG programs with {% provide %} blocks and components that call inject(); the reference interpreter
computes, per consumer instance, the payload of the nearest enclosing provider along the rendered
structure (dynamic scoping through slots / fills / isolated contexts), or default / KeyError.
Sequences of renders in one process (including failing ones) must behave like solo renders.
"""
from collections import Counter

from hypothesis import strategies as st

from vf import env
from vf.core import Collector, derive_seed, exc_bucket, hyp_search, jhash, known_active
from vf.gen import pg, pgmin, pgrun, pgstrat

PROP = "C05"
LEVEL = "exploration"
RULE = (
    "PG programs with provide blocks (nested, shadowing the same key, two keys, around slots, inside fills, in loops, at page level and in "
    "component templates) and components whose get_context_data calls inject(key) / inject(key, default) for keys pk1 / pk2 / class (a Python keyword) and echoes a field "
    "into the output; both context behaviours. Oracle: multiset of (component, key, payload | <default> | <KeyError>) observed by the real "
    "consumers == interpreter's; page text == interpreter's (so each consumer's value appears at the right place; {{ key }} / {{ field }} probes "
    "inside provide bodies render empty). Sequences of 2-4 such renders in one process without resetting the library's registries, optionally "
    "with a failing render in between: every render equals its solo result. "
    "Non-trivial = a provider with >=2 consumers, or shadowing, or a consumer reached through a slot/fill; distinct by (program, mode)."
)
ASSUMPTIONS = [
    "reference interpreter models providers as dynamically scoped along the rendered structure",
    "{% provide %} wrapped around {% fill %} tags inside a component body is not generated (reading ambiguous)",
    "django mode + `only`: values of unpredicted variables are wildcards",
]
BOUNDS = {"quick": {"programs": 3200, "sequences": 480}, "thorough": {"programs": 80000, "sequences": 12000}}
CFG = {"provide": True, "inject": True, "errors": False, "isfilled": False, "max_nodes": 4, "provide_weight": 4, "inject_pct": 90}


def attribute(case, message, bucket):
    return None


def _provider_stats(prog):
    """(max consumers under one provider lexically, shadowing?, provide around slot / inside fill?)"""
    info = {"shadow": False, "slotfill": False, "provides": 0, "in_loop": False, "page_level": False}

    def rec(nodes, keys, in_fill, in_loop, top):
        for n in nodes:
            t = n["t"]
            if t == "provide":
                info["provides"] += 1
                if n["key"] in keys:
                    info["shadow"] = True
                if in_fill:
                    info["slotfill"] = True
                if in_loop:
                    info["in_loop"] = True
                if top:
                    info["page_level"] = True
                if any(x["t"] == "slot" for x in pgstrat.walk(n["c"])):
                    info["slotfill"] = True
                rec(n["c"], keys | {n["key"]}, in_fill, in_loop, top)
            elif t == "comp":
                body = n.get("body")
                if body:
                    rec(body["c"], keys, True, in_loop, top)
            elif t == "fill":
                rec(n["c"], keys, True, in_loop, top)
            elif t == "if":
                rec(n["a"], keys, in_fill, in_loop, top)
                rec(n["b"], keys, in_fill, in_loop, top)
            elif t == "for":
                rec(n["c"], keys, in_fill, True, top)
            elif t in ("with", "slot", "elem"):
                rec(n.get("c") or [], keys, in_fill, in_loop, top)

    for c in prog["comps"]:
        rec(c["tpl"], set(), False, False, False)
    rec(prog["page"]["tpl"], set(), False, False, True)
    return info


def _wild_match(want, got):
    """Multiset equality where expected payloads may contain wildcards (values the model does not predict)."""
    rest_w = list((want - got).elements())
    rest_g = list((got - want).elements())
    if len(rest_w) != len(rest_g):
        return False
    for w in rest_w:
        if pg.WILD not in w[2] and pg.WILD2 not in w[2]:
            return False
        hit = next((g for g in rest_g if g[0] == w[0] and g[1] == w[1] and pg.matches(w[2], g[2])), None)
        if hit is None:
            return False
        rest_g.remove(hit)
    return True


def solo(prog, mode, keep_state=False):
    """Returns (fails, info). info: model kind, real normalised text, injected multisets."""
    kind, exp, it = pgrun.run_model(prog, mode)
    info = {"model": kind, "instances": len(it.instances)}
    fails = []
    if kind != "ok":
        return fails, info
    res = pgrun.run_real(prog, mode, budget=20 * len(it.instances) + 50, keep_state=keep_state)
    info["res"] = res
    if res.exc is not None:
        fails.append(("[%s] unexpected %r; model expects injections %r" % (mode, res.exc, it.injected[:8]), "c05-exc:" + exc_bucket(res.exc)))
        return fails, info
    real = pg.normalize_real(res.out)
    info["real"] = real
    want = Counter(map(tuple, it.injected))
    got = Counter(map(tuple, res.rec.injected))
    info["n_inject"] = sum(want.values())
    info["n_payload"] = sum(v for k, v in want.items() if not k[2].startswith("<"))
    if want != got and not _wild_match(want, got):
        fails.append(("[%s] inject() results differ\n only in model: %r\n only in real:  %r" % (mode, sorted((want - got).elements())[:8], sorted((got - want).elements())[:8]), "c05-inject"))
    elif not pg.matches(exp, real):
        fails.append(("[%s] output differs\n expected: %r\n real:     %r" % (mode, exp[:500], real[:500]), "c05-output"))
    return fails, info


def check_program(case, col=None):
    prog = case["program"]
    fails = []
    ps = _provider_stats(prog)
    for mode in ("django", "isolated"):
        f, info = solo(prog, mode)
        fails.extend(f)
        if case.get("dynamic") and not f and info["model"] == "ok" and info.get("res") is not None and info["res"].exc is None:
            # the same page with every component tag written as {% component "dynamic" is="cX" %}: same inject() results
            resd = pgrun.run_real(prog, mode, {"dynamic": "name"}, budget=40 * info["instances"] + 100)
            if resd.exc is not None:
                fails.append(("[%s] dynamic-component variant raised %r; the tag form injects %r" % (mode, resd.exc, sorted(map(list, info["res"].rec.injected))[:8]), "c05-dynamic-exc:" + exc_bucket(resd.exc)))
            else:
                want, got = Counter(map(tuple, info["res"].rec.injected)), Counter(map(tuple, resd.rec.injected))
                if want != got:
                    fails.append(("[%s] dynamic-component variant: inject() results differ from the tag form\n only tag form: %r\n only dynamic:  %r" % (mode, sorted((want - got).elements())[:8], sorted((got - want).elements())[:8]), "c05-dynamic-inject"))
            if col is not None:
                col.count("variant:dynamic")
        if col is not None:
            nt = info["model"] == "ok" and info.get("n_payload", 0) >= 1 and (info.get("n_payload", 0) >= 2 or ps["shadow"] or ps["slotfill"])
            labels = ["mode:" + mode, "model:" + info["model"]]
            for k in ("shadow", "slotfill", "in_loop", "page_level"):
                if ps[k]:
                    labels.append("provide_" + k)
            if info.get("n_payload"):
                labels.append("has_provided_consumer")
            sample = {"mode": mode, "page": pg.template_source(prog["page"]["tpl"])[:400], "components": {c["name"]: [c["data"], pg.template_source(c["tpl"])[:300]] for c in prog["comps"]}, "injected": sorted(map(list, info["res"].rec.injected))[:6] if info.get("res") is not None else None} if nt else None
            col.case(jhash([prog, mode]), nt, sample=sample, labels=labels)
    return fails


FAILING = {"comps": [{"name": "boom", "params": [], "data": [], "tpl": [{"t": "text", "s": "x"}]}], "page": {"ctx": {}, "tpl": []}}


def _failing_render(mode):
    """A render that fails inside a provider with a nested consumer (leaves whatever the library leaves)."""
    from django.template import Context, Template

    from django_components import Component, registry

    class Boom(Component):
        template = "{{ v }}"

        def get_context_data(self):
            self.inject("pk1", None)
            raise ValueError("boom")

    class Wrap(Component):
        template = '{% provide "pk2" f1="w" %}{% component "vf_boom" / %}{% endprovide %}'

    with env.components_settings(context_behavior=mode):
        try:
            registry.register("vf_boom", Boom)
            registry.register("vf_wrap", Wrap)
        except Exception:
            pass
        try:
            Template('{% provide "pk1" f1="p" %}{% component "vf_wrap" / %}{% component "vf_boom" / %}{% endprovide %}').render(Context({}))
        except ValueError:
            return True
        except Exception:  # the wrong exception type is C06's business
            return True
    return False


def check_sequence(case, col=None):
    """case: {"programs":[p1,..], "fail_after":[bool,..], "mode":...}: renders in one process without registry reset."""
    mode = case["mode"]
    fails = []
    solos = []
    for prog in case["programs"]:
        f, info = solo(prog, mode)
        if f or info["model"] != "ok":
            if col is not None:
                col.case(None, False, labels=("seq:skipped(solo disagrees or not ok)",))
            return []  # solo disagreement is reported by the main part
        solos.append((info["real"], Counter(map(tuple, info["res"].rec.injected)), info["instances"]))
    env.reset()
    for i, prog in enumerate(case["programs"]):
        # keep registries; re-register classes (registry is cleared, per-render registries are NOT)
        from django_components import registry
        from django_components.app_settings import app_settings
        from django_components.component import component_node_subclasses_by_name
        from django_components.components.dynamic import DynamicComponent

        registry.clear()
        component_node_subclasses_by_name.clear()
        registry.register(app_settings.DYNAMIC_COMPONENT_NAME, DynamicComponent)
        res = pgrun.run_real(prog, mode, budget=max(2000, 20 * solos[i][2] + 50), keep_state=True)  # same budget rule as the solo render
        if res.exc is not None:
            fails.append(("[%s] render #%d of the sequence raised %r (solo render succeeded)" % (mode, i, res.exc), "c05-seq-exc:" + exc_bucket(res.exc)))
            break
        real = pg.normalize_real(res.out)
        if real != solos[i][0] or Counter(map(tuple, res.rec.injected)) != solos[i][1]:
            fails.append(("[%s] render #%d of the sequence differs from its solo render\n solo: %r\n seq:  %r" % (mode, i, solos[i][0][:300], real[:300]), "c05-seq-differs"))
            break
        if case["fail_after"][i]:
            _failing_render(mode)
    env.reset()
    if col is not None:
        nt = len(case["programs"]) >= 2
        col.case(jhash(["seq", case]), nt, sample={"sequence_of": len(case["programs"]), "fail_after": case["fail_after"], "mode": mode} if nt else None, labels=("sequence", "seq_with_failing_render" if any(case["fail_after"]) else "seq_ok_only"))
    return fails


# coverage-guided stage (atheris drives these Hypothesis shards, see vf/run.py): {tier: {shard kind: (shards, executions)}}
CG = {'thorough': {'main': (8, 3000)}}


def plan(tier, seed, scale=1.0):
    b = BOUNDS[tier]
    n = max(16, int(b["programs"] * scale))
    shards = 16 if tier == "quick" else 128
    specs = [{"kind": "main", "n": n // shards, "seed": derive_seed(seed, "c05", sh)} for sh in range(shards)]
    ns = max(8, int(b["sequences"] * scale))
    for sh in range(8):
        specs.append({"kind": "seq", "n": ns // 8, "seed": derive_seed(seed, "c05s", sh)})
    return specs


def run_shard(spec):
    col = Collector()
    if spec["kind"] == "main":
        strat = st.builds(lambda p, d: {"kind": "main", "program": p, "dynamic": d < 34}, pgstrat.programs(CFG), st.integers(0, 99))
        return hyp_search(strat, lambda case: check_program(case, col), col, max_examples=spec["n"], seed=spec["seed"], shrink=False, attribute=attribute, post_min=lambda c, still: pgmin.minimize(c, still, 300))
    strat = st.builds(
        lambda ps, fa, m: {"kind": "seq", "programs": ps, "fail_after": (fa + [False] * 4)[: len(ps)], "mode": m},
        st.lists(pgstrat.programs(dict(CFG, max_comps=3)), min_size=2, max_size=4),
        st.lists(st.booleans(), min_size=0, max_size=4),
        st.sampled_from(["django", "isolated"]),
    )
    return hyp_search(strat, lambda case: check_sequence(case, col), col, max_examples=spec["n"], seed=spec["seed"], shrink=False, attribute=attribute)


def replay(case):
    if case.get("kind") == "seq":
        return check_sequence(case)
    return check_program(case)
