"""C19 — every script URL a render emits is served with that component's code.

Histories (JSON op lists) over: define class / render a set of classes (document or fragment; through
`Component.render`, `Component.render_to_response`, Template + `render_dependencies`, the dependency
middleware) / clear the media cache / evict one cache entry / re-fetch earlier URLs / free-form request.

Oracle (independent of the library): the harness knows which code it gave to which class. Right after
every render, each component-endpoint URL found in the `<script type="application/json" data-djc>` blob
(decoded the way the client-side manager does: base64 -> URL or tag -> src/href) is fetched with
django.test.Client and must give 200 + exactly that class's stripped js/css + the matching content type.
A battery of malformed variants of one emitted URL per render (unknown hash / kind / input hash, extra dots,
slashes, percent escapes, non-GET methods) and generated free-form requests are judged by `judge()`:
404 for anything that is not a well-formed URL of a live class, 405 for non-GET, never >= 500, never a
body that is not the addressed class's own code.

A second part ("churn") renders many distinct classes in one process, re-rendering an older class next
to a fresh one at every step (no explicit clear: the evictions are whatever the configured default cache
does by itself).
"""
import base64
import json
import re
import sys
import types
from contextlib import contextmanager
from html.parser import HTMLParser
from urllib.parse import unquote_to_bytes

from vf import env
from vf.core import Collector, derive_seed, exc_bucket, hyp_search, jhash, known_active

PROP = "C19"
LEVEL = "exploration"
RULE = (
    "Part 'hist': Hypothesis-generated histories (<= max_steps ops) over 1-5 generated component classes "
    "(names sharing prefixes / differing only in case / looking like a class hash / with non-ASCII letters "
    "(Latin-1, Cyrillic, CJK, non-BMP: URLs announced percent-encoded), same name in two modules, "
    "unique import path per case; js/css absent, empty, whitespace-only, plain, padded with whitespace, rich "
    "(non-ASCII, <, &, quotes), shared between classes, or from js_file/css_file; optional subclassing, nested "
    "child component, Media files, get_js_data/get_css_data variables) with ops define / render(set of classes; "
    "document|fragment; via Component.render | render_to_response | Template+render_dependencies (str or bytes) | "
    "middleware; layout head+body | dependency placeholders | bare | none; nested or siblings) / clear media cache / "
    "evict one cache entry / refetch all earlier URLs / free-form request (hash x input hash x kind x separators x "
    "prefix x suffix x method), under the library's default media cache or a user-named unbounded locmem cache. "
    "After every render each emitted endpoint URL is fetched (strict oracle) and, for one announced URL chosen by the "
    "generated `probe`, a fixed battery of 62-75 requests (malformed variants + 7 non-GET methods) is sent. Part 'churn': histories that define up to 400 classes, each step "
    "rendering an old class (lag steps back) together with a fresh one and fetching all announced URLs. "
    "Non-trivial (hist) = >= 2 classes had URLs checked and some class had a URL announced+checked in two renders "
    "with a cache clear or an effective eviction in between; (churn) = an older class is re-rendered after >= 1 "
    "intervening render. Distinct by hash of the case."
)
ASSUMPTIONS = [
    "GETs are issued right after the announcing render; Template.render + render_dependencies count as one render "
    "(no clear/evict is generated between the two phases)",
    "component classes of one case have unique import paths (module name is unique per case)",
    "js/css never contain '</script' / '</style' (C13 owns that)",
    "the endpoint is mounted by django_components.urls as ROOT_URLCONF, i.e. under /components/cache/",
    "URLs with an input hash (get_js_data/get_css_data variables): 200 + content type + no other class's code is "
    "asserted, not the (currently empty, 'TODO') body",
    "percent-escaped paths are judged after decoding, as WSGI servers hand PATH_INFO to Django decoded",
    "hist part: media cache is the library default or a named locmem cache with MAX_ENTRIES=10**9; at most ~25 entries",
]
BOUNDS = {
    "quick": {"histories": 1920, "max_steps": 20, "churn_cases": 64, "churn_max_steps": 400},
    "thorough": {"histories": 50000, "max_steps": 20, "churn_cases": 1440, "churn_max_steps": 400},
}

PREFIX = "/components/cache/"
CT = {"js": "text/javascript", "css": "text/css"}
KINDS = ("js", "css")
NAMES = ["Card", "CardList", "Card_", "Card_1a2b3c", "card", "C", "Table", "Tabl", "_Card", "CardCard", "Card_js", "js",
         "L" * 236 + "ongA", "L" * 236 + "ongB"]  # two very long names with a long common prefix (legal identifiers)
# Class names that are legal (NFKC-stable) Python identifiers with non-ASCII letters: the property holds "whatever the
# class is named". Latin-1 supplement / Cyrillic / CJK / non-BMP (2-, 3- and 4-byte UTF-8), two names differing only in
# case, a Cyrillic homoglyph of "Card" and a name that extends "Card" - their URLs are announced percent-encoded.
NON_ASCII_NAMES = ["\u00dcbersicht", "\u00fcbersicht", "\u041a\u0430\u0440\u0442\u0430", "\u5361\u7247", "Card\u00e9", "C\u0430rd", "\U00010400bc"]
# name pool of the hist part; False = ASCII names only (the widened domain switched off)
NON_ASCII_CLASS_NAMES = True
NON_GET = ["POST", "PUT", "DELETE", "PATCH", "OPTIONS", "HEAD", "TRACE"]

_case_no = [0]
_client = [None]
_files_written = set()


def client():
    if _client[0] is None:
        from django.test import Client

        _client[0] = Client(raise_request_exception=False)
        import logging

        logging.getLogger("django.request").disabled = True  # one log record per 404/405/500 otherwise
    return _client[0]


# ---------------------------------------------------------------------------
# what the harness gives to each class (the ground truth of the oracle)


def code_text(i, kind, variant):
    """The js/css source given to class i (None = attribute not defined on the class)."""
    if variant is None:
        return None
    if variant == "empty":
        return ""
    if variant == "ws":
        return " \n\t  \n"
    if variant == "same":
        return 'console.log("shared-js");' if kind == "js" else ".shared { color: blue; }"
    if kind == "js":
        plain = 'console.log("K%s-js");' % i
        if variant == "plain":
            return plain
        if variant == "padded":
            return "\n\n   %s \t\n" % plain
        if variant == "rich":
            return "/* K%s-js ž ☃ <b>&amp;\"' */\nif (1 < 2 && 3 > 2) { window.x%s = \"100%% <ok>\"; }\n" % (i, i)
        if variant == "file":
            return '\n/* K%s-js from a file */\nconsole.log("K%s-js-file");\n\n' % (i, i)
    else:
        plain = ".k%s { color: red; }" % i
        if variant == "plain":
            return plain
        if variant == "padded":
            return "\n \t%s\n\n  " % plain
        if variant == "rich":
            return '/* K%s-css ž > + ~ */\n.k%s > a[href^="x"]::after { content: "\\201C<&>"; }\n' % (i, i)
        if variant == "file":
            return "\n/* K%s-css from a file */\n.k%s-file { margin: 0 }\n" % (i, i)
    raise ValueError(variant)


def eff_code(classes, i, kind):
    """Effective js/css of class i: its own definition, else the closest base class's (attribute inheritance)."""
    seen = 0
    while i is not None and seen < 10:
        spec = classes[i]
        if spec[kind] is not None:
            return code_text(i, kind, spec[kind])
        i = spec.get("base")
        seen += 1
    return None


def nonblank(s):
    return s is not None and bool(s.strip())


# ---------------------------------------------------------------------------
# per-case context: classes, modules, cache


class Ctx:
    def __init__(self, classes):
        _case_no[0] += 1
        self.no = _case_no[0]
        self.specs = classes
        self.cls = {}  # index -> class
        self.pages = {}
        self.mods = []
        self.hash_to_idx = {}  # library identifier of the class -> index (identifier only, never code)
        self.extra_specs = {}  # churn filler classes: index -> spec
        self.last_status = None
        self.seen_inputs = set()  # input hashes of all variables URLs announced so far in this history

    def modname(self, m):
        name = "vfc19_c%d_m%s" % (self.no, m)
        if name not in sys.modules:
            mod = types.ModuleType(name)
            mod.__file__ = None
            sys.modules[name] = mod
            self.mods.append(name)
        return name

    def spec(self, i):
        return self.specs[i] if isinstance(i, int) and i < len(self.specs) else self.extra_specs[i]

    def eff(self, i, kind):
        if i in self.extra_specs:
            return code_text(i, kind, self.extra_specs[i][kind])
        if isinstance(i, str):
            return None  # page layout classes have no code
        return eff_code(self.specs, i, kind)

    def define(self, i):
        if i in self.cls:
            return self.cls[i]
        from django_components import Component, registry

        spec = self.spec(i)
        base = Component
        if spec.get("base") is not None:
            base = self.define(spec["base"])
        child = ""
        if spec.get("child") is not None:
            child = "{%% component 'k%s' / %%}" % spec["child"]
        tpl = "<div class=\"k%s\">K%s {{ v }}{%% slot 's' default %%}{%% endslot %%}%s</div>" % (i, i, child)

        def gcd(self, v=0):
            return {"v": v}

        ns = {"__module__": self.modname(spec.get("mod", 0)), "template": tpl, "get_context_data": gcd}
        for kind in KINDS:
            v = spec[kind]
            if v == "file":
                rel = "c19files/k%s.%s" % (i, kind)
                if rel not in _files_written:
                    env.write_file(rel, code_text(i, kind, "file"), kind="components")
                    _files_written.add(rel)
                ns[kind + "_file"] = rel
            elif v is not None:
                ns[kind] = code_text(i, kind, v)
        if spec.get("media"):
            ns["Media"] = type("Media", (), {"js": ["vf/k%s.js" % i], "css": ["vf/k%s.css" % i]})
        vr = spec.get("vars", 0)
        if vr:
            idx = i

            def get_js_data(self, v=0):
                return {"j": idx, "v": v} if vr == 2 else {"j": idx}

            def get_css_data(self, v=0):
                return {"c": idx, "v": v} if vr == 2 else {"c": idx}

            ns["get_js_data"] = get_js_data
            ns["get_css_data"] = get_css_data
        cls = type(str(spec["name"]), (base,), ns)
        registry.register("k%s" % i, cls)
        self.cls[i] = cls
        self.hash_to_idx[cls._class_hash] = i
        if spec.get("child") is not None:
            self.define(spec["child"])  # the nested component must be registered before the first render
        return cls

    def page(self, layout):
        if layout in self.pages:
            return self.pages[layout]
        from django_components import Component, registry

        op, cl = LAYOUTS[layout]
        tpl = op + "{% slot 's' default %}{% endslot %}" + cl
        cls = type("VfPage_%s" % layout, (Component,), {"__module__": self.modname("p"), "template": tpl})
        registry.register("page_%s" % layout, cls)
        self.pages[layout] = cls
        self.hash_to_idx[cls._class_hash] = "page_%s" % layout
        return cls

    def close(self):
        for name in self.mods:
            sys.modules.pop(name, None)


LAYOUTS = {
    "headbody": ("<!DOCTYPE html><html><head><title>t</title></head><body><main>", "</main></body></html>"),
    "tags": ("<section>{% component_js_dependencies %}<main>", "</main>{% component_css_dependencies %}</section>"),
    "bare": ("<main>", "</main>"),
}

_NAMED_CACHES = {
    "default": {"BACKEND": "django.core.cache.backends.locmem.LocMemCache"},
    "vfc19": {
        "BACKEND": "django.core.cache.backends.locmem.LocMemCache",
        "LOCATION": "vfc19",
        "TIMEOUT": None,
        "OPTIONS": {"MAX_ENTRIES": 10**9},
    },
}


@contextmanager
def media_cache(which):
    """Select the media cache for one case: the library's own default, or a user-named unbounded one."""
    import django_components.cache as dc
    from django.test import override_settings

    dc.component_media_cache = None  # force the library to (re)build its cache from the settings
    if which == "named":
        cm1, cm2 = override_settings(CACHES=_NAMED_CACHES), env.components_settings(cache="vfc19")
    else:
        cm1 = cm2 = None
    try:
        if cm1:
            cm1.__enter__()
            cm2.__enter__()
        cache = dc.get_component_media_cache()
        cache.clear()
        yield cache
    finally:
        try:
            dc.get_component_media_cache().clear()
        finally:
            dc.component_media_cache = None
            if cm1:
                cm2.__exit__(None, None, None)
                cm1.__exit__(None, None, None)


# ---------------------------------------------------------------------------
# reading what a render announces (as the client-side manager would)

_BLOB_RE = re.compile(r'<script type="application/json" data-djc>(.*?)</script>', re.S)


class _FirstTag(HTMLParser):
    def __init__(self, want):
        super().__init__(convert_charrefs=True)
        self.want = want
        self.attrs = None

    def handle_starttag(self, tag, attrs):
        if tag == self.want and self.attrs is None:
            self.attrs = dict(attrs)

    handle_startendtag = handle_starttag


def announced_urls(html):
    """-> list of (url, kind, how) for every URL in the data-djc JSON blobs. how in loaded|toload."""
    out = []
    for m in _BLOB_RE.finditer(html):
        data = json.loads(m.group(1))

        def dec(lst):
            return [base64.b64decode(s).decode("utf-8") for s in lst]

        for u in dec(data.get("loadedJsUrls", [])):
            out.append((u, "js", "loaded"))
        for u in dec(data.get("loadedCssUrls", [])):
            out.append((u, "css", "loaded"))
        for kind, key, tagname, attr in (("js", "toLoadJsTags", "script", "src"), ("css", "toLoadCssTags", "link", "href")):
            for tag in dec(data.get(key, [])):
                p = _FirstTag(tagname)
                p.feed(tag)
                p.close()
                if p.attrs is None or not p.attrs.get(attr):
                    raise HarnessProblem("to-load tag without <%s %s>: %r" % (tagname, attr, tag))
                out.append((p.attrs[attr], kind, "toload"))
    return out


class HarnessProblem(Exception):
    pass


# ---------------------------------------------------------------------------
# the oracle for one request


def split_path(raw):
    """raw request target -> decoded path (str) or None when the bytes are not UTF-8."""
    p = raw.split("?", 1)[0]
    b = unquote_to_bytes(p)
    try:
        return b.decode("utf-8")
    except UnicodeDecodeError:
        return None


def classify(ctx, raw):
    """-> (idx, kind, input_hash) when the decoded path is a well-formed endpoint URL of a live class, else None."""
    p = split_path(raw)
    if p is None or not p.startswith(PREFIX):
        return None
    rest = p[len(PREFIX):]
    parts = rest.split(".")
    if len(parts) == 2 and parts[0] in ctx.hash_to_idx and parts[1] in KINDS:
        return ctx.hash_to_idx[parts[0]], parts[1], None
    if len(parts) == 3 and parts[0] in ctx.hash_to_idx and parts[2] in KINDS and parts[1] and "/" not in parts[1]:
        return ctx.hash_to_idx[parts[0]], parts[2], parts[1]
    return None


def send(method, raw):
    c = client()
    if method == "GET":
        return c.get(raw)
    return c.generic(method, raw)


def body_of(resp):
    try:
        return resp.content.decode("utf-8")
    except UnicodeDecodeError:
        return resp.content.decode("latin-1")


def ctype_of(resp):
    return (resp.get("Content-Type") or "").split(";")[0].strip().lower()


def foreign_code(ctx, idx, body):
    """Does `body` contain code the harness gave to a class other than idx (or shared code)?"""
    for m in re.finditer(r"K(\d+)-(?:js|css)", body):
        if str(m.group(1)) != str(idx):
            return m.group(0)
    if "shared" in body:
        return "shared"
    return None


def judge(ctx, method, raw, strict, tag):
    """Send one request and compare with the property. strict = the URL was announced by the render that just ran.
    -> list of (message, bucket)."""
    try:
        resp = send(method, raw)
    except Exception as e:  # noqa  (Client(raise_request_exception=False) should never raise)
        return [("%s %s %r raised %r" % (tag, method, raw, e), "request-raised:" + exc_bucket(e))]
    st = ctx.last_status = resp.status_code
    if st >= 500:
        return [("%s %s %r -> %d (server error)" % (tag, method, raw, st), "5xx:%s" % tag.split("/")[-1])]
    wf = classify(ctx, raw)
    if method != "GET":
        if wf is not None:
            if st != 405:
                return [("%s %s %r (well-formed URL) -> %d, want 405" % (tag, method, raw, st), "method-not-405:%s" % method)]
        elif st not in (404, 405):
            return [("%s %s %r -> %d, want 404/405" % (tag, method, raw, st), "bad-request-status:%s" % tag.split("/")[-1])]
        return []
    if wf is None:
        if st != 404:
            snippet = body_of(resp)[:80]
            return [("%s GET %r is not a URL of any live class/kind -> %d %r, want 404" % (tag, raw, st, snippet), "unknown-not-404:%s" % tag.split("/")[-1])]
        return []
    idx, kind, inp = wf
    want = ctx.eff(idx, kind)
    if inp is not None and inp not in ctx.seen_inputs:
        # well-formed, live class, but an input hash that no render of this history announced for any class: unknown.
        # (A hash announced for another class/kind may legitimately be cached here without having been announced: only
        # the first instance of a class in a page is announced, and subclasses inherit get_js_data/get_css_data.)
        if st != 404:
            return [("%s GET %r: input hash %r was never announced in this history -> %d %r, want 404" % (tag, raw, inp, st, body_of(resp)[:80]), "unknown-input-not-404")]
        return []
    if st == 404:
        if strict:
            return [("%s GET %r announced by the render that just finished -> 404 (class %s %s)" % (tag, raw, idx, kind), "announced-404")]
        return []
    if st != 200:
        return [("%s GET %r -> %d, want 200%s" % (tag, raw, st, "" if strict else "/404"), "valid-status")]
    body = body_of(resp)
    fails = []
    if ctype_of(resp) != CT[kind]:
        fails.append(("%s GET %r -> content type %r, want %r" % (tag, raw, resp.get("Content-Type"), CT[kind]), "content-type"))
    if inp is None:
        if not nonblank(want):
            if body.strip():
                fails.append(("%s GET %r: class %s has no %s but got body %r" % (tag, raw, idx, kind, body[:120]), "body-for-codeless-class"))
        elif body.strip() != want.strip():
            fails.append(("%s GET %r: body %r != class %s %s %r" % (tag, raw, body[:160], idx, kind, want.strip()[:160]), "wrong-body"))
    else:
        # the variables script is not the component's js/css: it must not carry any class's code (it is empty in 0.129)
        bad = foreign_code(ctx, None, body)
        if bad:
            fails.append(("%s GET %r (variables script of class %s) contains component code %r" % (tag, raw, idx, bad), "wrong-body"))
    return fails


# ---------------------------------------------------------------------------
# battery of malformed variants of one announced URL


def battery(ctx, url, valid_inputs):
    """-> list of (tag, method, raw). `url` is PREFIX + H[.I].K as announced."""
    rest = url[len(PREFIX):]
    parts = rest.split(".")
    H, K = parts[0], parts[-1]
    I = parts[1] if len(parts) == 3 else None
    mid = (".%s" % I) if I else ""
    other = "css" if K == "js" else "js"
    name, _, digest = H.rpartition("_")
    flip = H[:-1] + ("0" if H[-1] != "0" else "1")
    other_names = [c.__name__ for c in ctx.cls.values() if c.__name__ != name]
    out = []

    def g(tag, raw, method="GET"):
        out.append((tag, method, raw))

    for m in NON_GET:
        g("method", url, m)
    g("method-bad", PREFIX + H + ".xyz", "POST")
    g("method-bad", PREFIX + "nope_000000." + K, "DELETE")
    # kinds
    for k in ("xyz", "", K.upper(), K + "x", K[:-1], K + "~", "map", K + ":zzzzzz", K + "." + K, other):
        g("kind", PREFIX + H + mid + "." + k)
    for inp in sorted(valid_inputs) or ["abcxyz"]:
        g("kind-colon", PREFIX + H + "." + K + ":" + inp)
        g("kind-colon", PREFIX + H + "." + other + ":" + inp)
        g("kind-colon", PREFIX + H + ":" + K + ":" + inp)
        g("input", PREFIX + H + "." + inp + "." + K)  # valid iff that variables script exists for this kind
        g("input", PREFIX + H + "." + inp + "." + inp + "." + K)
    g("kind", PREFIX + H + mid)
    g("kind", PREFIX + H + mid + ":" + K)
    # hashes
    for h in (H[:-1], H + "0", flip, name, H.swapcase(), H.lower(), "", digest, "_" + digest, name + "_", H + "_" + digest):
        g("hash", PREFIX + h + mid + "." + K)
    for on in other_names[:3]:
        g("hash", PREFIX + on + "_" + digest + mid + "." + K)
    # input hashes
    g("input", PREFIX + H + ".zzzzzz." + K)
    g("input", PREFIX + H + ".00000g." + K)
    g("input", PREFIX + H + ".." + K)
    if I:
        g("input", PREFIX + H + "." + K)  # variables URL with the input hash dropped == the class's own URL
        g("input", PREFIX + H + "." + I[:-1] + "." + K)
        g("input", PREFIX + H + "." + I + "0." + K)
    # dots / slashes
    g("dots", PREFIX + H + mid + "." + K + ".")
    g("dots", PREFIX + "." + H + mid + "." + K)
    g("slash", url + "/")
    g("slash", PREFIX + "/" + rest)
    g("slash", PREFIX + H + mid + "/" + K)
    g("slash", PREFIX + "./" + rest)
    g("slash", PREFIX + "x/../" + rest)
    g("slash", "/components/" + rest)
    g("slash", "/components/cachex/" + rest)
    g("slash", "/Components/cache/" + rest)
    # percent escapes
    g("pct", PREFIX + H + mid + "%2E" + K)  # decodes to the valid URL
    g("pct", PREFIX + H + mid + "%252E" + K)
    g("pct", PREFIX + H + mid + "%2F" + K)
    g("pct", url + "%00")
    g("pct", url + "%0A")
    g("pct", url + "%20")
    g("pct", PREFIX + "%20" + rest)
    g("pct", url + "%C5%BE")
    g("pct", url + "%FF")
    g("pct", url + "%2F")
    g("pct", url + "%3Fx=1")
    g("query", url + "?x=1&y=../")  # query string is not part of the path: still the valid URL
    return out


# ---------------------------------------------------------------------------
# rendering


def render_op(ctx, op):
    """Render the chosen classes. -> html (str)."""
    from django.http import HttpResponse
    from django.template import Context, Template
    from django.test import RequestFactory
    from django.utils.safestring import mark_safe

    from django_components import render_dependencies
    from django_components.dependencies import ComponentDependencyMiddleware

    ids = op["set"]
    mode, via, layout, nest, v = op["mode"], op["via"], op["layout"], op.get("nest", False), op.get("v", 0)
    classes = [ctx.cls[i] for i in ids]  # defined by the caller
    if via in ("component", "response"):
        if nest:
            inner = ""
            for cls in reversed(classes[1:]):
                inner = cls.render(kwargs={"v": v}, slots={"s": mark_safe(inner)}, render_dependencies=False)
        else:
            inner = "".join(cls.render(kwargs={"v": v}, render_dependencies=False) for cls in classes[1:])
        if layout == "none":
            root, kwargs = classes[0], {"v": v}
            slot = inner
        else:
            root, kwargs = ctx.page(layout), {}
            slot = classes[0].render(kwargs={"v": v}, slots={"s": mark_safe(inner)}, render_dependencies=False)
        if via == "response":
            resp = root.render_to_response(kwargs=kwargs, slots={"s": mark_safe(slot)}, type=mode)
            return resp.content.decode("utf-8")
        return root.render(kwargs=kwargs, slots={"s": mark_safe(slot)}, type=mode)
    # template based
    # dyn: the same page with every tag written as the dynamic component (the component is then named "dynamic")
    head = (lambda i: "component 'dynamic' is='k%s'" % i) if op.get("dyn") else (lambda i: "component 'k%s'" % i)
    if nest:
        body = ""
        for i in reversed(ids):
            body = "{%% %s v=%d %%}%s{%% endcomponent %%}" % (head(i), v, body)
    else:
        body = "".join("{%% %s v=%d / %%}" % (head(i), v) for i in ids)
    op_, cl_ = LAYOUTS.get(layout, ("", ""))
    raw = Template(op_ + body + cl_).render(Context({}))
    if via == "middleware" and mode == "document":
        mw = ComponentDependencyMiddleware(lambda request: HttpResponse(raw))
        return mw(RequestFactory().get("/")).content.decode("utf-8")
    if op.get("bytes"):
        return render_dependencies(raw.encode("utf-8"), type=mode).decode("utf-8")
    return render_dependencies(raw, type=mode)


class Stats:
    def __init__(self):
        self.urls_checked = 0
        self.vars_urls = 0
        self.non_ascii_urls = 0
        self.foreign_urls = 0
        self.probes = 0
        self.renders = 0
        self.renders_with_urls = 0
        self.refetch_200 = 0
        self.refetch_404 = 0
        self.reqs = 0
        self.evictions = 0
        self.classes_checked = set()
        self.nontrivial = False
        self.labels = set()


def check_render(ctx, html, step, st, fails, probe=None):
    """Strict oracle for everything `html` announces; the battery of malformed variants is sent for the
    announced URL number `probe` (None = no battery). Returns the list of (url, idx, kind)."""
    found = []
    ann = announced_urls(html)
    seen = set()
    valid_inputs = set()
    endpoint = []
    for url, kind, how in ann:
        u = url
        if not u.startswith(PREFIX):
            st.foreign_urls += 1
            continue
        if (u, kind) in seen:
            continue
        seen.add((u, kind))
        endpoint.append((u, kind, how))
        wf = classify(ctx, u)
        if wf and wf[2]:
            valid_inputs.add(wf[2])
            ctx.seen_inputs.add(wf[2])

    def order(e):  # independent of the concrete hash values (they differ between run and replay)
        wf = classify(ctx, e[0])
        return (str(wf[0]), wf[1], wf[2] is not None) if wf else ("~", e[1], False)

    endpoint.sort(key=order)
    for u, kind, how in endpoint:
        wf = classify(ctx, u)
        tag = "step%d/announced-%s" % (step, how)
        if wf is None:
            # announced under the endpoint prefix, yet (decoded as a server decodes a request path) not
            # <hash of a class of this case>[.<input>].<js|css>: it must at least be served - if it is not, the render
            # announced a URL the endpoint does not know. (Served nevertheless: the harness cannot tell whose code to expect.)
            resp = send("GET", u)
            if resp.status_code != 200:
                fails.append(("%s: GET %r announced by the render that just finished -> %d; decoded path %r is not "
                              "<hash>[.<input>].<kind> of any class of this case (hashes %r)"
                              % (tag, u, resp.status_code, split_path(u), sorted(map(str, ctx.hash_to_idx))[:6]), "announced-404"))
                return found
            raise HarnessProblem("cannot attribute announced URL %r to a class of this case" % (u,))
        idx, k2, inp = wf
        if k2 != kind:
            fails.append(("%s: %r announced in the %s list" % (tag, u, kind), "announced-in-wrong-list"))
            continue
        st.urls_checked += 1
        if inp:
            st.vars_urls += 1
        if not split_path(u).isascii():
            st.non_ascii_urls += 1
        st.classes_checked.add(idx)
        found.append((u, idx, kind))
        fails.extend(judge(ctx, "GET", u, True, tag))
        if fails:
            return found
    if probe is not None and endpoint:
        announced = {split_path(e[0]) for e in endpoint}  # decoded, as the server sees them
        for u, kind, how in [endpoint[probe % len(endpoint)]]:
            for tag, method, raw in battery(ctx, u, valid_inputs):
                st.probes += 1
                fails.extend(judge(ctx, method, raw, split_path(raw) in announced, "step%d/%s" % (step, tag)))
                if fails:
                    return found
    return found


def mutate_hash(H, how):
    name, _, digest = H.rpartition("_")
    return {
        "id": H,
        "trunc": H[:-1],
        "ext": H + "0",
        "flip": H[:-1] + ("0" if H[-1] != "0" else "1"),
        "name": name,
        "swapcase": H.swapcase(),
        "lower": H.lower(),
        "empty": "",
        "digest": digest,
    }[how]


def run_hist(case):
    """Run one history. -> (fails, Stats)."""
    st = Stats()
    fails = []
    env.reset()
    ctx = Ctx(case["classes"])
    known = []  # (url) ever announced
    known_inputs = {}  # idx -> {kind: input hash}
    last_checked = {}  # idx -> step of the last render that announced+checked a URL of idx
    last_wipe = -1  # step of the last clear / effective eviction
    try:
        with media_cache(case.get("cache", "default")) as cache:
            for step, op in enumerate(case["ops"]):
                name = op["op"]
                if name == "define":
                    if op["i"] < len(case["classes"]):
                        ctx.define(op["i"])
                elif name == "clear":
                    cache.clear()
                    last_wipe = step
                elif name == "evict":
                    keys = list(getattr(cache, "_cache", {}).keys())
                    if keys:
                        key = keys[op["k"] % len(keys)]
                        with cache._lock:
                            cache._delete(key)
                        st.evictions += 1
                        last_wipe = step
                elif name == "render":
                    op = dict(op, set=[i for i in op["set"] if i < len(case["classes"])] or [0])
                    st.renders += 1
                    for i in op["set"]:
                        ctx.define(i)
                    if op["layout"] in LAYOUTS:
                        ctx.page(op["layout"])
                    try:
                        html = render_op(ctx, op)
                    except Exception as e:  # noqa
                        fails.append(("step %d render %r raised %r" % (step, op, e), "render-raised:" + exc_bucket(e)))
                        break
                    found = check_render(ctx, html, step, st, fails, probe=op.get("probe"))
                    if found:
                        st.renders_with_urls += 1
                    st.labels.add("mode:" + op["mode"])
                    st.labels.add("via:" + op["via"])
                    if op.get("dyn") and op["via"] in ("template", "middleware"):
                        st.labels.add("tags_written_as_dynamic_component")
                    st.labels.add("layout:" + op["layout"])
                    for u, idx, kind in found:
                        if u not in known:
                            known.append(u)
                        wf = classify(ctx, u)
                        if wf and wf[2]:
                            known_inputs.setdefault(idx, {})[kind] = wf[2]
                        if idx in last_checked and last_checked[idx] < last_wipe < step:
                            st.nontrivial = True
                    for u, idx, kind in found:
                        last_checked[idx] = step
                    if fails:
                        break
                elif name == "refetch":
                    for u in known:
                        fails.extend(judge(ctx, "GET", u, False, "step%d/refetch" % step))
                        if ctx.last_status == 200:
                            st.refetch_200 += 1
                        elif ctx.last_status == 404:
                            st.refetch_404 += 1
                    if fails:
                        break
                elif name == "req":
                    i = op["i"] if op["i"] < len(case["classes"]) else 0
                    H = mutate_hash(ctx.define(i)._class_hash, op["hm"])
                    inp = op["inp"]
                    if inp in ("valid_js", "valid_css"):
                        inp = known_inputs.get(i, {}).get(inp[6:], "qqqqqq")
                    kind = op["kind"].replace("VALID", known_inputs.get(i, {}).get("js", "rrrrrr"))
                    raw = op["pre"] + H + ((op["s1"] + inp) if inp is not None else "") + op["s2"] + kind + op["suf"]
                    st.reqs += 1
                    fails.extend(judge(ctx, op["method"], raw, False, "step%d/req" % step))
                    if fails:
                        break
                else:
                    raise ValueError(name)
    finally:
        ctx.close()
        env.reset()
    if len(st.classes_checked) < 2:
        st.nontrivial = False
    return fails, st


# ---------------------------------------------------------------------------
# churn histories


def run_churn(case):
    """Each step defines a fresh class F_s (js+css) and renders [F_{s-lag}, F_s] in ONE render; every announced URL
    is fetched right away. The only evictions are the ones the library's default media cache performs by itself."""
    st = Stats()
    fails = []
    env.reset()
    ctx = Ctx([])
    lag, steps, mode, via = case["lag"], case["steps"], case["mode"], case["via"]
    try:
        with media_cache(case.get("cache", "default")):
            for s in range(steps):
                fid = "f%d" % s
                ctx.extra_specs[fid] = {"name": "Fill%d" % s, "mod": 0, "js": "plain", "css": "padded", "base": None, "child": None}
                ids = ([("f%d" % (s - lag))] if s >= lag else []) + [fid]
                if not case.get("old_first", True):
                    ids.reverse()
                op = {"set": ids, "mode": mode, "via": via, "layout": "headbody", "nest": bool(s % 2), "v": 0}
                st.renders += 1
                for i in ids:
                    ctx.define(i)
                ctx.page("headbody")
                try:
                    html = render_op(ctx, op)
                except Exception as e:  # noqa
                    fails.append(("churn step %d (lag %d): render of classes %r in one %s render raised %r" % (s, lag, ids, mode, e), "render-raised:" + exc_bucket(e)))
                    break
                found = check_render(ctx, html, s, st, fails, probe=None)
                if len(found) != 2 * len(ids) and not fails:
                    # every class has js and css and the page has head+body: a missing announcement makes the step vacuous
                    st.labels.add("churn_missing_announcement")
                if s >= lag:
                    st.nontrivial = True
                if fails:
                    break
    finally:
        ctx.close()
        env.reset()
    return fails, st


# ---------------------------------------------------------------------------
# strategies


def _op_strategy(n, max_steps):
    """Strategy for the op list of a case with n classes (built once per n)."""
    from hypothesis import strategies as st

    idx = st.integers(0, n - 1)
    render = st.fixed_dictionaries(
        {
            "op": st.just("render"),
            "set": st.lists(idx, min_size=1, max_size=3, unique=True),
            "mode": st.sampled_from(["document", "fragment"]),
            "via": st.sampled_from(["component", "template", "template", "response", "middleware"]),
            "layout": st.sampled_from(["headbody", "headbody", "headbody", "tags", "tags", "bare", "none"]),
            "nest": st.booleans(),
            "bytes": st.booleans(),
            "dyn": st.sampled_from([False, False, True]),
            "v": st.integers(0, 1),
            "probe": st.one_of(st.none(), st.integers(0, 9)),
        }
    )
    req = st.fixed_dictionaries(
        {
            "op": st.just("req"),
            "method": st.sampled_from(["GET", "GET", "GET", "GET"] + NON_GET),
            "i": idx,
            "hm": st.sampled_from(["id", "id", "id", "id", "trunc", "ext", "flip", "name", "swapcase", "lower", "empty", "digest"]),
            "inp": st.sampled_from([None, None, None, "zzzzzz", "00000g", "", "js", "valid_js", "valid_css"]),
            "kind": st.sampled_from(["js", "js", "css", "css", "xyz", "", "JS", "Css", "jss", "j", "js:zzzzzz", "js:VALID", "css:VALID", "js.css", "map"]),
            "s1": st.sampled_from([".", ".", ".", "..", "/", ":", "%2E", "", "-"]),
            "s2": st.sampled_from([".", ".", ".", "..", "/", ":", "%2e", "", "-"]),
            "pre": st.sampled_from([PREFIX] * 6 + [PREFIX + "/", PREFIX + "./", PREFIX + "x/../", "/components/", "/components/cache", "/Components/cache/", PREFIX + "%2E%2E/"]),
            "suf": st.sampled_from([""] * 6 + ["/", ".", "%00", "%0A", "%20", "?x=1", "%C5%BE", "%FF", ";a", "%2F"]),
        }
    )
    evict = st.fixed_dictionaries({"op": st.just("evict"), "k": st.integers(0, 7)})
    clear = st.just({"op": "clear"})
    by_kind = {
        "render": render,
        "clear": clear,
        "evict": evict,
        "refetch": st.just({"op": "refetch"}),
        "req": req,
        "define": st.fixed_dictionaries({"op": st.just("define"), "i": idx}),
    }
    # NOTE: st.one_of() de-duplicates repeated branches, so the weights are drawn explicitly
    weighted = ["render"] * 11 + ["clear"] * 4 + ["evict"] * 2 + ["refetch"] * 2 + ["req"] * 4 + ["define"]
    op = st.sampled_from(weighted).flatmap(by_kind.__getitem__)
    return {lo: st.lists(op, min_size=min(lo, max_steps), max_size=max_steps) for lo in (1, 4, 8, 12)}


def hist_strategy(max_steps):
    from hypothesis import strategies as st

    variant = st.sampled_from([None, "empty", "ws", "plain", "plain", "plain", "padded", "padded", "rich", "rich", "same", "file"])
    # 14 ASCII + 7 non-ASCII names: a third of the name draws is non-ASCII
    pool = (NAMES + NON_ASCII_NAMES) if NON_ASCII_CLASS_NAMES else NAMES
    pair = st.tuples(st.sampled_from(pool), st.integers(0, 1))
    ident = {n: st.lists(pair, min_size=n, max_size=n, unique=True) for n in range(1, 6)}
    ncls = st.sampled_from([1, 2, 2, 2, 3, 3, 4, 5])
    lo = st.sampled_from([1, 4, 4, 8, 8, 12])
    ops_for = {n: _op_strategy(n, max_steps) for n in range(1, 6)}
    one_in_4 = st.integers(0, 3)
    one_in_5 = st.integers(0, 4)
    vars_ = st.sampled_from([0, 0, 0, 1, 2])
    cache = st.sampled_from(["default", "default", "named"])

    @st.composite
    def cases(draw):
        n = draw(ncls)
        ids = draw(ident[n])
        classes = []
        for i, (name, mod) in enumerate(ids):
            base = draw(st.integers(0, i - 1)) if i > 0 and draw(one_in_4) == 0 else None
            child = draw(st.integers(i + 1, n - 1)) if i < n - 1 and draw(one_in_4) == 0 else None
            classes.append(
                {
                    "name": name,
                    "mod": mod,
                    "js": draw(variant),
                    "css": draw(variant),
                    "base": base,
                    "child": child,
                    "media": draw(one_in_5) == 0,
                    "vars": draw(vars_),
                }
            )
        return {"part": "hist", "cache": draw(cache), "classes": classes, "ops": draw(ops_for[n][draw(lo)])}

    return cases()


def churn_strategy(max_steps):
    from hypothesis import strategies as st

    return st.fixed_dictionaries(
        {
            "part": st.just("churn"),
            "lag": st.integers(1, 160),
            "steps": st.integers(2, max_steps),
            "mode": st.sampled_from(["document", "fragment"]),
            "via": st.sampled_from(["component", "template"]),
            "old_first": st.booleans(),
            "cache": st.sampled_from(["default", "default", "default", "named"]),
        }
    )


# ---------------------------------------------------------------------------
# framework API


# coverage-guided stage (atheris drives these Hypothesis shards, see vf/run.py): {tier: {shard kind: (shards, executions)}}
CG = {'thorough': {'hist': (6, 2500)}}


def plan(tier, seed, scale=1.0):
    b = BOUNDS[tier]
    specs = []
    nsh = 32
    n = max(1, int(b["histories"] * scale))
    for sh in range(nsh):
        specs.append({"kind": "hist", "n": max(1, n // nsh), "max_steps": b["max_steps"], "seed": derive_seed(seed, "hist", sh)})
    csh = 16
    cn = max(1, int(b["churn_cases"] * scale))
    for sh in range(csh):
        specs.append({"kind": "churn", "n": max(1, cn // csh), "max_steps": b["churn_max_steps"], "seed": derive_seed(seed, "churn", sh)})
    return specs


def _labels(case, st):
    lb = set(st.labels)
    if case["part"] == "hist":
        lb.add("cache:" + case.get("cache", "default"))
        lb.add("classes:%d" % len(case["classes"]))
        if any(c["vars"] for c in case["classes"]):
            lb.add("has_vars_class")
        if any(c["base"] is not None for c in case["classes"]):
            lb.add("has_subclass")
        if any("file" in (c["js"], c["css"]) for c in case["classes"]):
            lb.add("has_file_asset")
        if any(c["js"] in ("ws", "empty") or c["css"] in ("ws", "empty") for c in case["classes"]):
            lb.add("has_blank_asset")
        names = [c["name"] for c in case["classes"]]
        if len(set(names)) < len(names):
            lb.add("same_name_two_modules")
        if any(a != b and b.startswith(a) for a in names for b in names):
            lb.add("prefix_sharing_names")
        if any(not n.isascii() for n in names):
            lb.add("has_non_ascii_class_name")
        if st.non_ascii_urls:
            lb.add("checked_url_of_non_ascii_named_class")
        if any(o["op"] == "clear" for o in case["ops"]):
            lb.add("has_clear")
        if st.evictions:
            lb.add("has_effective_evict")
        if st.vars_urls:
            lb.add("checked_vars_url")
        if st.refetch_404:
            lb.add("refetch_saw_404")
        if st.refetch_200:
            lb.add("refetch_saw_200")
    else:
        lb.add("churn")
        lb.add("churn_cache:" + case.get("cache", "default"))
        lb.add("churn_mode:" + case["mode"])
    if st.nontrivial:
        lb.add("nontrivial")
    if st.urls_checked == 0:
        lb.add("no_url_announced")
    return tuple(sorted(lb))


def _run(case):
    if case["part"] == "hist":
        return run_hist(case)
    if case["part"] == "churn":
        return run_churn(case)
    raise ValueError(case["part"])


def _still_fails(case, bucket):
    try:
        fails, _ = _run(case)
    except Exception:  # noqa  (a candidate the harness cannot run is simply not a smaller witness)
        return None
    for m, b in fails:
        if b == bucket:
            return m
    return None


def minimise(case, message, bucket, budget=150):
    """Deterministic, bounded reduction of a failing case (same failure bucket): drop ops, then simplify classes."""
    import copy

    if case.get("part") != "hist":
        return case, message
    best, best_msg = copy.deepcopy(case), message
    left = [budget]

    def attempt(cand):
        nonlocal best, best_msg
        if left[0] <= 0:
            return False
        left[0] -= 1
        m = _still_fails(cand, bucket)
        if m is not None:
            best, best_msg = cand, m
            return True
        return False

    mstep = re.match(r"step ?(\d+)", best_msg)
    if mstep and int(mstep.group(1)) + 1 < len(best["ops"]):
        attempt(dict(best, ops=best["ops"][: int(mstep.group(1)) + 1]))
    i = len(best["ops"]) - 2
    while i >= 0 and left[0] > 0:
        if i < len(best["ops"]) - 1:
            attempt(dict(best, ops=best["ops"][:i] + best["ops"][i + 1 :]))
        i -= 1
    if best.get("cache") != "default":
        attempt(dict(best, cache="default"))
    for oi, op in enumerate(best["ops"]):
        if op["op"] == "render":
            for key, val in (("set", op["set"][:1]), ("nest", False), ("bytes", False), ("v", 0), ("via", "component"), ("layout", "headbody"), ("mode", "fragment")):
                if best["ops"][oi].get(key) != val:
                    ops = list(best["ops"])
                    ops[oi] = dict(ops[oi], **{key: val})
                    attempt(dict(best, ops=ops))
    for ci in range(len(best["classes"])):
        for key, val in (("child", None), ("base", None), ("media", False), ("vars", 0), ("css", None), ("js", None), ("css", "plain"), ("js", "plain"), ("mod", 0)):
            if best["classes"][ci].get(key) != val:
                cl = [dict(c) for c in best["classes"]]
                cl[ci][key] = val
                if len({(c["name"], c["mod"]) for c in cl}) == len(cl):
                    attempt(dict(best, classes=cl))
    used = {0}
    for op in best["ops"]:
        used.update(op.get("set", []))
        if "i" in op:
            used.add(op["i"])
    for c in best["classes"]:
        used.update(x for x in (c["base"], c["child"]) if x is not None)
    top = max(used) + 1
    if top < len(best["classes"]):
        attempt(dict(best, classes=best["classes"][:top]))
    return best, best_msg


def run_shard(spec):
    col = Collector()
    strat = hist_strategy(spec["max_steps"]) if spec["kind"] == "hist" else churn_strategy(spec["max_steps"])
    ignore = set()
    totals = {"urls": 0}
    counting = [True]

    def check(case):
        try:
            fails, st = _run(case)
        except HarnessProblem as e:
            col.error("harness problem: %s" % (e,))
            return []
        if counting[0]:
            col.case(jhash(case) if st.nontrivial else None, st.nontrivial, sample=case if st.nontrivial and len(json.dumps(case)) < 6000 else None, labels=_labels(case, st))
            col.count("n_urls_checked", st.urls_checked)
            col.count("n_probe_requests", st.probes + st.reqs)
            col.count("n_renders", st.renders)
            col.count("n_renders_announcing", st.renders_with_urls)
            col.count("n_foreign_urls_skipped", st.foreign_urls)
        totals["urls"] += st.urls_checked
        kept = [(m, b) for (m, b) in fails if b not in ignore]
        if len(kept) < len(fails):
            col.count("failures_in_already_reported_bucket", len(fails) - len(kept))
        return kept

    # collect-then-shrink: after a bucket has been reported (and reduced by `minimise`, which is deterministic and
    # bounded, unlike an open-ended Hypothesis shrink), search on for failures of other buckets.
    seed = spec["seed"]
    for rnd in range(3):
        before = len(col.failures)
        hyp_search(strat, check, col, max_examples=spec["n"], seed=derive_seed(seed, "round", rnd), shrink=False, attribute=attribute)
        new = col.failures[before:]
        if not new:
            break
        for f in new:
            ignore.add(f["bucket"])
            small, msg = minimise(f["case"], f["message"], f["bucket"])
            f["case"], f["message"] = small, msg
    if totals["urls"] == 0 and not col.failures and spec["n"] >= 5:
        col.error("shard %r fetched no announced URL at all: generator/extractor degenerate" % (spec,))
    return col


def replay(case):
    return _run(case)[0]


def attribute(case, message, bucket):
    active = known_active(PROP)
    if not active:
        return None
    if "C19-D1" in active and bucket.startswith("5xx:") and re.search(r"\.(js|css)(:|%3A)[^/.]+' -> 5\d\d", message):
        return "C19-D1"
    if "C19-D2" in active and case.get("cache", "default") == "default" and case.get("part") == "churn":
        if bucket == "announced-404" or (bucket.startswith("render-raised:RuntimeError") and "Could not find" in message):
            return "C19-D2"
    return None
