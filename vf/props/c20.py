"""C20 — autodiscovery selects exactly the public modules, with right import paths.

A generated scratch project (BASE_DIR = <case>/proj, optional second import root <case>/ext for "third-party" apps) holds
trees under 1-2 component dirs (given through COMPONENTS.dirs, legacy STATICFILES_DIRS incl. the (prefix, path) tuple form,
or the BASE_DIR/components default; each configured dir in a normalised or a non-normalised absolute spelling; optionally a
populated folder that is not configured at all) and under the app-level dirs of 0-2 generated Django apps registered with
override_settings(INSTALLED_APPS=...).  get_component_files(suffix) is compared, for several suffixes, with an independent
os.walk model (public-path rule + dotted-path rule); returned `.py` dot paths are resolved with importlib
(find_spec -> origin must be that file); autodiscover() must return the same module list and execute exactly those files
(every generated .py appends (__name__, __file__) to a log when executed).
"""
import builtins
import importlib
import importlib.util
import os
import posixpath
import sys
from collections import Counter

from vf.core import Collector, derive_seed, exc_bucket, guarded, hyp_search, jhash
from vf.gen import trees

PROP = "C20"
LEVEL = "exploration"
RULE = (
    "Case = scratch project tree + settings variant. Component dirs: 1-2 disjoint dirs below BASE_DIR (also below an "
    "underscore-named parent, `_lib/ui`), configured via COMPONENTS.dirs (str / Path / (prefix, path) tuple), via legacy "
    "STATICFILES_DIRS (plain and tuple form) with COMPONENTS.dirs unset, or not at all (default BASE_DIR/components); "
    "optionally one configured dir that does not exist; each configured dir spelled normalised or as another absolute "
    "spelling of the same directory (a `..` segment through a sibling dir / through itself / through BASE_DIR, a `.` segment, "
    "a trailing or doubled slash); optionally one more populated component-like folder that is NOT configured (often "
    "BASE_DIR/components, the default name) whose files must not be returned; BASE_DIR as str or Path. Apps: 0-2 generated packages (flat and "
    "nested dotted names, inside the project or in a second sys.path root outside BASE_DIR) with default or custom "
    "COMPONENTS.app_dirs (one or two entries, one nested). Files: paths of 0-3 directory names + stem + extension from "
    "pools with `_`/`__`/`.`-prefixed names at every level, __init__.py, __init__.js, __main__.py, __pycache__, multi-dot "
    "names (a.b.py, pkg.v2/), upper-case .PY, .pyc/.pyi/.py.bak, extension-less files, non-ASCII names, sibling "
    "`card/` + `card.py`; plus files outside every component dir (project root, parent packages, app modules). Suffixes "
    "queried per tree: .py, .js, .html, None. Non-trivial = some component/app dir holds a `_`- or `.`-prefixed part at "
    "depth >= 2 (relative to that dir) AND a public __init__.py; distinct by the whole case."
)
ASSUMPTIONS = [
    "component dirs are disjoint from each other and from app dirs, and lie below BASE_DIR (documented assumption of the loader)",
    "no directory whose name ends with a queried suffix; for suffix=None the glob also yields directories - entries that "
    "are directories are ignored (counted as `none_suffix_dir_entries`), only files are compared",
    "no names with two consecutive dots or a trailing dot (dropped by the loader as 'not a module', indistinguishable from a hidden part)",
    "no hidden or dotted directory between BASE_DIR and a component dir; no symlinks; BASE_DIR itself is spelled normalised "
    "(only the configured component dirs get non-normalised spellings)",
    "returned file paths are compared after os.path.normpath: a result naming the right file through another spelling is the right file",
    "importability (find_spec) and autodiscover() are asserted only when every path part is dot-free and no sibling "
    "`name/` + `name.py` pair makes the dotted name ambiguous; otherwise only membership and the dot-path formula are asserted",
    "order of the returned list is not asserted (get_component_dirs returns a set)",
]
BOUNDS = {"quick": {"cases": 9600, "max_files": 18, "shards": 32}, "thorough": {"cases": 200000, "max_files": 28, "shards": 96}}

SUFFIXES = [".py", ".js", ".html", None]
COMP_DIRS = ["comps", "components", "src/widgets", "_lib/ui", "src/other_comps", "comps_extra", "src/widgets2", "ui [v2]/kit", "comps/inner_lib"]  # incl. siblings whose path has another dir as a string prefix
APPS = [["vfapp_a", "proj"], ["vfapp_b", "ext"], ["vfpkg.app_c", "proj"], ["vfext.sub.app_d", "ext"], ["vfapp_e", "proj"]]
APP_DIRS = [None, None, None, ["components"], ["djc"], ["components", "widgets/ui"]]
DIRNAMES = ["pkg", "pkg", "sub", "sub", "widgets", "card", "card", "a1", "_private", "_private", "__pycache__", "_", ".hidden", ".git", "pkg.v2", "tests", "my-dir", "ünï"]
STEMS = ["mod", "mod", "comp", "x", "card", "views", "_priv", "_priv", "__init__", "__init__", "__init__", "__main__", "_", "__x__", ".hid", "a.b", "my-comp", "Card", "mod_", "x_y", "café"]
EXTS = [".py", ".py", ".py", ".py", ".js", ".css", ".html", ".PY", ".pyc", ".pyi", ".py.bak", ".txt", "", ".min.js"]
# absolute spellings of one and the same directory (see _spell); "plain" = normalised
SPELLINGS = ["plain", "plain", "plain", "plain", "dotdot_sibling", "dotdot_sibling", "dotdot_self", "dotdot_base", "dot_segment", "trailing_slash", "double_slash"]
SIBLING = "cfg"  # existing, empty directory below BASE_DIR that `dotdot_sibling` walks through (settings-module arithmetic: BASE_DIR/"cfg"/".."/"comps")
# populated folder below BASE_DIR that is not configured anywhere: the default name (most likely to be picked up by mistake) or any other
UNLISTED = [None] * 4 + ["components"] * 6 + COMP_DIRS
OUTSIDE = ["proj/manage.py", "proj/src/__init__.py", "proj/src/x.py", "proj/_lib/__init__.py", "proj/comps_old/x.py", "proj/src/widgets_x/y.py", "ext/setup.py", "proj/x.js"]
TOP_NAMES = sorted({d.split("/")[0] for d in COMP_DIRS} | {a.split(".")[0] for a, _ in APPS})

MARKER = "import builtins\nbuiltins.__dict__.setdefault('_vf_c20_log', []).append((__name__, __file__))\n"


# ---------------------------------------------------------------------------
# model


def _public(parts):
    """The property's rule on a path relative to the component directory."""
    *dirs, name = parts
    if any(p.startswith("_") for p in dirs):
        return False
    if name.startswith("_") and name != "__init__.py":
        return False
    if any(p.startswith(".") for p in parts):
        return False
    return True


def _strip_suffix(name):
    i = name.rfind(".")
    return name[:i] if 0 < i < len(name) - 1 else name


def _dot_path(full, mod_root, prefix):
    parts = posixpath.relpath(full, mod_root).split("/")
    parts[-1] = _strip_suffix(parts[-1])
    if prefix:
        parts = [prefix] + parts
    dotted = ".".join(parts)
    return dotted[: -len(".__init__")] if dotted.endswith(".__init__") else dotted


def model_entries(sources, suffix):
    """sources: [(dir, module_root, prefix)] -> Counter of (dot_path, abs file)."""
    out = Counter()
    for d, mod_root, prefix in sources:
        for rel in trees.walk_files(d):
            parts = rel.split("/")
            if not _public(parts):
                continue
            if suffix and not parts[-1].endswith(suffix):
                continue
            full = posixpath.join(d, rel)
            out[(_dot_path(full, mod_root, prefix), full)] = 1  # "each once", also when configured directories are nested in each other
    return out


def _importable(full, import_root):
    """All parts dot-free, and no sibling `name/` + `name.py[c]` ambiguity on the way."""
    parts = posixpath.relpath(full, import_root).split("/")
    stems = parts[:-1] + [_strip_suffix(parts[-1])]
    if any("." in s or not s for s in stems):
        return False
    cur = import_root
    for i, s in enumerate(stems):
        has_dir = os.path.isdir(posixpath.join(cur, s))
        # a (source-less) `name.pyc` beside `name/` is picked up by Python's FileFinder just like `name.py`
        has_mod = os.path.isfile(posixpath.join(cur, s + ".py")) or os.path.isfile(posixpath.join(cur, s + ".pyc"))
        if has_dir and has_mod:
            return False
        if i < len(stems) - 1 and not has_dir:
            return False
        cur = posixpath.join(cur, s)
    return True


# ---------------------------------------------------------------------------
# one case


def _purge_modules(case_root):
    for name in list(sys.modules):
        if name.split(".")[0] in TOP_NAMES:
            del sys.modules[name]
    for k in list(sys.path_importer_cache):
        if k.startswith(case_root):
            del sys.path_importer_cache[k]
    importlib.invalidate_caches()


def _form(path, form):
    from pathlib import Path

    if form == "path":
        return Path(path)
    if form == "tuple":
        return ("pre", path)
    if form == "tuple_path":
        return ("pre", Path(path))
    return path


def _spell(proj, d, how):
    """An absolute spelling of the directory proj/d; all of them name the same directory (no symlinks in the tree)."""
    if how == "dotdot_sibling":
        return "%s/%s/../%s" % (proj, SIBLING, d)
    if how == "dotdot_self":
        return "%s/%s/../%s" % (proj, d, d.split("/")[-1])
    if how == "dotdot_base":
        return "%s/../%s/%s" % (proj, posixpath.basename(proj), d)
    if how == "dot_segment":
        return "%s/./%s" % (proj, d)
    if how == "trailing_slash":
        return "%s/%s/" % (proj, d)
    if how == "double_slash":
        return "%s//%s" % (proj, d)
    return posixpath.join(proj, d)


def run_case(case, col=None):
    from pathlib import Path

    from django.conf import settings
    from django.test import override_settings

    import django_components
    from django_components.autodiscovery import autodiscover
    from django_components.util.loader import get_component_files

    fails = []
    old_path, old_dwb = list(sys.path), sys.dont_write_bytecode
    with trees.scratch_root("c20") as root:
        proj, ext = posixpath.join(root, "proj"), posixpath.join(root, "ext")
        os.makedirs(proj)
        os.makedirs(ext)
        # app packages (no marker: they are imported by Django's app registry, not by autodiscover)
        app_infos = []
        for name, where in case["apps"]:
            base = proj if where == "proj" else ext
            cur = base
            for seg in name.split("."):
                cur = posixpath.join(cur, seg)
                os.makedirs(cur, exist_ok=True)
                init = posixpath.join(cur, "__init__.py")
                if not os.path.exists(init):
                    open(init, "w").close()
            app_infos.append((name, cur))
        trees.write_tree(root, case["files"], content=MARKER)

        comp_dirs = [posixpath.join(proj, d) for d in case["compdirs"]]
        spells = case.get("dir_spell") or ["plain"] * len(comp_dirs)
        os.makedirs(posixpath.join(proj, SIBLING), exist_ok=True)
        configured = [_form(_spell(proj, d, sp), f) for d, sp, f in zip(case["compdirs"], spells, case["dir_forms"])]
        for d, c in zip(comp_dirs, configured):  # harness sanity: every spelling names the very directory the model walks
            c = c[1] if isinstance(c, tuple) else c
            if os.path.normpath(str(c)) != d:
                raise AssertionError("spelling %r does not denote %r" % (c, d))
        if case.get("missing_dir"):
            configured.append(posixpath.join(proj, "nonexistent_dir"))
        app_dirs = case.get("app_dirs") or ["components"]
        djc_path = os.path.dirname(os.path.abspath(django_components.__file__))

        # ---- model sources
        # which of the generated (populated) dirs are *configured*: COMPONENTS.dirs wins over STATICFILES_DIRS whenever it is
        # set, and an explicit empty list means "no dirs" (get_component_dirs: "so user can explicitly specify NO dirs")
        model_dirs = {"dirs_empty": [], "dirs_and_static": comp_dirs[:1]}.get(case["source"], comp_dirs)
        sources = [(d, proj, None) for d in model_dirs if os.path.isdir(d)]
        for name, path in [("django_components", djc_path)] + app_infos:
            for ad in app_dirs:
                d = posixpath.join(path, ad)
                if os.path.exists(d):
                    sources.append((d, path, name))

        cur = dict(getattr(settings, "COMPONENTS", {}) or {})
        cur["app_dirs"] = case.get("app_dirs")
        over = {"BASE_DIR": Path(proj) if case.get("base_dir_form") == "path" else proj, "STATICFILES_DIRS": []}
        if case["source"] == "dirs":
            cur["dirs"] = configured
        elif case["source"] == "static":
            cur["dirs"] = None
            over["STATICFILES_DIRS"] = configured
        elif case["source"] == "dirs_empty":
            cur["dirs"] = [] if case.get("base_dir_form") == "path" else ()
            over["STATICFILES_DIRS"] = configured
        elif case["source"] == "dirs_and_static":
            cur["dirs"] = configured[:1]
            over["STATICFILES_DIRS"] = configured[1:]
        else:  # default: BASE_DIR / "components"
            cur["dirs"] = None
        over["COMPONENTS"] = cur
        over["INSTALLED_APPS"] = ("django_components",) + tuple(n for n, _ in case["apps"])

        sys.path[0:0] = [proj, ext]
        sys.dont_write_bytecode = True
        builtins._vf_c20_log = []
        n_dir_entries = n_import_checked = 0
        auto = "not_run"
        n_expected = 0
        try:
            with override_settings(**over):
                # ---- A: get_component_files(suffix) == model
                expected_py = None
                for suffix in SUFFIXES:
                    want = model_entries(sources, suffix)
                    if suffix == ".py":
                        expected_py = want
                    n_expected += len(want)
                    res, e = guarded(get_component_files, suffix)
                    if e is not None:
                        fails.append(("get_component_files(%r) raised %r" % (suffix, e), "gcf-exc:" + exc_bucket(e)))
                        continue
                    got = Counter()
                    for ent in res:
                        fp = os.path.normpath(str(ent.filepath))
                        if suffix is None and os.path.isdir(fp):
                            n_dir_entries += 1
                            continue
                        got[(ent.dot_path, fp)] += 1
                    if got == want:
                        continue
                    got_files, want_files = Counter(f for _, f in got.elements()), Counter(f for _, f in want.elements())
                    for f in sorted(set(got_files) - set(want_files)):
                        fails.append(("get_component_files(%r) returns %s, which the rule excludes (%s)" % (suffix, _short(f, root), _why(f, sources, suffix)), "gcf-extra-file"))
                    for f in sorted(set(want_files) - set(got_files)):
                        fails.append(("get_component_files(%r) omits public file %s" % (suffix, _short(f, root)), "gcf-missing-file"))
                    for f, n in sorted(got_files.items()):
                        if f in want_files and n != want_files[f]:
                            fails.append(("get_component_files(%r) returns %s %d times (want %d)" % (suffix, _short(f, root), n, want_files[f]), "gcf-duplicate"))
                    wd = {f: d for d, f in want}
                    for d, f in sorted(got):
                        if f in wd and wd[f] != d and got_files[f] == want_files[f] == 1:
                            fails.append(("get_component_files(%r): %s has dot_path %r, expected %r" % (suffix, _short(f, root), d, wd[f]), "gcf-dot-path"))

                # ---- B: returned .py dot paths resolve, via Python's import system, to that very file
                if expected_py is not None and not fails:
                    all_importable = True
                    for (dotted, full), _n in sorted(expected_py.items()):
                        if not full.startswith(root + "/"):
                            continue  # django_components' own modules
                        import_root = proj if full.startswith(proj + "/") else ext
                        if not _importable(full, import_root):
                            all_importable = False
                            continue
                        n_import_checked += 1
                        spec, e = guarded(importlib.util.find_spec, dotted)
                        if e is not None:
                            fails.append(("find_spec(%r) for %s raised %r" % (dotted, _short(full, root), e), "import-exc:" + type(e).__name__))
                        elif spec is None or spec.origin is None or os.path.realpath(spec.origin) != os.path.realpath(full):
                            fails.append(("dot path %r resolves to %r, not to %s" % (dotted, _short(getattr(spec, "origin", None), root), _short(full, root)), "import-wrong-file"))
                    _purge_modules(root)
                    builtins._vf_c20_log = []

                    # ---- C: autodiscover() imports exactly those modules
                    if all_importable and not fails:
                        auto = "run"
                        mods, e = guarded(autodiscover)
                        log = list(builtins._vf_c20_log)
                        if e is not None:
                            fails.append(("autodiscover() raised %r" % (e,), "auto-exc:" + exc_bucket(e)))
                        else:
                            want_mods = Counter(d for (d, _f), n in expected_py.items() for _ in range(n))
                            if Counter(mods) != want_mods:
                                fails.append(("autodiscover() returned %r, expected %r" % (sorted(mods), sorted(want_mods.elements())), "auto-result"))
                            want_exec = {os.path.realpath(f): d for (d, f) in expected_py if f.startswith(root + "/")}
                            ran = Counter(os.path.realpath(f) for _n, f in log)
                            ancestors = set()
                            for f in want_exec:
                                p = os.path.dirname(f)
                                while p.startswith(root) and p not in (proj, ext, root):
                                    ancestors.add(os.path.join(p, "__init__.py"))
                                    p = os.path.dirname(p)
                            for f in sorted(set(want_exec) - set(ran)):
                                fails.append(("autodiscover() did not execute %s" % _short(f, root), "auto-not-imported"))
                            for f in sorted(set(ran) - set(want_exec) - ancestors):
                                fails.append(("autodiscover() executed %s, which the rule excludes" % _short(f, root), "auto-extra-import"))
                            for f, n in sorted(ran.items()):
                                if n > 1:
                                    fails.append(("autodiscover() executed %s %d times" % (_short(f, root), n), "auto-twice"))
                            for n, f in log:
                                d = want_exec.get(os.path.realpath(f))
                                if d is not None and n != d:
                                    fails.append(("%s was imported as %r, expected %r" % (_short(f, root), n, d), "auto-module-name"))
                    elif not all_importable:
                        auto = "skipped_unimportable_names"
        finally:
            sys.path[:] = old_path
            sys.dont_write_bytecode = old_dwb
            _purge_modules(root)
            builtins._vf_c20_log = []

        if col is not None:
            labels = ["source_" + case["source"], "apps_%d" % len(case["apps"]), "autodiscover_" + auto]
            if any(w == "ext" for _, w in case["apps"]):
                labels.append("app_outside_base_dir")
            if any("." in n for n, _ in case["apps"]):
                labels.append("app_nested_name")
            if case.get("app_dirs"):
                labels.append("custom_app_dirs")
            if case.get("missing_dir"):
                labels.append("configured_missing_dir")
            if any(f in ("tuple", "tuple_path") for f in case["dir_forms"]):
                labels.append("tuple_form")
            if case.get("base_dir_form") == "path":
                labels.append("base_dir_is_path")
            in_effect = {"default": [], "dirs_empty": [], "dirs_and_static": spells[:1]}.get(case["source"], spells)
            if any(sp.startswith("dotdot") for sp in in_effect):
                labels.append("effective_dir_spelled_with_dotdot")
            if any(sp in ("dot_segment", "trailing_slash", "double_slash") for sp in in_effect):
                labels.append("effective_dir_spelled_with_dot_or_extra_slash")
            unlisted_pop = [u for u in case.get("unlisted") or [] if _has_public_file(posixpath.join(proj, u))]
            if unlisted_pop:
                labels.append("unlisted_populated_dir")
                if "components" in unlisted_pop and case["source"] == "static":
                    labels.append("unlisted_default_named_dir_with_legacy_static")
            deep_private = hidden = pub_init = multidot = False
            for d, _m, _p in sources:
                if not d.startswith(root + "/"):
                    continue
                for rel in trees.walk_files(d):
                    parts = rel.split("/")
                    for i, p in enumerate(parts):
                        if i >= 1 and (p.startswith("_") and not (i == len(parts) - 1 and p == "__init__.py") or p.startswith(".")):
                            deep_private = True
                        if p.startswith("."):
                            hidden = True
                    if parts[-1] == "__init__.py" and _public(parts):
                        pub_init = True
                    if _public(parts) and any("." in s for s in parts[:-1] + [_strip_suffix(parts[-1])]):
                        multidot = True
            nt = deep_private and pub_init
            for flag, lb in ((deep_private, "private_or_hidden_at_depth2+"), (hidden, "hidden_part"), (pub_init, "public___init__"), (multidot, "public_multidot_name")):
                if flag:
                    labels.append(lb)
            col.count("entries_expected", n_expected)
            col.count("none_suffix_dir_entries", n_dir_entries)
            col.count("importability_checked", n_import_checked)
            col.case(jhash(case), nt, sample=_sample(case) if nt else None, labels=tuple(labels))
    seen, out = set(), []
    for m, b in fails:
        if b not in seen:
            seen.add(b)
            out.append((m, b))
    return out


def _has_public_file(d):
    return any(_public(rel.split("/")) for rel in trees.walk_files(d))


def _why(f, sources, suffix):
    for d, _m, _p in sources:
        if f.startswith(d + "/"):
            parts = posixpath.relpath(f, d).split("/")
            if not _public(parts):
                return "relative path %r has a `_`/`.`-prefixed part" % "/".join(parts)
            if suffix and not parts[-1].endswith(suffix):
                return "name does not end with %r" % suffix
            return "duplicate?"
    return "not below any component dir"


def _short(p, root):
    return p.replace(root, "{CASE}") if isinstance(p, str) else p


def _sample(case):
    s = dict(case)
    s["files"] = case["files"][:14]
    return s


# ---------------------------------------------------------------------------
# generator


def case_strategy(max_files):
    from hypothesis import strategies as st

    # `__init__.pyc` is never generated: a source-less package init with arbitrary content is a broken package for
    # Python itself, which has nothing to do with the loader.
    name = st.builds(lambda s, e: s + e, st.sampled_from(STEMS), st.sampled_from(EXTS)).filter(
        lambda n: ".." not in n and not n.endswith(".") and n not in ("", "__init__.pyc")
    )
    name = st.one_of(name, name, name, st.just("__init__.py"))
    relpath = st.builds(lambda ds, n: "/".join(ds + [n]), st.lists(st.sampled_from(DIRNAMES), max_size=3), name)

    @st.composite
    def build(draw):
        source = draw(st.sampled_from(["dirs", "dirs", "dirs", "static", "static", "default", "dirs_empty", "dirs_and_static"]))
        if source == "default":
            compdirs = ["components"]
        else:
            compdirs = draw(st.lists(st.sampled_from(COMP_DIRS), min_size=1, max_size=2, unique=True))
        forms = ["str", "path", "tuple", "tuple_path"] if source != "default" else ["str"]
        dir_forms = [draw(st.sampled_from(forms)) for _ in compdirs]
        dir_spell = [draw(st.sampled_from(SPELLINGS if source != "default" else ["plain"])) for _ in compdirs]
        extra = draw(st.sampled_from(UNLISTED))
        unlisted = [extra] if extra and extra not in compdirs else []
        apps = draw(st.lists(st.sampled_from(APPS), max_size=2, unique_by=lambda a: a[0]))
        app_dirs = draw(st.sampled_from(APP_DIRS))
        bases = ["proj/" + d for d in compdirs] * 2 + ["proj/" + d for d in unlisted] * 2
        for aname, where in apps:
            for ad in app_dirs or ["components"]:
                bases.append("%s/%s/%s" % (where, aname.replace(".", "/"), ad))
        inside = st.builds(lambda b, r: b + "/" + r, st.sampled_from(bases), relpath)
        out_pool = list(OUTSIDE)
        for aname, where in apps:
            ap = "%s/%s" % (where, aname.replace(".", "/"))
            out_pool += [ap + "/views.py", ap + "/other/x.py", ap + "/components_x/y.py"]
        files = draw(st.lists(inside, min_size=2, max_size=max_files - 3, unique=True))
        files += [f for f in draw(st.lists(st.sampled_from(out_pool), max_size=3, unique=True)) if f not in files]
        return {
            "source": source,
            "compdirs": compdirs,
            "dir_forms": dir_forms,
            "dir_spell": dir_spell,
            "unlisted": unlisted,
            "missing_dir": draw(st.sampled_from([False, False, False, True])) and source != "default",
            "base_dir_form": draw(st.sampled_from(["str", "path"])),
            "apps": [list(a) for a in apps],
            "app_dirs": app_dirs,
            "files": files,
        }

    return build()


# ---------------------------------------------------------------------------


# coverage-guided stage (atheris drives these Hypothesis shards, see vf/run.py): {tier: {shard kind: (shards, executions)}}
CG = {'thorough': {'hyp': (6, 8000)}}


def plan(tier, seed, scale=1.0):
    b = BOUNDS[tier]
    n = max(b["shards"], int(b["cases"] * scale))
    return [{"kind": "hyp", "n": n // b["shards"], "max_files": b["max_files"], "seed": derive_seed(seed, "c20", sh)} for sh in range(b["shards"])]


def run_shard(spec):
    col = Collector()
    for top in TOP_NAMES:  # generated top-level package names must not shadow / be shadowed by real modules
        if top in sys.modules or importlib.util.find_spec(top) is not None:
            col.error("top-level name %r of the generator collides with an importable module" % top)
            return col

    def check(case):
        return run_case(case, col)

    return hyp_search(case_strategy(spec["max_files"]), check, col, max_examples=spec["n"], seed=spec["seed"], attribute=attribute)


def replay(case):
    return run_case(case, None)


def attribute(case, message, bucket):
    return None  # no known findings are pinned for C20
