"""C12 - parsing any tag or template terminates with success or TemplateSyntaxError, in quadratic time; round trip.

Parts (every case is a JSON dict with a "part" key; `replay(case)` re-runs it through the same oracle):

  str     one string `s` (a) handed to `parse_tag` directly (then every attribute is serialised and compiled) and
          (b) placed inside `{% component "probe" <s> %}`, `{% slot <s> %}`, `{% fill <s> %}`, `{% provide <s> %}`,
          `{% html_attrs <s> %}` and compiled with `Template(src)` (then the params of every djc node are compiled).
          Oracle: outcome in {success, TemplateSyntaxError}; any other exception type (RecursionError included) or more
          than budget(n) = 4000 + 40*n^2 deterministic steps is a violation.  Strings come from (1) exhaustive
          enumeration of all token sequences over the 25-token syntax alphabet, (2) Hypothesis: random token strings
          over an extended alphabet and token-level mutations of grammar-valid tags.
  src     whole template sources assembled from tag/text/delimiter fragments; same oracle on `Template(src)`; a non-TSE
          exception that stock Django's own `compile_nodelist` raises as well is not blamed on django-components.
  growth  adversarial families built at sizes r, 2r, 4r: steps(4r) <= 20*steps(r) (deterministic), and, for the
          regex-bound parts, CPU time t(4r)/t(r) <= 40 judged only when t(4r) >= 0.5 s (else inconclusive).
  rt      grammar-valid tags: parse, serialise, re-parse; the written structure must be what parse_tag returns, the
          re-parsed attributes must equal the first ones (structure, serialisation, values resolved against a context).

Deterministic steps = executions of `while`/`for` header lines inside tag_parser.py, template_parser.py, expression.py,
template_tag.py and tag_formatter.py, counted with sys.monitoring LINE events (all other lines are switched off with
sys.monitoring.DISABLE after their first hit, so the overhead stays ~2.5x).  Any non-termination of the hand-written
scanners means unboundedly many loop iterations (or unbounded recursion, which surfaces as RecursionError).
"""
import ast
import glob
import importlib
import json
import os
import zlib
import re
import sys
import time
import types

from vf.core import Collector, derive_seed, exc_bucket, hyp_search, known_active

PROP = "C12"
LEVEL = "exploration"
RULE = (
    "str: every token sequence over the 25-token syntax alphabet (' \" [ ] { } : , | = ... * ** _( ) \\ space newline "
    "%} {{ }} {% / a 1) up to 4 tokens (thorough: 5, plus 6 over a reduced 12-token alphabet), each distinct string once "
    "(sequences that are not the greedy tokenisation of their string are skipped), is passed to parse_tag (+serialize"
    "+compile of every attribute) and compiled inside the component tag (all strings up to 4 tokens) and inside slot/fill/"
    "provide/html_attrs (all strings up to 3 tokens - thorough: 4 - and one rotating tag for 4-token strings; for 5 and 6 "
    "tokens every third string goes through one of the five tags in rotation); Hypothesis adds random token "
    "strings of 5-40 tokens over an extended alphabet and 1-4 token-level mutations of grammar-valid tags (all five "
    "tags), plus whole template sources built from tag/text/delimiter fragments.  growth: ~45 adversarial families x "
    "{r,2r,4r}.  rt: tags generated from a grammar of the documented syntax (literals, variables, filters with "
    "arguments, translation strings, nested-template strings, lists, dicts, spreads, key=value, flags) in random layouts. "
    "Non-trivial = the string contains at least one quote or bracket/brace and was handed to the value scanner "
    "(parse_tag called on it; for rt: the tag contains a container, spread, filter argument, translation or nested "
    "template); distinct by string."
)
ASSUMPTIONS = [
    "every fourth source (by CRC of the text) that the default engine rejects with TemplateSyntaxError is compiled a second time under an engine with debug=True (same outcome demanded)",
    "only parsing/compilation is judged (Template(src), parse_tag, TagAttr.serialize, TagValueStruct.compile); nothing is rendered "
    "except TagValueStruct.resolve of grammar-valid round-trip tags",
    "block nesting depth of templates is not scaled: Django's recursive-descent parser has the same RecursionError limit for stock tags",
    "CPU time is judged only in the growth part and only when t(4r) >= 0.5 s (otherwise recorded as inconclusive)",
    "steps count loop-header executions; comprehensions/generator expressions (bounded by already-built lists) are not counted",
    "round trip is asserted only for tags of the documented grammar; top-level spread of a literal (`...[1]`), spread followed by a "
    "filter at top level, whitespace between `*`/`**` and a literal container (C02-D1), strings ending in a backslash and newlines "
    "inside nested-template strings are fuzzed for crashes but not part of the round-trip domain",
    "recursion limit is the harness's (>= 3000); with Python's default 1000 the RecursionError of finding D3 needs only ~500 levels",
]
BOUNDS = {
    "quick": {"enum_len": 4, "all_tags_len": 3, "fuzz_direct": 48000, "fuzz_tags": 12000, "src": 4000, "rt": 6000, "growth_scale": 1},
    "thorough": {
        "enum_len": 5,
        "all_tags_len": 4,
        "enum_reduced_len": 6,
        "fuzz_direct": 400000,
        "fuzz_tags": 120000,
        "src": 50000,
        "rt": 60000,
        "growth_scale": 2,
        "atheris_runs": 300000,
    },
}
WATCHDOG_S = {"quick": 1500, "thorough": 4 * 3600}

ALPHA = ["'", '"', "[", "]", "{", "}", ":", ",", "|", "=", "...", "*", "**", "_(", ")", "\\", " ", "\n", "%}", "{{", "}}", "{%", "/", "a", "1"]
REDUCED = ['"', "[", "]", "{", "}", ":", ",", "|", "*", "=", " ", "a"]
EXT_ALPHA = ALPHA + ["\t", "\r", "\f", "_('", '_("', "%", "#", "{#", "#}", ".", "-", "only", "default", "required", "k=", "a.b", "|upper", ':"x"', "é", " ", "\x00", "'{{ a }}'", '"{% if a %}"', "[1, 2]", '{"k": 1}']
TAGS = {
    "component": ('{% component "probe" ', " %}{% endcomponent %}"),
    "slot": ("{% slot ", " %}{% endslot %}"),
    "fill": ("{% fill ", " %}{% endfill %}"),
    "provide": ("{% provide ", " %}{% endprovide %}"),
    "html_attrs": ("{% html_attrs ", " %}"),
}
TAG_NAMES = list(TAGS)
ROTATING = ["slot", "fill", "provide", "html_attrs"]
QB = set("'\"[]{}")


def budget(n):
    return 4000 + 40 * n * n


# ---------------------------------------------------------------------------
# deterministic step counter (sys.monitoring)

SCANNER_MODULES = (
    "django_components.util.tag_parser",
    "django_components.util.template_parser",
    "django_components.expression",
    "django_components.util.template_tag",
    "django_components.tag_formatter",
)
INF = 1 << 62
STEPS = [0, INF]  # [count, limit]
_state = {"mon": False, "rt": None}


class StepBudgetExceeded(BaseException):
    pass


def _all_codes(code):
    yield code
    for c in code.co_consts:
        if isinstance(c, types.CodeType):
            yield from _all_codes(c)


def _ensure_monitor():
    if _state["mon"]:
        return
    mon = sys.monitoring
    tool = 4
    if mon.get_tool(tool) is None:
        mon.use_tool_id(tool, "vf-c12")
    loops = set()
    codes = []
    for name in SCANNER_MODULES:
        mod = importlib.import_module(name)
        fn = mod.__file__
        with open(fn, encoding="utf-8") as f:
            tree = ast.parse(f.read())
        for node in ast.walk(tree):
            if isinstance(node, (ast.While, ast.For)):
                loops.add((fn, node.lineno))
        for obj in list(vars(mod).values()):
            if isinstance(obj, types.FunctionType) and obj.__code__.co_filename == fn:
                codes.extend(_all_codes(obj.__code__))
            elif isinstance(obj, type) and obj.__module__ == name:
                for v in vars(obj).values():
                    if isinstance(v, (staticmethod, classmethod)):
                        v = v.__func__
                    if isinstance(v, property):
                        v = v.fget
                    if isinstance(v, types.FunctionType) and v.__code__.co_filename == fn:
                        codes.extend(_all_codes(v.__code__))
    if not loops or not codes:
        raise RuntimeError("step counter found no scanner loops")
    disable = mon.DISABLE
    steps = STEPS

    def on_line(code, line):
        if (code.co_filename, line) not in loops:
            return disable
        steps[0] += 1
        if steps[0] > steps[1]:
            steps[1] = INF
            raise StepBudgetExceeded()

    mon.register_callback(tool, mon.events.LINE, on_line)
    for c in codes:
        mon.set_local_events(tool, c, mon.events.LINE)
    _state["mon"] = True


# ---------------------------------------------------------------------------
# runtime (probe component, parser)


def _rt():
    r = _state["rt"]
    if r is not None:
        return r
    from vf import env

    env.setup()
    from django.template import Context, Template, engines
    from django.template.base import Parser
    from django.template.exceptions import TemplateSyntaxError

    from django_components import Component, registry
    from django_components.node import BaseNode
    from django_components.util.tag_parser import TagValue, parse_tag

    env.reset()

    class VfC12Probe(Component):
        template = "probe"

    registry.register("probe", VfC12Probe)
    eng = engines["django"].engine
    parser = Parser([], eng.template_libraries, eng.template_builtins)
    _ensure_monitor()
    r = _state["rt"] = types.SimpleNamespace(
        Template=Template, empty_template=Template(""), TSE=TemplateSyntaxError, BaseNode=BaseNode, parse_tag=parse_tag, parser=parser, TagValue=TagValue, Context=Context, env=env
    )
    return r


def _direct_call(s):
    r = _rt()
    _, attrs = r.parse_tag(s, r.parser)
    for a in attrs:
        a.serialize()
    for a in attrs:
        a.value.compile()
    return attrs


_DEBUG_ENGINE = []


def _debug_engine():
    """The default engine's twin with debug=True (error paths then annotate the exception with the failing token)."""
    if not _DEBUG_ENGINE:
        from django.template import engines
        from django.template.engine import Engine

        e = engines["django"].engine
        _DEBUG_ENGINE.append(Engine(dirs=e.dirs, app_dirs=False, debug=True, builtins=list(e.builtins), libraries=dict(e.libraries), string_if_invalid=e.string_if_invalid))
    return _DEBUG_ENGINE[0]


def _template_call(src):
    r = _rt()
    try:
        t = r.Template(src)
    except r.TSE:
        # the same source under engine.debug=True: the error path differs (token / source position annotation), the
        # outcome must still be TemplateSyntaxError
        if zlib.crc32(src.encode("utf-8", "surrogatepass")) % 4 == 0:  # every fourth rejected source (a function of the source only)
            r.Template(src, engine=_debug_engine())
        raise
    for node in t.nodelist.get_nodes_by_type(r.BaseNode):
        for a in node.params:
            a.value.compile()
    return t


_GENERIC_ENTRY = ("django_monkeypatch.py:_compile_nodelist", "template_tag.py:_parse_tag_body", "template_tag.py:<lambda>", "node.py:parse", "expression.py:__init__")


def _bucket_of(e):
    b = exc_bucket(e)
    for g in _GENERIC_ENTRY:
        if b.endswith("@" + g):
            b = b[: -len(g)] + "djc-parse"  # generic entry points: the raising frame below tells the root cause
    if isinstance(e, RecursionError):
        return "exc:" + b.split(":")[0]  # innermost function is arbitrary for a stack overflow
    tb = e.__traceback__
    while tb is not None and tb.tb_next is not None:
        tb = tb.tb_next
    if tb is not None and "django_components" not in tb.tb_frame.f_code.co_filename:
        # raised below the library (Django / stdlib): add the raising frame, the djc frame alone is too coarse
        b += ">%s:%s" % (os.path.basename(tb.tb_frame.f_code.co_filename), tb.tb_frame.f_code.co_name)
    return "exc:" + b


class CpuDeadline(BaseException):
    pass


HANG_CPU_S = 20.0  # a single parse of the inputs used here costs milliseconds; 20 CPU-seconds is >= 400x that


def _on_vtalrm(signum, frame):
    raise CpuDeadline()


def judge(rx, text, fn, limit=None):
    """Run fn(text) under the step budget and a CPU-time hang detector. Returns (outcome, fails, steps).

    The step budget only sees the Python scanners; time spent inside the regex engine is invisible to it, so an
    input on which a regex backtracks exponentially would simply never return. CPython's regex engine polls for
    signals, so a virtual (CPU-time) interval timer interrupts it. Not finishing within HANG_CPU_S CPU-seconds on
    an input of a few kB violates the 'terminates within quadratic time, never hangs' clause."""
    import signal

    r = _rt()
    STEPS[0] = 0
    lim = STEPS[1] = budget(len(text)) if limit is None else limit
    fails = []
    old_handler = signal.signal(signal.SIGVTALRM, _on_vtalrm)
    signal.setitimer(signal.ITIMER_VIRTUAL, HANG_CPU_S)
    try:
        fn(text)
        out = "ok"
    except CpuDeadline:
        out = "hang"
        fails.append(
            (
                "[%s] parsing an input of %d chars did not finish within %.0f CPU-seconds (inputs of this size normally take milliseconds): %s"
                % (rx, len(text), HANG_CPU_S, _short(text)),
                "hang:" + rx.split(":")[0],
            )
        )
    except r.TSE as e:
        out = "tse@" + exc_bucket(e).split("@", 1)[1].split(":")[0]  # which module rejected it (distribution label only)
    except StepBudgetExceeded:
        out = "budget"
        fails.append(
            (
                "[%s] more than %d scanner loop iterations for an input of %d chars (budget 4000+40*n^2 = %d%s): %s"
                % (rx, lim, len(text), budget(len(text)), "" if limit is None else "; growth abort limit relative to the smaller sizes", _short(text)),
                "budget:" + rx.split(":")[0],
            )
        )
    except Exception as e:  # noqa - recorded as a violation, never swallowed
        out = "exc"
        fails.append(("[%s] %s: %s raised for input (%d chars) %s; only TemplateSyntaxError is allowed" % (rx, type(e).__name__, str(e)[:160], len(text), _short(text)), _bucket_of(e)))
    finally:
        signal.setitimer(signal.ITIMER_VIRTUAL, 0)
        signal.signal(signal.SIGVTALRM, old_handler)
        STEPS[1] = INF
    return out, fails, STEPS[0]


def _short(s, n=160):
    return repr(s) if len(s) <= n else "%s...(%d chars)" % (repr(s[:n]), len(s))


def run_string(s, tags):
    """-> (fails, labels)."""
    labels = []
    out, fails, _ = judge("parse_tag", s, _direct_call)
    labels.append("direct_" + out)
    for tg in tags:
        pre, post = TAGS[tg]
        o, f, _ = judge("tag:" + tg, pre + s + post, _template_call)
        labels.append("tag_" + o)
        labels.append("rx_" + tg)
        fails.extend(f)
    return fails, labels


# ---------------------------------------------------------------------------
# enumeration


def _greedy_tokens(s, alpha_sorted):
    out = []
    i = 0
    while i < len(s):
        for t in alpha_sorted:
            if s.startswith(t, i):
                out.append(t)
                i += len(t)
                break
        else:  # pragma: no cover - cannot happen for strings over the alphabet
            return None
    return out


def enum_strings(alpha, length, lo, hi):
    """Yield (idx, string) for the canonical token sequences of `length` tokens with index in [lo, hi)."""
    k = len(alpha)
    srt = sorted(alpha, key=len, reverse=True)
    for idx in range(lo, hi):
        seq = []
        x = idx
        for _ in range(length):
            x, d = divmod(x, k)
            seq.append(alpha[d])
        seq.reverse()
        s = "".join(seq)
        g = _greedy_tokens(s, srt)
        if g is not None and g != seq and len(g) <= length:
            continue  # the same string is enumerated as its greedy tokenisation
        yield idx, s


def run_enum(spec, col):
    alpha = ALPHA if spec["alpha"] == "full" else REDUCED
    length, lo, hi = spec["L"], spec["lo"], spec["hi"]
    mode = spec["tags"]
    from collections import Counter

    cnt = Counter()
    best = {}
    n_budget = 0
    aborted = False
    for idx, s in enum_strings(alpha, length, lo, hi):
        if mode == "all":
            tags = TAG_NAMES
        elif mode == "comp+rot":
            tags = ["component", ROTATING[idx % 4]]
        else:  # "rot3": every third string goes through one tag (rotating over all five), all through parse_tag
            tags = [TAG_NAMES[(idx // 3) % 5]] if idx % 3 == 0 else []
        fails, labels = run_string(s, tags)
        nt = not QB.isdisjoint(s)
        if spec.get("count_only"):
            col.evaluations += 1
            if nt:
                cnt["enum_big_nontrivial_distinct(not in distinct_nontrivial)"] += 1
        else:
            # samples: prefer strings that parse (the rejected majority is represented by the counters)
            col.case(s, nt, sample={"part": "str", "s": s, "tags": tags} if nt and length >= 3 and "direct_ok" in labels else None)
        for lb in labels:
            cnt[lb] += 1
        cnt["enum_L%d%s" % (length, "" if spec["alpha"] == "full" else "_reduced")] += 1
        for m, b in fails:
            cnt["fail:" + b] += 1
            cur = best.get(b)
            if cur is None or len(s) < len(cur[0]["s"]):
                best[b] = ({"part": "str", "s": s, "tags": tags}, m)
            if b.startswith("budget:"):
                n_budget += 1
        if n_budget >= 25:
            # every such case burns its whole step budget: stop this shard early (it is then not exhaustive)
            aborted = True
            break
    for b, (case, m) in best.items():
        col.fail(case, m, b, finding=attribute(case, m, b))
    for k, v in cnt.items():
        col.count(k, v)
    col.exhaustive = not aborted
    if aborted:
        col.notes.append("enum shard %r stopped early after 25 step-budget failures" % (spec,))
    return col


# ---------------------------------------------------------------------------
# growth families

_Q = '"'


def _fam():
    f = {}

    def add(name, rx, r0, build, group=None):
        f[name] = {"rx": rx, "r0": r0, "build": build, "group": group or name}

    # D1 family: the regex of is_dynamic_expression
    add("dynexpr_var_unterminated", "direct", 150, lambda r: "'" + "{{}}" * r, "dynexpr")
    add("dynexpr_block_unterminated", "direct", 150, lambda r: '"' + "{%%}" * r, "dynexpr")
    add("dynexpr_comment_unterminated", "direct", 150, lambda r: '"' + "{##}" * r, "dynexpr")
    add("dynexpr_var_filtered", "direct", 150, lambda r: "'" + "{{}}" * r + "'|lower", "dynexpr")
    add("dynexpr_var_filtered_tag", "tag:component", 150, lambda r: "'" + "{{}}" * r + "'|lower", "dynexpr")
    add("dynexpr_open_only", "direct", 400, lambda r: '"' + "{{" * r + '"')
    add("dynexpr_mixed", "direct", 75, lambda r: '"' + "{{%}{#}}" * r + "x", "dynexpr")
    # ... and the same shapes in values that span several lines (`.` and `$` treat newlines specially)
    add("dynexpr_multiline_var", "direct", 150, lambda r: '"' + "{{}}" * r + '\nsecond line"', "dynexpr")
    add("dynexpr_multiline_block", "direct", 150, lambda r: "'\n" + "{%%}" * r + "'", "dynexpr")
    add("dynexpr_multiline_unterminated", "direct", 150, lambda r: "'" + "{##}" * r + "\n", "dynexpr")
    add("dynexpr_multiline_every", "direct", 100, lambda r: '"' + "{{}}\n" * r + '"', "dynexpr")
    add("dynexpr_multiline_tag", "tag:component", 150, lambda r: 'k="' + "{{}}" * r + '\nx"', "dynexpr")
    # containers
    add("deep_list_open", "direct", 500, lambda r: "[" * r)
    add("deep_list", "direct", 500, lambda r: "[" * r + "1" + "]" * r, "deep_brackets")
    add("deep_dict", "direct", 400, lambda r: '{"k":' * r + "1" + "}" * r, "deep_brackets")
    add("deep_mixed", "direct", 250, lambda r: '[{"k":' * r + "1" + "}]" * r, "deep_brackets")
    add("deep_spread", "direct", 300, lambda r: "[*" * r + "[1]" + "]" * r, "deep_brackets")
    add("deep_list_tag", "tag:slot", 500, lambda r: "[" * r + "1" + "]" * r, "deep_brackets")
    add("deep_dict_tag", "tag:component", 400, lambda r: 'k={"k":' * 1 + '{"k":' * (r - 1) + "1" + "}" * r, "deep_brackets")
    add("deep_close", "direct", 1000, lambda r: "[1" + "]" * r)
    add("long_list", "direct", 1000, lambda r: "[" + "1, " * r + "]")
    add("long_dict", "direct", 500, lambda r: "{" + '"k": 1, ' * r + "}")
    add("list_of_dicts", "direct", 400, lambda r: "[" + '{"k": 1}, ' * r + "]")
    add("list_spreads", "direct", 500, lambda r: "[" + "*a, " * r + "]")
    add("dict_spreads", "direct", 400, lambda r: "{" + "**a, " * r + "}")
    add("dict_open_keys", "direct", 400, lambda r: '{"a":' * r)
    # filters
    add("filter_chain", "direct", 500, lambda r: "a" + "|lower" * r)
    add("filter_args", "direct", 300, lambda r: "a" + '|default:"x"' * r)
    add("filter_ws", "direct", 300, lambda r: "a" + ' | default : "x" ' * r)
    add("pipe_run", "direct", 1000, lambda r: "a|" * r + "a")
    add("colon_args", "direct", 1000, lambda r: "a|b" + ":c" * r)
    # attributes
    add("many_kwargs", "direct", 300, lambda r: 'k="v w" ' * r)
    add("many_quoted", "direct", 300, lambda r: '"a b" ' * r)
    add("many_flags", "direct", 600, lambda r: "a " * r)
    add("keys_run", "direct", 1000, lambda r: "a=" * r)
    add("spreads_top", "direct", 300, lambda r: "...a " * r)
    add("translations", "direct", 300, lambda r: '_("a") ' * r)
    add("translation_open", "direct", 100, lambda r: "_(" * r)
    # quotes / escapes / runs
    add("backslash_in_quote", "direct", 2000, lambda r: '"' + "\\" * r + '"')
    add("escaped_quotes_unterminated", "direct", 1500, lambda r: "'" + "\\'" * r)
    add("quote_run", "direct", 1000, lambda r: '"' * r)
    add("quote_alternating", "direct", 800, lambda r: "'\"" * r)
    add("identifier", "direct", 2000, lambda r: "a" * r)
    add("whitespace_run", "direct", 2000, lambda r: " " * r + "a")
    add("newline_run", "direct", 2000, lambda r: "a" + "\n" * r + "b")
    add("long_string", "direct", 3000, lambda r: '"' + "a" * r + '"')
    # nested templates inside strings
    add("nested_vars", "direct", 400, lambda r: '"' + "{{ a }}" * r + '"')
    add("nested_quoted_tags", "direct", 100, lambda r: "'" + '{% slot "a" %}{% endslot %}' * r + "'")
    # whole templates / tags through the lexer
    add("t_quoted_tags", "src", 200, lambda r: '{% slot "a" %}{% endslot %}' * r)
    # quoted tags (each one restarts the stock lexer on the rest of the source) followed by never-closed openers
    add("t_quoted_then_open_vars", "src", 60, lambda r: "{% slot 'a' %}{% endslot %}" * r + "{{" * (6 * r), "t_restart_lexer")
    add("t_quoted_then_open_blocks", "src", 60, lambda r: '{% slot "a" %}{% endslot %}' * r + "{% " * (4 * r), "t_restart_lexer")
    add("t_quoted_then_open_comments", "src", 60, lambda r: "{% slot 'a' %}{% endslot %}" * r + "{#" * (6 * r), "t_restart_lexer")
    add("t_open_vars_between_quoted", "src", 60, lambda r: "{{ {% slot 'a' %}{% endslot %}" * r, "t_restart_lexer")
    add("t_open_tags", "src", 2000, lambda r: "{% " * r)
    add("t_open_quoted", "src", 1000, lambda r: '{% slot "' * r)
    add("t_many_kwargs", "tag:component", 300, lambda r: 'k="v w" ' * r)
    add("t_quotes_mixed", "tag:component", 1000, lambda r: 'a"b' * r)
    add("t_backslash", "tag:component", 2000, lambda r: '"' + "\\" * r + '"')
    add("t_backslash_unterminated", "tag:component", 2000, lambda r: '"' + "\\" * r)
    add("t_translations", "tag:component", 300, lambda r: '_("a") ' * r)
    add("t_translation_brackets", "tag:component", 300, lambda r: 'k=[_("a")] ' * r)
    add("t_percent_run", "tag:slot", 2000, lambda r: '"a" ' + "%" * r)
    add("t_newlines", "tag:slot", 2000, lambda r: '"a"' + "\n" * r)
    add("t_flags", "tag:slot", 600, lambda r: '"a" ' + "default " * r)
    add("t_html_attrs", "tag:html_attrs", 300, lambda r: 'class="a b" ' * r)
    return f


FAMILIES = _fam()


def _growth_text(fam, r):
    d = FAMILIES[fam]
    body = d["build"](r)
    rx = d["rx"]
    if rx.startswith("tag:"):
        pre, post = TAGS[rx[4:]]
        return pre + body + post
    return body


def run_growth(fam, r0, full=True):
    """-> (fails, info). Deterministic except for the guarded CPU-time clause."""
    d = FAMILIES[fam]
    rx = d["rx"]
    fn = _direct_call if rx == "direct" else _template_call
    fails = []
    info = {"family": fam, "rx": rx, "sizes": [], "steps": [], "cpu": [], "outcome": []}
    texts = {k: _growth_text(fam, r0 * k) for k in (1, 2, 4)}
    prevs = []  # (length, steps) of the sizes already run

    def one(text, first_pass=True):
        # Abort limit: the absolute budget and, so that a hang at a large size is noticed quickly, a generous bound relative
        # to the sizes already run: 20 x their steps (at least 300 per char) scaled quadratically to this length, maximum
        # over all of them (robust against parity effects such as an odd number of quotes being rejected early).
        # The verdict rule proper (steps(4n) <= 20*steps(n)) is applied below.
        n = len(text)
        lim = budget(n)
        if prevs:
            lim = min(lim, int(max(20 * max(st, 300 * ln) * max(1.0, n / ln) ** 2 for ln, st in prevs)))
        t0 = time.process_time()
        out, f, steps = judge(rx + ":" + fam, text, fn, limit=lim)
        if first_pass:
            prevs.append((max(1, n), steps))
        return time.process_time() - t0, out, f, steps

    res = {}
    # ladder of small sizes first (steps only)
    r = max(1, r0 // 16)
    while r < r0 and not fails:
        _, out, f, _ = one(_growth_text(fam, r))
        fails.extend(f)
        r *= 2
    for k in (1, 2, 4):
        if fails:
            res[k] = [0.0, "skipped", 0]
            continue
        t, out, f, st = one(texts[k])
        res[k] = [t, out, st]
        fails.extend(f)
    if not fails and res[4][0] >= 0.4:  # the clock clause may be measurable: min of 3
        for _ in range(2):
            for k in (4, 2, 1):
                t, out, f, st = one(texts[k], first_pass=False)
                if st != res[k][2] or out != res[k][1]:
                    info["nondeterministic"] = "size x%d: steps %d/%d outcome %s/%s" % (k, st, res[k][2], out, res[k][1])
                res[k][0] = min(res[k][0], t)
    for k in (1, 2, 4):
        info["sizes"].append(len(texts[k]))
        info["cpu"].append(round(res[k][0], 4))
        info["outcome"].append(res[k][1])
        info["steps"].append(res[k][2])
    s1, s4 = res[1][2], res[4][2]
    if not fails and s4 > 20 * max(s1, 200):
        fails.append(
            ("[growth %s] scanner steps grow faster than quadratically: sizes %r -> steps %r (steps(4n) > 20*steps(n))" % (fam, info["sizes"], info["steps"]), "growth-steps:" + d["group"])
        )
    t1, t4 = res[1][0], res[4][0]
    if t4 >= 0.5:
        ratio = t4 / max(t1, 1e-6)
        info["clock"] = "ratio %.1f" % ratio
        if ratio > 40:
            fails.append(
                (
                    "[growth %s] CPU time grows faster than quadratically: sizes %r chars -> %r s (min of 3), t(4n)/t(n) = %.1f > 40; e.g. %s"
                    % (fam, info["sizes"], info["cpu"], ratio, _short(texts[1], 60)),
                    "growth-time:" + d["group"],
                )
            )
    else:
        info["clock"] = "inconclusive (t(4n) < 0.5 s)"
    return fails, info


# ---------------------------------------------------------------------------
# round trip of grammar-valid tags

CTX = {"a": 1, "b": "x y", "lst": [1, "two"], "dct": {"k": 1, "z": [3]}, "none": None, "obj": {"x": {"y": 5}}, "t": True}


def dump_value(v):
    r = _rt()
    if isinstance(v, r.TagValue):
        return ["v", [[p.value, p.quoted, p.spread, bool(p.translation), p.filter] for p in v.parts]]
    return [v.type[0], v.spread, [dump_value(e) for e in v.entries]]


def dump_attrs(attrs):
    return [[a.key, dump_value(a.value)] for a in attrs]


def _norm(v):
    if isinstance(v, dict):
        return ["dict", [[_norm(k), _norm(x)] for k, x in v.items()]]
    if isinstance(v, (list, tuple)):
        return [type(v).__name__, [_norm(x) for x in v]]
    if isinstance(v, str):
        return ["str", str(v)]
    if isinstance(v, (bool, int, float)) or v is None:
        return [type(v).__name__, repr(v)]
    return [type(v).__name__, repr(v)]


def _resolve_all(attrs):
    r = _rt()
    out = []
    ctx = r.Context(dict(CTX))
    with ctx.bind_template(r.empty_template):
        for a in attrs:
            if a.key is None and a.serialize() == "/":
                continue  # self-closing slash: syntax, not a value
            try:
                out.append(_norm(a.value.resolve(ctx)))
            except Exception as e:  # noqa - compared between the two parses, not judged
                out.append(["raised", type(e).__name__, str(e)[:200]])
    return out


def run_rt(text, expect):
    """-> (fails, labels). expect = expected dump_attrs structure (from the generator) or None."""
    STEPS[0] = 0
    STEPS[1] = lim = 4 * budget(len(text))  # two parses, serialisations, compile+resolve of both
    try:
        return _run_rt(text, expect)
    except StepBudgetExceeded:
        return [("[rt] more than %d scanner loop iterations while round-tripping %s" % (lim, _short(text)), "budget:rt")], ["rt_budget"]
    finally:
        STEPS[1] = INF


def _run_rt(text, expect):
    r = _rt()
    fails = []
    try:
        _, attrs = r.parse_tag(text, r.parser)
    except r.TSE as e:
        return [("[rt] grammar-valid tag rejected: %s -> TemplateSyntaxError(%s)" % (_short(text), str(e)[:120]), "rt:valid-tag-rejected")], ["rt_rejected"]
    except Exception as e:  # noqa
        return [("[rt] %s raised by parse_tag for %s" % (type(e).__name__, _short(text)), _bucket_of(e))], ["rt_exc"]
    d1 = dump_attrs(attrs)
    if expect is not None and d1 != expect:
        fails.append(("[rt] parse_tag(%s) returned a structure different from what is written:\n got  %s\n want %s" % (_short(text), json.dumps(d1), json.dumps(expect)), "rt:structure"))
        return fails, ["rt_structure"]
    try:
        ser = " ".join(a.serialize() for a in attrs)
        _, attrs2 = r.parse_tag(ser, r.parser)
        ser2 = " ".join(a.serialize() for a in attrs2)
    except Exception as e:  # noqa - TemplateSyntaxError included: the serialisation of a valid tag must parse
        fails.append(("[rt] serialise/re-parse of %s raised %s: %s" % (_short(text), type(e).__name__, str(e)[:160]), "rt:reparse-raises:" + type(e).__name__))
        return fails, ["rt_reparse_raises"]
    d2 = dump_attrs(attrs2)
    if d2 != d1:
        fails.append(("[rt] re-parsing the serialisation gives different arguments: %s -> %s\n first  %s\n second %s" % (_short(text), _short(ser), json.dumps(d1), json.dumps(d2)), "rt:ast-differs"))
    elif ser2 != ser:
        fails.append(("[rt] serialisation is not a fixpoint: %s -> %s -> %s" % (_short(text), _short(ser), _short(ser2)), "rt:serialisation-differs"))
    else:
        v1 = _resolve_all(attrs)
        v2 = _resolve_all(attrs2)
        if v1 != v2:
            fails.append(("[rt] resolved values differ after re-parse: %s -> %s: %s vs %s" % (_short(text), _short(ser), json.dumps(v1)[:400], json.dumps(v2)[:400]), "rt:values-differ"))
        labels = ["rt_ok"]
        if any(x and x[0] == "raised" for x in v1):
            labels.append("rt_resolve_raised")
        return fails, labels
    return fails, ["rt_fail"]


def _strategies():
    """Hypothesis strategies (built lazily; hypothesis is imported in the workers only)."""
    from hypothesis import strategies as st

    ws0 = st.sampled_from(["", "", "", "", " ", "  ", "\n", "\t", " \n "])
    ws1 = st.sampled_from([" ", " ", " ", "  ", "\n", "\t ", " \n"])
    STR_FRAGS = ["a", "b c", " ", "it", "x,y", "k:v", "a|b", "k=v", "[1]", "(z)", "*", "...", "**", "_(", ")", "/", "%", "#", "@click", "-", ".", "é", "\\n", "{", "}", "%}", ":", ",", "|", "=", "]", "["]
    VARS = ["a", "b", "lst", "dct", "none", "obj.x", "obj.x.y", "dct.k", "lst.0", "t", "True", "None", "missing"]
    FILTERS0 = ["upper", "lower", "length", "safe", "title", "capfirst"]
    FILTERS_ANY = ["default", "add", "join", "default_if_none"]  # total for every argument type
    FILTERS_STR = ["cut", "yesno", "slice", "default"]  # string-literal argument only
    ARG_VARS = ["a", "b", "lst", "dct.k", "obj.x.y", "none", "t"]
    KEYS = ["k", "key2", "attrs:class", "attrs:@click.stop", "@click", "data-x", "x.y", "#id", "_k", "a-b_c", "v-on:click", "ü"]
    FLAGS = ["only", "default", "required", "flag"]

    def fix_content(frags, q):
        out = []
        for fr in frags:
            if fr == "Q":
                out.append("\\" + q)
            elif fr == "O":
                out.append("'" if q == '"' else '"')
            else:
                out.append(fr)
        s = "".join(out)
        # never a nested-template string, never a trailing backslash (see ASSUMPTIONS)
        s = s.replace("{{", "{(").replace("{%", "{/").replace("{#", "{.")
        if s.endswith("\\"):
            s += "n"
        return s

    quote = st.sampled_from(["'", '"'])

    @st.composite
    def string_atom(draw):
        q = draw(quote)
        frags = draw(st.lists(st.sampled_from(STR_FRAGS + ["Q", "O"]), min_size=0, max_size=4))
        c = fix_content(frags, q)
        return q + c + q, [c, q, None, False, None], "str"

    @st.composite
    def number_atom(draw):
        n = draw(st.sampled_from(["0", "1", "42", "-7", "1.5", "007", "1e3"]))
        return n, [n, None, None, False, None], "num"

    @st.composite
    def var_atom(draw):
        v = draw(st.sampled_from(VARS))
        return v, [v, None, None, False, None], "var"

    @st.composite
    def trans_atom(draw):
        q = draw(quote)
        frags = draw(st.lists(st.sampled_from(["a", "b c", "x,y", ")", "_(", "O", "Q", ":", "|"]), min_size=1, max_size=3))
        c = fix_content(frags, q)
        return "_(" + draw(ws0) + q + c + q + draw(ws0) + ")", [c, q, None, True, None], "trans"

    @st.composite
    def nested_atom(draw):
        q = draw(quote)
        o = "'" if q == '"' else '"'
        parts = ["{{ a }}", "{{ b|upper }}", "{{ lst.0 }}", "{% if a %}Y{% else %}N{% endif %}", "{# note #}", "x ", " y", "{{ none|default:%sz%s }}" % (o, o), "{% firstof none b %}", "[", ",", "%"]
        chosen = draw(st.lists(st.sampled_from(parts), min_size=1, max_size=3))
        if not any(p.startswith("{") and len(p) > 1 for p in chosen):
            chosen.append("{{ a }}")
        c = "".join(chosen)
        return q + c + q, [c, q, None, False, None], "nested"

    atom = st.one_of(string_atom(), number_atom(), var_atom(), var_atom(), trans_atom(), nested_atom())
    arg_var = st.sampled_from(ARG_VARS).map(lambda v: (v, [v, None, None, False, None], "var"))
    arg_atom = st.one_of(string_atom(), number_atom(), arg_var, trans_atom())

    @st.composite
    def chain(draw, base, allow_args=True, max_filters=3):
        text, part, kind = draw(base)
        parts = [part]
        kinds = {kind}
        nf = draw(st.integers(0, max_filters)) if kind != "nested" else 0
        for _ in range(nf):
            c = draw(st.integers(0, 3)) if allow_args else 0
            if c == 0:
                name = draw(st.sampled_from(FILTERS0))
                text += draw(ws0) + "|" + draw(ws0) + name
                parts.append([name, None, None, False, "|"])
                kinds.add("filter")
                continue
            if c == 1:
                name = draw(st.sampled_from(FILTERS_STR))
                at, ap, _k = draw(string_atom())
            elif c == 2:
                name = "truncatechars"
                at, ap, _k = draw(st.sampled_from(["3", "10"]).map(lambda n: (n, [n, None, None, False, None], "num")))
            else:
                name = draw(st.sampled_from(FILTERS_ANY))
                at, ap, _k = draw(arg_atom)
            text += draw(ws0) + "|" + draw(ws0) + name + draw(ws0) + ":" + draw(ws0) + at
            parts.append([name, None, None, False, "|"])
            parts.append(ap[:4] + [":"])
            kinds.add("filter_arg")
        return text, ["v", parts], kinds

    @st.composite
    def value(draw, depth):
        """-> (text, dump, kinds). dump of a plain value is ["v", parts]; of a container ["l"/"d", spread, entries]."""
        choice = draw(st.integers(0, 9)) if depth > 0 else 0
        if choice <= 5:
            return draw(chain(atom))
        if choice <= 7:
            return draw(list_lit(depth - 1, None))
        return draw(dict_lit(depth - 1, None))

    @st.composite
    def list_lit(draw, depth, spread):
        n = draw(st.integers(0, 4))
        text = (spread or "") + "[" + draw(ws0)
        entries = []
        kinds = {"list"}
        for i in range(n):
            c = draw(st.integers(0, 9))
            if c == 0:
                v = draw(st.sampled_from(["lst", "dct.z", "lst|slice:\":1\""]))
                if "|" in v:
                    parts = [["lst", None, "*", False, None], ["slice", None, None, False, "|"], [":1", '"', None, False, ":"]]
                else:
                    parts = [[v, None, "*", False, None]]
                text += "*" + draw(ws0) + v
                entries.append(["v", parts])
                kinds.add("spread")
            elif c == 1 and depth > 0:
                t, d, k = draw(list_lit(depth - 1, "*"))
                text += t
                entries.append(d)
                kinds |= k | {"spread"}
            else:
                t, d, k = draw(value(depth))
                text += t
                entries.append(d)
                kinds |= k
            text += draw(ws0)
            if i < n - 1 or draw(st.booleans()):
                text += "," + draw(ws0)
                if i == n - 1:
                    kinds.add("trailing_comma")
        text += "]"
        return text, ["l", spread, entries], kinds

    key_atom = st.one_of(string_atom(), number_atom(), st.sampled_from(["a", "b", "dct.k", "missing"]).map(lambda v: (v, [v, None, None, False, None], "var")))

    @st.composite
    def dict_lit(draw, depth, spread):
        n = draw(st.integers(0, 3))
        text = (spread or "") + "{" + draw(ws0)
        entries = []
        kinds = {"dict"}
        for i in range(n):
            c = draw(st.integers(0, 9))
            if c == 0:
                v = draw(st.sampled_from(["dct", "obj", "obj.x"]))
                text += "**" + draw(ws0) + v
                entries.append(["v", [[v, None, "**", False, None]]])
                kinds.add("spread")
            elif c == 1 and depth > 0:
                t, d, k = draw(dict_lit(depth - 1, "**"))
                text += t
                entries.append(d)
                kinds |= k | {"spread"}
            else:
                kt, kd, kk = draw(chain(key_atom, allow_args=False, max_filters=1))
                vt, vd, vk = draw(value(depth))
                text += kt + draw(ws0) + ":" + draw(ws0) + vt
                entries.append(kd)
                entries.append(vd)
                kinds |= kk | vk
            text += draw(ws0)
            if i < n - 1 or draw(st.booleans()):
                text += "," + draw(ws0)
                if i == n - 1:
                    kinds.add("trailing_comma")
        text += "}"
        return text, ["d", spread, entries], kinds

    def wrap_top(d):
        return d if d[0] in ("l", "d") else ["s", None, [d]]

    @st.composite
    def attr(draw, depth):
        c = draw(st.integers(0, 11))
        if c == 0:
            fl = draw(st.sampled_from(FLAGS))
            return fl, [None, ["s", None, [["v", [[fl, None, None, False, None]]]]]], {"flag"}
        if c == 1:
            v = draw(st.sampled_from(["dct", "lst", "obj.x", "attrs"]))
            return "..." + v, [None, ["s", "...", [["v", [[v, None, "...", False, None]]]]]], {"spread"}
        t, d, k = draw(value(depth))
        if c <= 6:
            key = draw(st.sampled_from(KEYS))
            return key + "=" + t, [key, wrap_top(d)], k | {"kwarg"}
        return t, [None, wrap_top(d)], k

    @st.composite
    def valid_tag(draw, max_attrs, depth):
        n = draw(st.integers(1, max_attrs))
        text = draw(st.sampled_from(["", "", " ", "\n"]))
        dumps = []
        kinds = set()
        for i in range(n):
            t, d, k = draw(attr(depth))
            if i:
                text += draw(ws1)
            text += t
            dumps.append(d)
            kinds |= k
        if draw(st.integers(0, 7)) == 0:
            text += draw(ws1) + "/"
            dumps.append([None, ["s", None, [["v", [["/", None, None, False, None]]]]]])
        text += draw(st.sampled_from(["", "", " ", "\n"]))
        return {"part": "rt", "text": text, "expect": dumps, "kinds": sorted(kinds)}

    # ---- fuzz strings -------------------------------------------------
    tok_re = re.compile(r"\.\.\.|\*\*|_\(|%\}|\{\{|\}\}|\{%|\{#|#\}|\w+|\s|.", re.S)
    ext = st.sampled_from(EXT_ALPHA)

    def mutate(args):
        case, ops = args
        toks = tok_re.findall(case["text"]) or ["a"]
        for op, pos, tok in ops:
            i = pos % len(toks)
            if op == "del":
                del toks[i]
            elif op == "dup":
                toks.insert(i, toks[i])
            elif op == "repl":
                toks[i] = tok
            elif op == "ins":
                toks.insert(i, tok)
            elif op == "swap" and i + 1 < len(toks):
                toks[i], toks[i + 1] = toks[i + 1], toks[i]
            elif op == "trunc":
                toks = toks[: i + 1]
            elif op == "unquote":
                toks[i] = toks[i].replace('"', "").replace("'", "") or "a"
            if not toks:
                toks = ["a"]
        return "".join(toks)

    mut_ops = st.lists(st.tuples(st.sampled_from(["del", "dup", "repl", "ins", "swap", "trunc", "unquote"]), st.integers(0, 400), ext), min_size=1, max_size=4)
    # one Hypothesis example = a batch of strings (generation is the expensive part; one valid tag seeds 8 mutants)
    BATCH = 8
    mutated = st.tuples(valid_tag(3, 2), st.lists(mut_ops, min_size=BATCH, max_size=BATCH)).map(lambda a: [mutate((a[0], ops)) for ops in a[1]])
    random_str = st.lists(ext, min_size=5, max_size=40).map("".join)
    fuzz = st.one_of(st.lists(random_str, min_size=BATCH, max_size=BATCH), mutated, mutated)

    SRC_FRAGS = [
        '{% component "probe" %}', "{% component 'probe' a=1 / %}", "{% endcomponent %}", '{% component "probe" x="{% slot \'s\' / %}" %}',
        '{% slot "s" %}', '{% slot "s" default / %}', "{% endslot %}", "{% slot s %}", '{% fill "s" %}', "{% endfill %}", '{% fill "s" data="d" %}',
        '{% provide "k" a=1 %}', "{% endprovide %}", "{% html_attrs attrs class='x' %}", '{% html_attrs attrs:class="a %} b" %}',
        "{% if a %}", "{% else %}", "{% endif %}", "{% for x in lst %}", "{% endfor %}", "{% with z=a %}", "{% endwith %}",
        "{% verbatim %}", "{% endverbatim %}", '{% verbatim "v" %}', "{% comment %}", "{% endcomment %}", '{% comment "x" %}',
        "{{ a }}", '{{ "x"|upper }}', "{{ a|default:'%}' }}", "{# c #}", '{# "c #}', "text", " ", "\n", '"', "'", "{%", "%}", "{{", "}}", "{#", "#}", "%", "{", "}",
        '{% component "probe" "', "k=\"a %} b\"", "{% slot 'a", '{% slot "a\\" %}', "{% load vf_tags %}", '{% vf_echo "a b" k=\'c\' %}', "{% component %}", "{% component probe %}",
        "{% component 'probe' [1, {\"k\": _('x')}] ...dct / %}", '{% slot name="s" required %}', "_(", "\\",
        # balanced units (so that a fair share of the sources compiles)
        '{% component "probe" %}x{% endcomponent %}', "{% component 'probe' k=\"a %} b\" %}{% fill 's' %}f{% endfill %}{% endcomponent %}",
        '{% slot "s" %}d{% endslot %}', '{% provide "k" a="{{ a }}" %}p{% endprovide %}', "{% if a %}y{% endif %}", "{% for x in lst %}{{ x }}{% endfor %}",
        "{% verbatim %}{{ x }}{% slot %}{% endverbatim %}", '{% verbatim "v" %}{{ x }}{% endverbatim "v" %}', "{% verbatim v %}{% endverbatim %}{% endverbatim v %}",
        "{% comment %}{% slot 'a %}{% endcomment %}", '{% component "probe" attrs:class="{% lorem 2 w %}" / %}', "{% with z='%}' %}{{ z }}{% endwith %}",
        '<div {% html_attrs attrs defaults:class="a" %}></div>', "line1\n{% slot 'x'\n  default %}\n{% endslot %}\n",
    ]
    src = st.lists(st.sampled_from(SRC_FRAGS), min_size=1, max_size=12).map("".join)
    return types.SimpleNamespace(valid_tag=valid_tag(4, 3), fuzz=fuzz, src=src, batch=BATCH)


# ---------------------------------------------------------------------------
# whole template sources


def run_src(src):
    r = _rt()
    out, fails, _ = judge("template", src, _template_call)
    labels = ["src_" + out]
    if fails and out == "exc" and "@djc-parse>" in fails[0][1]:
        # Raised below the patched compile entry point with no other django_components frame involved.
        # Differential guard: if stock Django's own compile path raises the same type for this source, it is Django's.
        stock = r.env.STOCK.get("compile_nodelist")
        if stock is not None:
            cur = r.Template.compile_nodelist
            r.Template.compile_nodelist = stock
            try:
                try:
                    r.Template(src)
                    stock_exc = None
                except Exception as e:  # noqa
                    stock_exc = type(e).__name__
            finally:
                r.Template.compile_nodelist = cur
            if stock_exc is not None and ("] %s:" % stock_exc) in fails[0][0]:
                return [], labels + ["src_exc_same_in_stock_django"]
    return fails, labels


# ---------------------------------------------------------------------------
# pinned witnesses (regress tier) - their buckets do not stop a Hypothesis search


def _pinned_buckets():
    here = os.path.dirname(os.path.dirname(os.path.dirname(os.path.abspath(__file__))))
    out = set()
    for p in glob.glob(os.path.join(here, "regress", PROP, "*.json")):
        try:
            with open(p) as f:
                b = json.load(f).get("bucket")
            if b:
                out.add(b)
        except Exception:  # noqa
            pass
    return out


def _bracket_depth(s):
    d = m = 0
    for ch in s:
        if ch in "[{":
            d += 1
            m = max(m, d)
        elif ch in "]}":
            d = max(0, d - 1)
    return m


def attribute(case, message, bucket):
    """Known-finding predicates (active only if /verif/known_findings.json lists the id as known)."""
    act = known_active(PROP)
    if not act or not isinstance(case, dict):
        return None
    bucket = bucket or ""
    if "C12-D1" in act and bucket == "growth-time:dynexpr" and case.get("part") == "growth" and FAMILIES.get(case.get("family"), {}).get("group") == "dynexpr":
        return "C12-D1"
    if "C12-D2" in act and bucket.startswith("exc:StopIteration@component_registry.py:tag_fn") and "_(" in str(case.get("s") or case.get("src") or case.get("ss")):
        return "C12-D2"
    if "C12-D3" in act and bucket.startswith("exc:RecursionError@tag_parser.py"):
        text = case.get("s") or case.get("src") or "".join(case.get("ss", [])) or (_growth_text(case["family"], case["r"] * 4) if case.get("part") == "growth" else "")
        if _bracket_depth(text) >= 300:
            return "C12-D3"
    return None


# ---------------------------------------------------------------------------
# plan / run / replay


def _chunks(total, n):
    step = max(1, -(-total // n))
    return [(lo, min(total, lo + step)) for lo in range(0, total, step)]


def plan(tier, seed, scale=1.0):
    b = BOUNDS[tier]
    specs = []
    k = len(ALPHA)
    # growth first: the slowest single shards
    for fam in FAMILIES:
        specs.append({"kind": "growth", "family": fam, "r": FAMILIES[fam]["r0"] * b["growth_scale"]})
    for L in range(1, b["enum_len"] + 1):
        total = k**L
        if L <= b["all_tags_len"]:
            mode, per = "all", 2200
        elif L <= 4:
            mode, per = "comp+rot", 8200
        else:
            mode, per = "rot3", 66000
        for lo, hi in _chunks(total, max(1, total // per)):
            specs.append({"kind": "enum", "alpha": "full", "L": L, "lo": lo, "hi": hi, "tags": mode, "count_only": L >= 5})
    if b.get("enum_reduced_len"):
        L = b["enum_reduced_len"]
        total = len(REDUCED) ** L
        for lo, hi in _chunks(total, 48):
            specs.append({"kind": "enum", "alpha": "reduced", "L": L, "lo": lo, "hi": hi, "tags": "rot3", "count_only": True})

    def hyp(kind, total, shards):
        n = max(20, int(total * scale) // shards)
        for sh in range(shards):
            specs.append({"kind": kind, "n": n, "seed": derive_seed(seed, kind, sh)})

    big = tier == "thorough"
    hyp("fuzz_direct", b["fuzz_direct"], 16 if big else 8)
    hyp("fuzz_tags", b["fuzz_tags"], 32 if big else 12)
    hyp("src", b["src"], 8 if big else 4)
    hyp("rt", b["rt"], 16 if big else 8)
    if b.get("atheris_runs"):  # single-threaded and long: started first
        for target in ("parse_tag", "template"):
            specs.insert(0, {"kind": "atheris", "target": target, "runs": int(b["atheris_runs"] * scale), "seed": derive_seed(seed, "atheris", target) % (2**31)})
    return specs


class _Sink:
    """Failure routing inside a Hypothesis shard.

    * buckets pinned by a regress witness: recorded once per shard, the search goes on (they must not hide other root causes);
    * step-budget failures are never handed to the shrinker (every failing candidate burns its whole budget): the shortest of
      the first 3 is recorded when the shard ends and the rest of the shard is skipped;
    * everything else goes back to hyp_search, which shrinks and records the first one.
    """

    def __init__(self, col, pinned):
        self.col, self.pinned = col, pinned
        self.seen_pinned = set()
        self.n_budget = 0
        self.best_budget = None

    @property
    def tripped(self):
        if self.n_budget >= 3:
            self.col.count("examples_skipped_after_3_step_budget_failures")
            return True
        return False

    def route(self, case, fails, size):
        out = []
        for m, bk in fails:
            if bk.startswith("budget:"):
                self.n_budget += 1
                if self.best_budget is None or size < self.best_budget[0]:
                    self.best_budget = (size, case, m, bk)
            elif bk in self.pinned:
                if bk not in self.seen_pinned:
                    self.seen_pinned.add(bk)
                    self.col.fail(case, m, bk, finding=attribute(case, m, bk))
                self.col.count("fail_pinned:" + bk)
            else:
                out.append((m, bk))
        return out

    def flush(self):
        if self.best_budget is not None:
            _, case, m, bk = self.best_budget
            self.col.fail(case, m, bk, finding=attribute(case, m, bk))
        return self.col


def _check_strs(col, sink):
    def check(case):
        if sink.tripped:
            return []
        out = []
        for s in case["ss"]:
            fails, labels = run_string(s, case["tags"])
            nt = not QB.isdisjoint(s)
            one = {"part": "str", "s": s, "tags": case["tags"]}
            col.case(s, nt, sample=one if nt and ("direct_ok" in labels or "tag_ok" in labels) else None, labels=labels + ["fuzz"])
            out.extend(sink.route(one, fails, len(s)))
        return out

    return check


def run_shard(spec):
    col = Collector()
    kind = spec["kind"]
    _rt()
    if kind == "enum":
        return run_enum(spec, col)

    if kind == "growth":
        fam = spec["family"]
        case = {"part": "growth", "family": fam, "r": spec["r"]}
        fails, info = run_growth(fam, spec["r"])
        if info.get("nondeterministic"):
            col.error("growth %s: step count/outcome not deterministic: %s" % (fam, info["nondeterministic"]))
        col.case(("growth", fam, spec["r"]), True, sample={"case": case, "info": info} if fam in ("dynexpr_var_filtered_tag", "t_quoted_tags") else None, labels=("growth", "growth_clock_" + ("judged" if info["clock"].startswith("ratio") else "inconclusive")))
        col.notes.append("growth %s: sizes %s steps %s cpu %s outcome %s clock %s" % (fam, info["sizes"], info["steps"], info["cpu"], info["outcome"], info["clock"]))
        for m, bk in fails:
            col.fail(case, m, bk, finding=attribute(case, m, bk))
        return col

    if kind == "atheris":
        return _run_atheris(spec, col)

    S = _strategies()
    sink = _Sink(col, _pinned_buckets())
    if kind in ("fuzz_direct", "fuzz_tags"):
        tags = [] if kind == "fuzz_direct" else TAG_NAMES
        strat = S.fuzz.map(lambda ss: {"part": "strs", "ss": ss, "tags": tags})
        hyp_search(strat, _check_strs(col, sink), col, max_examples=max(5, spec["n"] // S.batch), seed=spec["seed"], attribute=attribute)
        return sink.flush()
    if kind == "src":

        def check_src(src):
            if sink.tripped:
                return []
            fails, labels = run_src(src)
            nt = ('"' in src or "'" in src) and "{%" in src
            case = {"part": "src", "src": src}
            col.case(src, nt, sample=case if nt else None, labels=labels)
            return sink.route(case, fails, len(src))

        hyp_search(S.src, check_src, col, max_examples=spec["n"], seed=spec["seed"], attribute=lambda c, m, b: attribute({"part": "src", "src": c}, m, b))
        return sink.flush()
    if kind == "rt":
        NT = {"list", "dict", "spread", "filter_arg", "trans", "nested"}

        def check_rt(case):
            if sink.tripped:
                return []
            fails, labels = run_rt(case["text"], case["expect"])
            nt = bool(NT & set(case["kinds"]))
            col.case(case["text"], nt, sample=case if nt else None, labels=labels + ["rt_has_" + k for k in case["kinds"]])
            return sink.route(case, fails, len(case["text"]))

        hyp_search(S.valid_tag, check_rt, col, max_examples=spec["n"], seed=spec["seed"], attribute=attribute)
        return sink.flush()
    raise ValueError(kind)


def replay(case):
    _rt()
    part = case["part"]
    if part == "str":
        return run_string(case["s"], case.get("tags") or [])[0]
    if part == "strs":
        return [f for s in case["ss"] for f in run_string(s, case.get("tags") or [])[0]]
    if part == "src":
        return run_src(case["src"])[0]
    if part == "growth":
        return run_growth(case["family"], case["r"])[0]
    if part == "rt":
        return run_rt(case["text"], case.get("expect"))[0]
    raise ValueError(part)


# ---------------------------------------------------------------------------
# optional atheris stage (thorough)


def _run_atheris(spec, col):
    import subprocess

    here = os.path.dirname(os.path.dirname(os.path.dirname(os.path.abspath(__file__))))
    deps = os.path.join(here, ".deps")
    script = os.path.join(here, "fuzz", "c12_atheris.py")
    if not (os.path.isdir(os.path.join(deps, "atheris")) and os.path.exists(script)):
        col.notes.append("atheris stage skipped: atheris or fuzz/c12_atheris.py not available")
        return col
    from vf import env

    out_dir = os.path.join(env.scratch_base(), "atheris_%s" % spec["target"])
    os.makedirs(out_dir, exist_ok=True)
    cmd = [sys.executable, script, spec["target"], out_dir, "-runs=%d" % spec["runs"], "-seed=%d" % spec["seed"], "-max_len=96", "-timeout=30", "-artifact_prefix=%s/" % out_dir]
    try:
        p = subprocess.run(cmd, cwd=here, stdout=subprocess.PIPE, stderr=subprocess.STDOUT, timeout=3600, env=dict(os.environ, PYTHONHASHSEED="0"))
    except Exception as e:  # noqa
        col.notes.append("atheris stage skipped: %r" % (e,))
        return col
    txt = p.stdout.decode("utf-8", "replace")
    m = re.search(r"stat::number_of_executed_units:\s*(\d+)", txt) or re.search(r"Done (\d+) runs", txt)
    execs = int(m.group(1)) if m else 0
    if "ATHERIS-UNAVAILABLE" in txt:
        col.notes.append("atheris stage skipped: import failed")
        return col
    col.count("atheris_execs_" + spec["target"], execs)
    col.evaluations += execs
    col.notes.append("atheris %s: %d executions, exit %d" % (spec["target"], execs, p.returncode))
    # findings are written by the target as JSON lines "VF-FINDING {...}"
    seen = set()
    for line in txt.splitlines():
        if line.startswith("VF-FINDING "):
            rec = json.loads(line[len("VF-FINDING ") :])
            if rec["bucket"] in seen:
                continue
            seen.add(rec["bucket"])
            # re-run through the same oracle (no atheris involved) before reporting
            for msg, bk in replay(rec["case"]):
                col.fail(rec["case"], "[atheris] " + msg, bk, finding=attribute(rec["case"], msg, bk))
    if p.returncode != 0 and not seen:
        col.notes.append("atheris %s exited with %d without a finding: %s" % (spec["target"], p.returncode, txt[-600:]))
    return col
