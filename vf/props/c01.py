"""C01 — each slot renders the fill addressed to it, else its own default content.

Generated component libraries + pages (PG) are rendered by the real library under both
context_behavior settings and compared with the text computed by the independent reference
interpreter (vf/gen/pg.py).  Variants: every component tag rewritten to the dynamic component
(`{% component "dynamic" is="cX" %}`), and a top-level component rendered through
Component.render(kwargs, slots) with slots as str / function / Slot object.
"""
from hypothesis import strategies as st

from vf import env
from vf.core import Collector, derive_seed, exc_bucket, hyp_search, jhash, known_active
from vf.gen import pg, pgmin, pgrun, pgstrat

PROP = "C01"
LEVEL = "exploration"
RULE = (
    "Programs = library of 1-4 components + page built constructively by Hypothesis from text, variables, if/for/with, "
    "slots (named/default/required/repeated, name literal or from a with-/for-bound variable, in loops, in slot defaults, inside fills, with slot data) and component tags "
    "(no body / implicit body / named, conditional, with-wrapped, looped and dynamically-named fills, data= and default= aliases, `only`), "
    "with globally unique variable names; each rendered under context_behavior django and isolated and compared with the "
    "reference interpreter's text (expected TemplateSyntaxError for required-unfilled / two default slots / double fill / duplicate fill). "
    "A third of the programs is also rendered with every component tag replaced by the dynamic component; a separate generator "
    "renders a top-level component through Component.render(kwargs, slots=str|function|Slot) and compares with the equivalent tag form. "
    "Non-trivial = >=2 component instances rendered and (>=1 slot rendered from a provided fill or a slot nested in default/fill content); "
    "distinct by hash of (program, mode)."
)
ASSUMPTIONS = [
    "reference interpreter vf/gen/pg.py is the oracle (cross-checked against the repo's own slot tests during bring-up)",
    "django mode + `only`: visibility of tag-position variables inside fill content is not predicted (wildcard)",
    "the slot-default alias ({% fill default=... %}) is only printed, never iterated or passed on as a kwarg",
    "a tag body whose fill tags all vanish at run time (all conditional) is the implicit default fill, as resolve_fills documents; 12% of the generated fill bodies have no unconditional fill",
    "slot names given through a variable ({% slot nK %}) are with-bound literals or iterate over the characters of a literal",
]
BOUNDS = {"quick": {"programs": 6400}, "thorough": {"programs": 200000}}

CFG = {"errors": True}


def _deferred_scoped_tag(prog):
    """A component tag with a body that is rendered deferred (inside a component template or inside fill
    content) while a with/for binding or a fill alias encloses it in the same template."""

    def rec(nodes, deferred, bound):
        for n in nodes:
            t = n["t"]
            if t == "comp":
                body = n.get("body")
                if body and body["c"]:
                    if deferred and bound:
                        return True
                    if rec(body["c"], True, bound):
                        return True
            elif t in ("with", "for"):
                if rec(n["c"], deferred, bound + 1):
                    return True
            elif t == "fill":
                if rec(n["c"], True, bound + (1 if n.get("data") or n.get("dflt") else 0)):
                    return True
            elif t == "if":
                if rec(n["a"], deferred, bound) or rec(n["b"], deferred, bound):
                    return True
            elif t in ("slot", "elem", "provide"):
                if rec(n.get("c") or [], deferred, bound):
                    return True
        return False

    return any(rec(c["tpl"], True, 0) for c in prog["comps"]) or rec(prog["page"]["tpl"], False, 0)


def attribute(case, message, bucket):
    if (
        bucket.startswith("c01-dynamic")
        and message.startswith("[django]")
        and "C01-K1" in known_active(PROP)
        and _deferred_scoped_tag(case["program"])
    ):
        return "C01-K1"
    return None


def check_program(case, col=None):
    prog = case["program"]
    fails = []
    st_ = pgstrat.stats(prog)
    for mode in case.get("modes", ["django", "isolated"]):
        f, info = pgrun.compare(prog, mode)
        fails.extend(f)
        nt = False
        if info["model"] in ("ok", "error"):
            it_inst = info["instances"]
            nt = it_inst >= 2 and (info.get("n_filled", 0) >= 1 or st_["slot_in_fill"] + st_["slot_in_default"] > 0)
        if col is not None:
            labels = ["mode:" + mode, "model:" + info["model"]]
            if st_["slot_in_fill"]:
                labels.append("slot_in_fill")
            if st_["slot_in_default"]:
                labels.append("slot_in_default")
            if st_["dynfill"]:
                labels.append("dynamic_fill_name")
            if st_["dynslot"]:
                labels.append("dynamic_slot_name")
            if st_["condfill"]:
                labels.append("conditional_fill")
            if st_["loops"]:
                labels.append("has_loop")
            if st_["implicit"]:
                labels.append("implicit_body")
            if st_["only"]:
                labels.append("only_flag")
            sample = None
            if nt:
                sample = {"mode": mode, "page": pg.template_source(prog["page"]["tpl"])[:400], "components": {c["name"]: pg.template_source(c["tpl"])[:300] for c in prog["comps"]}, "output": (info.get("real") or "")[:200]}
            col.case(jhash([prog, mode]), nt, sample=sample, labels=labels)
        # dynamic variant of an expected-error program: must raise TemplateSyntaxError like the tag form
        if case.get("dynamic") and info["model"] == "error" and not f:
            from django.template import TemplateSyntaxError

            res = pgrun.run_real(prog, mode, {"dynamic": "name"}, budget=40 * info["instances"] + 100)
            if col is not None:
                col.count("variant:dynamic(expected-error)")
            if res.exc is None:
                fails.append(("[%s] tag form raises TemplateSyntaxError, the dynamic-component variant renders %r" % (mode, pg.normalize_real(res.out)[:300]), "c01-dynamic-missing-error"))
            elif not isinstance(res.exc, TemplateSyntaxError):
                fails.append(("[%s] tag form raises TemplateSyntaxError, the dynamic-component variant raises %r" % (mode, res.exc), "c01-dynamic-wrong-error:" + exc_bucket(res.exc)))
        # dynamic variant
        if case.get("dynamic") and info["model"] == "ok" and not f and "real" in info:
            res = pgrun.run_real(prog, mode, {"dynamic": "name"}, budget=40 * info["instances"] + 100)
            if col is not None:
                col.count("variant:dynamic")
            if res.exc is not None:
                fails.append(("[%s] dynamic-component variant raised %r; tag form gave %r" % (mode, res.exc, info["real"][:300]), "c01-dynamic-exc:" + exc_bucket(res.exc)))
            else:
                real = pg.normalize_real(res.out)
                if real != info["real"]:
                    fails.append(("[%s] dynamic-component variant differs\n tag form: %r\n dynamic:  %r" % (mode, info["real"][:500], real[:500]), "c01-dynamic-output"))
    return fails


# ---------------------------------------------------------------------------
# Component.render(slots=...) variant


def _slot_content(kind, parts, dflt_needed):
    from django.utils.safestring import mark_safe

    from django_components.slots import Slot

    def func(ctx, data, ref):
        out = []
        for p in parts:
            if p[0] == "text":
                out.append(p[1])
            elif p[0] == "data":
                v = data.get(p[1], "") if hasattr(data, "get") else ""
                out.append(str(v))
            elif p[0] == "dflt":
                out.append(str(ref))
        return mark_safe("".join(out))  # trusted alphanumeric tokens + already-rendered default content

    if kind == "str":
        return "".join(p[1] for p in parts if p[0] == "text")
    if kind == "func":
        return func
    return Slot(content_func=func)


def check_render_variant(case, col=None):
    """case: {"program":…, "target":name, "kwargs":{p: value}, "slots": {name: {"kind":…, "parts":[…]}}}"""
    from django.template import TemplateSyntaxError

    prog = case["program"]
    target = case["target"]
    fills = []
    for name, sc in case["slots"].items():
        body = []
        f = {"t": "fill", "name": {"lit": name}, "c": body}
        parts = sc["parts"] if sc["kind"] != "str" else [p for p in sc["parts"] if p[0] == "text"]
        for p in parts:
            if p[0] == "text":
                body.append({"t": "text", "s": p[1]})
            elif p[0] == "data":
                f["data"] = "dd"
                body.append({"t": "var", "n": "dd.%s" % p[1]})
            elif p[0] == "dflt":
                f["dflt"] = "ff"
                body.append({"t": "var", "n": "ff"})
        fills.append(f)
    tag = {"t": "comp", "name": target, "kwargs": {k: {"lit": v} for k, v in case["kwargs"].items()}, "only": False, "body": {"kind": "fills", "c": fills} if fills else None}
    prog2 = {"comps": prog["comps"], "page": {"ctx": {}, "tpl": [tag]}}
    fails = []
    for mode in ("django", "isolated"):
        f, info = pgrun.compare(prog2, mode)
        fails.extend(f)
        nt = info["model"] == "ok" and info["instances"] >= 2 and bool(fills)
        if col is not None:
            col.case(jhash(["render", case, mode]), nt, sample={"render_variant": case["target"], "slots": case["slots"], "mode": mode} if nt else None, labels=("variant:Component.render", "model:" + info["model"]))
        if info["model"] not in ("ok", "error") or f:
            continue
        # python entry point
        env.reset()
        rec = pg.Recorder(40 * info["instances"] + 100)
        with env.components_settings(context_behavior=mode):
            classes, _src = pg.build(prog2, rec)
            slots = {name: _slot_content(sc["kind"], sc["parts"], True) for name, sc in case["slots"].items()}
            try:
                out = classes[target].render(kwargs=dict(case["kwargs"]), slots=slots, render_dependencies=False)
                exc = None
            except Exception as e:  # noqa
                out, exc = None, e
        if info["model"] == "error":
            if not isinstance(exc, TemplateSyntaxError):
                fails.append(("[%s] Component.render: tag form raises TemplateSyntaxError, python entry gave %r / %r" % (mode, exc, out), "c01-render-error-mismatch"))
            continue
        if exc is not None:
            fails.append(("[%s] Component.render raised %r; tag form gave %r" % (mode, exc, info["real"][:300]), "c01-render-exc:" + exc_bucket(exc)))
        else:
            real = pg.normalize_real(out)
            if real != info["real"]:
                fails.append(("[%s] Component.render(slots=...) differs\n tag form: %r\n python:   %r" % (mode, info["real"][:500], real[:500]), "c01-render-output"))
    env.reset()
    return fails


@st.composite
def render_cases(draw):
    prog = draw(pgstrat.programs({"errors": False, "max_comps": 3}))
    idx = draw(st.integers(0, len(prog["comps"]) - 1))
    spec = prog["comps"][idx]
    slots = pgstrat.collect_slots(spec["tpl"])
    names = [s["name"] for s in slots] or ["default"]
    chosen = {}
    n = 0
    for s in names:
        if draw(st.integers(0, 99)) < 70:
            kind = draw(st.sampled_from(["str", "func", "slotobj"]))
            parts = []
            for _ in range(draw(st.integers(1, 3))):
                n += 1
                r = draw(st.integers(0, 9))
                if r < 5:
                    parts.append(["text", "r%d" % n])
                elif r < 8:
                    parts.append(["data", draw(st.sampled_from(pgstrat.DATA_KEYS))])
                else:
                    parts.append(["dflt"])
            if kind == "str" and not any(p[0] == "text" for p in parts) and draw(st.integers(0, 99)) < 60:
                parts.append(["text", "r%d" % (n + 1)])  # otherwise: the empty string (an empty fill is still a fill)
            chosen[s] = {"kind": kind, "parts": parts}
    kwargs = {p: draw(st.sampled_from(pgstrat.VALUES)) for p in spec["params"] if draw(st.booleans())}
    return {"kind": "render", "program": prog, "target": spec["name"], "kwargs": kwargs, "slots": chosen}


# ---------------------------------------------------------------------------


# coverage-guided stage (atheris drives these Hypothesis shards, see vf/run.py): {tier: {shard kind: (shards, executions)}}
CG = {'thorough': {'main': (8, 4000)}}


def plan(tier, seed, scale=1.0):
    n = max(16, int(BOUNDS[tier]["programs"] * scale))
    specs = []
    shards = 16 if tier == "quick" else 128
    for sh in range(shards):
        specs.append({"kind": "main", "n": n // shards, "seed": derive_seed(seed, "c01", sh), "shrink": True})
    for sh in range(4):
        specs.append({"kind": "render", "n": max(10, n // 40), "seed": derive_seed(seed, "c01r", sh), "shrink": True})
    return specs


def run_shard(spec):
    col = Collector()
    if spec["kind"] == "main":
        strat = st.builds(lambda p, d: {"kind": "main", "program": p, "dynamic": d < 34}, pgstrat.programs(CFG), st.integers(0, 99))
        return hyp_search(strat, lambda case: check_program(case, col), col, max_examples=spec["n"], seed=spec["seed"], shrink=False, attribute=attribute, post_min=lambda c, still: pgmin.minimize(c, still, max_evals=spec.get("min_evals", 400)))
    if spec["kind"] == "render":
        return hyp_search(render_cases(), lambda case: check_render_variant(case, col), col, max_examples=spec["n"], seed=spec["seed"], shrink=False, attribute=attribute, post_min=lambda c, still: pgmin.minimize(c, still, max_evals=spec.get("min_evals", 400)))
    raise ValueError(spec["kind"])


def replay(case):
    if case.get("kind") == "render":
        return check_render_variant(case)
    return check_program(case)
