"""C16 — component assets = own class plus the bases selected by `Media.extend`.

A case is a JSON description of a class hierarchy (<= 6 component classes) plus access orders:

    {"local":   [file names that also exist next to the "pkg" module file],
     "classes": [{"bases": [earlier indices] ([] => Component),
                  "media": None (no Media attribute) | "null" (Media = None) |
                           {"js": str|list, "css": str|list|dict(type -> str|list),
                            "extend": true|false|[earlier indices]}      (every key optional),
                  "pairs": {"template"|"js"|"css": ["i", k] inline | ["f", k] `_file` form | ["b", k, k2] both},
                  "loc":   "none" (module without __file__) | "out" (module file outside COMPONENTS.dirs) |
                           "pkg" (module file inside a sub-directory of the scratch components dir),
                  "nm":    own index (a name of its own, the default) | index j of an earlier class: this class is a
                           DISTINCT class with the same `__module__`, `__name__` and `__qualname__` as class j (what one
                           factory function called twice, `type("X", ...)` in a loop or a re-defined class produce);
                           it lives in class j's module ("loc" follows j)}],
     "orders":  [[[class idx, attribute, on_instance], ...], ...]}

Every order is run on a *fresh copy* of the hierarchy (new classes, new Media classes, new module
names); each value read is compared with the reference model below, and the complete read-outs of
all copies must be identical (access-order independence).

Reference model (independent of component_media.py):
* MRO comes from Python itself (plain mirror classes built with type()).
* effective Media M(cls) = the `Media` attribute found by ordinary attribute lookup along the MRO
  (own, else inherited - Django's MediaDefiningClass rule; `Media = None` / Component's default => no files,
  extend=True).
* selected(cls) = declared bases (extend absent/True) | none (False) | the listed classes.
* media(cls) = files(M(cls)) U media(b) for b in selected(cls)   -- sets, per media type for CSS.
* order: if the union of the order relations of all contributing declared lists is acyclic, every such
  list is a subsequence of the real result.
* pair rule: value of template/js/css (and of the `_file` attribute) comes from the nearest class in the MRO
  that defines either member; the `_file` form yields the file's content; both members in one class =>
  ImproperlyConfigured (accepted at class creation or at first access of the pair).
* relative files: a name that exists next to the component's module file (loc "pkg", name in "local") is
  used as "<pkgdir>/<name>" (docs: "preference goes to resolving the files relative to the component's
  directory"), for Media entries of the class that owns the Media and for `_file` attributes.
* names play no role: the model never looks at "nm", so every class - also one that shares module and qualified
  name with another live class of the hierarchy - is judged against its OWN declaration.
"""
import itertools
import os
import sys
import types

from vf import env
from vf.core import Collector, derive_seed, exc_bucket, hyp_search, jhash, known_active

PROP = "C16"
LEVEL = "exploration"
RULE = (
    "Hierarchies of <= 6 component classes as JSON (bases = earlier classes, MRO-inconsistent base lists repaired "
    "greedily against plain Python mirror classes; Media absent / None / empty / js str|list / css str|list|dict; "
    "extend absent/True/False/list of earlier classes; 6 js + 6 css file names so sharing is common; "
    "template|template_file, js|js_file, css|css_file incl. both-in-one-class; module file outside or inside the "
    "scratch components dir with a generated subset of the files present next to it; in 2 of 5 generated hierarchies "
    "about half of the classes are DISTINCT classes carrying the __module__, __name__ and __qualname__ of an earlier "
    "class - one factory called several times / type() in a loop / a re-defined class - half of them with the name "
    "giver's bases, each with its own Media and judged against its own declaration). Each hierarchy is built as "
    "fresh classes once per access order (a base-first read-out plus 3 generated orders of .media/.js/.css/.template "
    "on classes and instances; small hierarchies: all permutations) and compared with a set/order/MRO reference "
    "model and across copies. Hierarchies of <= 3 classes over a reduced alphabet are enumerated completely, and so "
    "are the hierarchies of <= 3 classes in which at least one class shares its import path with an earlier one "
    "(enum_twin, all permutations of the first .media access on classes and instances). "
    "Non-trivial = (a diamond or a non-empty extend list) and >= 2 classes declaring the same file in the same "
    "js/css-media-type category; distinct by the hash of the normalised class list (+ local files)."
)
ASSUMPTIONS = [
    "a class without its own Media takes the effective Media, including extend, by ordinary attribute lookup (Django's rule)",
    "`Media = None` (used by the repository's own tests) means: no files, extend all bases",
    "extend lists only name classes created earlier (no cycles can be expressed); only Component subclasses, plain str paths",
    "'rejected' for a class defining both members of a pair = ImproperlyConfigured at class creation or at first access",
    "an empty string counts as a defined member of a pair (the member is not None)",
    "CSS media types whose merged list is empty are ignored when comparing",
    "file names that exist next to the component module are compared in their rewritten '<dir>/<name>' form",
    "two live classes may share module and qualified name (factory-made / re-defined classes): the statement speaks of classes, "
    "not of names, so each is judged by its own declaration; only .media/.js/.css/.template are read (nothing that goes "
    "through the name-derived class hash, i.e. no rendering of dependencies), and such classes share one module object",
]
BOUNDS = {
    "quick": {"hyp_examples": 6000, "exh_classes": 3, "exh_bodies": 4, "exh_pairs_full": 0, "exh_twin_bodies": 3, "orders_per_case": 4},
    "thorough": {"hyp_examples": 150000, "exh_classes": 3, "exh_bodies": 9, "exh_pairs_full": 1, "exh_twin_bodies": 6, "orders_per_case": 4},
}

JS_POOL = ["a.js", "b.js", "c.js", "d.js", "e.js", "f.js"]
CSS_POOL = ["a.css", "b.css", "c.css", "d.css", "e.css", "f.css"]
MEDIA_TYPES = ["all", "print", "screen"]
PAIRS = ("template", "js", "css")
PAIR_FILES = {"template": ["t0.html", "t1.html"], "js": ["s0.js", "s1.js"], "css": ["c0.css", "c1.css"]}
INLINE = {
    "template": ["<i>T0 {{ x }}</i>", "<b>T1</b>", ""],
    "js": ["console.log(0)", "console.log(1)", ""],
    "css": [".a{color:red}", ".b{}", ""],
}
ALL_FILES = JS_POOL + CSS_POOL + [f for p in PAIRS for f in PAIR_FILES[p]]
ACCESS_ATTRS = ["media", "js", "css", "template", "js_file", "css_file", "template_file"]
VALUE_ATTRS = ACCESS_ATTRS[1:]
LOCS = ("none", "out", "pkg")
MAX_CLASSES = 6


# ---------------------------------------------------------------------------
# normalisation (constructive repair): any JSON of roughly the right shape becomes a valid case


def _rejected(c):
    return any(v and v[0] == "b" for v in c["pairs"].values())


def _idx_list(v, i, rejected, limit=4):
    out = []
    for b in v if isinstance(v, list) else []:
        if isinstance(b, int) and not isinstance(b, bool) and 0 <= b < i and b not in rejected and b not in out:
            out.append(b)
    return out[:limit]


def _names(v, pool, allow_str=True):
    if isinstance(v, str):
        return v if (allow_str and v in pool) else [x for x in [v] if x in pool]
    if isinstance(v, list):
        return [x for x in v if isinstance(x, str) and x in pool][:6]
    return []


def normalize(case):
    """Canonical, always-constructible form of a case (idempotent)."""

    class Root:
        pass

    classes, mirrors, rejected = [], [], set()
    for i, c in enumerate((case.get("classes") or [])[:MAX_CLASSES]):
        bases = []
        for b in _idx_list(c.get("bases"), i, rejected):
            try:  # Python itself decides whether the base list can be linearised
                type("T", tuple(mirrors[x] for x in bases + [b]), {})
            except TypeError:
                continue
            bases.append(b)
        mirrors.append(type("M%d" % i, tuple(mirrors[x] for x in bases) or (Root,), {}))
        m = c.get("media")
        if isinstance(m, dict):
            mm = {}
            if "js" in m:
                mm["js"] = _names(m["js"], JS_POOL)
            if "css" in m:
                v = m["css"]
                if isinstance(v, dict):
                    mm["css"] = {k: _names(x, CSS_POOL) for k, x in v.items() if k in MEDIA_TYPES}
                else:
                    mm["css"] = _names(v, CSS_POOL)
            if "extend" in m:
                e = m["extend"]
                mm["extend"] = e if isinstance(e, bool) else _idx_list(e, i, rejected)
            m = mm
        elif m != "null":
            m = None
        pairs = {}
        for p in PAIRS:
            v = (c.get("pairs") or {}).get(p)
            if isinstance(v, list) and v and v[0] in ("i", "f", "b"):
                if v[0] == "i":
                    pairs[p] = ["i", int(v[1]) % len(INLINE[p])]
                elif v[0] == "f":
                    pairs[p] = ["f", int(v[1]) % 2]
                else:
                    pairs[p] = ["b", int(v[1]) % len(INLINE[p]), int(v[2]) % 2]
        loc = c.get("loc") if c.get("loc") in LOCS else "none"
        nm = c.get("nm")
        if isinstance(nm, int) and not isinstance(nm, bool) and 0 <= nm < i and nm not in rejected and classes[nm]["nm"] == nm:
            loc = classes[nm]["loc"]  # same import path = same module
        else:
            nm = i
        nc = {"bases": bases, "media": m, "pairs": pairs, "loc": loc, "nm": nm}
        if _rejected(nc):
            rejected.add(i)
        classes.append(nc)
    n = len(classes)
    orders = []
    for o in case.get("orders") or []:
        oo = []
        for a in o[:24] if isinstance(o, list) else []:
            ci, attr, inst = a
            if n and attr in ACCESS_ATTRS:
                oo.append([int(ci) % n, attr, 1 if inst else 0])
        orders.append(oo)
    local = sorted({f for f in (case.get("local") or []) if f in ALL_FILES})
    if not any(c["loc"] == "pkg" for c in classes):
        local = []
    return {"local": local, "classes": classes, "orders": orders}


# ---------------------------------------------------------------------------
# reference model


def pkg_dirname(local):
    return "p" + jhash(sorted(local))[:10]


def _acyclic(lists):
    """True iff the union of the order relations of `lists` has no cycle (Kahn)."""
    succ, indeg = {}, {}
    for lst in lists:
        for x in lst:
            succ.setdefault(x, set())
            indeg.setdefault(x, 0)
        for a, b in zip(lst, lst[1:]):
            if a != b and b not in succ[a]:
                succ[a].add(b)
                indeg[b] += 1
    ready = sorted(x for x, d in indeg.items() if d == 0)
    seen = 0
    while ready:
        x = ready.pop()
        seen += 1
        for y in sorted(succ[x]):
            indeg[y] -= 1
            if indeg[y] == 0:
                ready.append(y)
    return seen == len(indeg)


def _collapse(lst):
    out = []
    for x in lst:
        if not out or out[-1] != x:
            out.append(x)
    return out


class Model:
    """Expected values for every class of a normalised case."""

    def __init__(self, case):
        self.case = case
        cl = self.cl = case["classes"]
        n = self.n = len(cl)
        local = set(case["local"])
        pdir = self.pdir = pkg_dirname(case["local"])

        class Root:
            pass

        mirrors, idx = [], {}
        self.rejected = [_rejected(c) for c in cl]
        self.mro = []
        for i, c in enumerate(cl):
            if self.rejected[i]:
                mirrors.append(None)
                self.mro.append(None)
                continue
            m = type("M%d" % i, tuple(mirrors[b] for b in c["bases"]) or (Root,), {})
            mirrors.append(m)
            idx[m] = i
            self.mro.append([idx[k] for k in m.__mro__ if k in idx])

        def mapname(name, k):
            return "%s/%s" % (pdir, name) if (cl[k]["loc"] == "pkg" and name in local) else name

        self.mapname = mapname
        # own declared lists per class (normalised shape: js list, css dict type -> list), names rewritten
        self.own = []
        for k, c in enumerate(cl):
            m = c["media"]
            js, css = [], {}
            if isinstance(m, dict):
                v = m.get("js", [])
                js = [v] if isinstance(v, str) else list(v)
                v = m.get("css", {})
                if isinstance(v, str):
                    css = {"all": [v]}
                elif isinstance(v, list):
                    css = {"all": list(v)} if v else {}
                else:
                    css = {t: ([x] if isinstance(x, str) else list(x)) for t, x in v.items()}
            self.own.append(([mapname(x, k) for x in js], {t: [mapname(x, k) for x in lst] for t, lst in css.items()}))

        self.owner, self.selected = [], []
        for i, c in enumerate(cl):
            if self.rejected[i]:
                self.owner.append(None)
                self.selected.append([])
                continue
            owner = next((k for k in self.mro[i] if cl[k]["media"] is not None), None)
            self.owner.append(owner)
            ext = True
            if owner is not None and isinstance(cl[owner]["media"], dict):
                ext = cl[owner]["media"].get("extend", True)
            self.selected.append(list(c["bases"]) if ext is True else ([] if ext is False else list(ext)))

        # contributing declared lists, transitively (memoised; indices only point backwards)
        self.contrib = []  # per class: list of class indices whose own lists contribute (with repetition removed)
        for i in range(n):
            if self.rejected[i]:
                self.contrib.append([])
                continue
            acc = []
            if self.owner[i] is not None:
                acc.append(self.owner[i])
            for b in self.selected[i]:
                for k in self.contrib[b]:
                    if k not in acc:
                        acc.append(k)
            self.contrib.append(acc)

        self.js_lists, self.css_lists, self.js_set, self.css_sets = [], [], [], []
        self.js_acyclic, self.css_acyclic = [], []
        for i in range(n):
            jl = [self.own[k][0] for k in self.contrib[i] if self.own[k][0]]
            cls_ = {}
            for k in self.contrib[i]:
                for t, lst in self.own[k][1].items():
                    if lst:
                        cls_.setdefault(t, []).append(lst)
            self.js_lists.append(jl)
            self.css_lists.append(cls_)
            self.js_set.append({x for lst in jl for x in lst})
            self.css_sets.append({t: {x for lst in ll for x in lst} for t, ll in cls_.items()})
            self.js_acyclic.append(_acyclic(jl))
            self.css_acyclic.append({t: _acyclic(ll) for t, ll in cls_.items()})

        # pair rule
        self.values = []
        for i in range(n):
            vals = {}
            if not self.rejected[i]:
                for p in PAIRS:
                    inline = fname = None
                    for k in self.mro[i]:
                        spec = cl[k]["pairs"].get(p)
                        if spec:
                            if spec[0] == "i":
                                inline = INLINE[p][spec[1]]
                            else:
                                raw = PAIR_FILES[p][spec[1]]
                                fname = mapname(raw, k)
                                inline = ("PKG:" if fname != raw else "ROOT:") + raw
                            break
                    vals[p] = inline
                    vals[p + "_file"] = fname
            self.values.append(vals)

    # -- classification ---------------------------------------------------
    def features(self):
        cl, n = self.cl, self.n
        live = [i for i in range(n) if not self.rejected[i]]
        # diamond: some ancestor reachable over two different base paths
        paths = []
        diamond = False
        for i in range(n):
            cnt = {}
            for b in cl[i]["bases"]:
                cnt[b] = cnt.get(b, 0) + 1
                for a, k in paths[b].items():
                    cnt[a] = cnt.get(a, 0) + k
            paths.append(cnt)
            if i in live and any(v >= 2 for v in cnt.values()):
                diamond = True
        ext_list = any(isinstance(cl[i]["media"], dict) and isinstance(cl[i]["media"].get("extend"), list) and cl[i]["media"]["extend"] for i in live)
        ext_false = any(isinstance(cl[i]["media"], dict) and cl[i]["media"].get("extend") is False for i in live)
        seen, shared = {}, False
        for k in live:
            js, css = self.own[k]
            cats = {("js", x) for x in js} | {(t, x) for t, lst in css.items() for x in lst}
            for c in cats:
                if c in seen and seen[c] != k:
                    shared = True
                seen.setdefault(c, k)
        inherited_ctl = any(
            self.owner[i] is not None
            and self.owner[i] != i
            and isinstance(cl[self.owner[i]]["media"], dict)
            and cl[self.owner[i]]["media"].get("extend", True) is not True
            for i in live
        )
        # distinct live classes with one import path (same module, same qualified name)
        twins = [(i, cl[i]["nm"]) for i in live if cl[i]["nm"] != i and cl[i]["nm"] in live]

        def merged(i):
            return (sorted(self.js_set[i]), sorted((t, sorted(v)) for t, v in self.css_sets[i].items()), self.selected[i])

        twin_set = {i for i, _ in twins} | {j for _, j in twins}
        return {
            "same_name": bool(twins),
            "same_name_differs": any(merged(i) != merged(j) for i, j in twins),
            "same_name_is_base": any(b in twin_set for i in live for b in self.selected[i]),
            "diamond": diamond,
            "ext_list": ext_list,
            "ext_false": ext_false,
            "shared": shared,
            "inherited_ctl": inherited_ctl,
            "multi_base": any(len(cl[i]["bases"]) >= 2 for i in live),
            "rejected": any(self.rejected),
            "pkg": any(cl[i]["loc"] == "pkg" for i in live),
            "rel_rewrite": any(x.startswith(self.pdir + "/") for i in live for x in (self.js_set[i] | {y for s in self.css_sets[i].values() for y in s} | {v for a, v in self.values[i].items() if a.endswith("_file") and v})),
            "pair_inherit": any(
                self.values[i].get(p) is not None and not cl[i]["pairs"].get(p) for i in live for p in PAIRS
            ),
            "order_checked": any(self.js_acyclic[i] and len(self.js_lists[i]) >= 2 for i in live),
            "order_cyclic": any(not self.js_acyclic[i] for i in live),
            "css_types": any(len(self.css_sets[i]) >= 2 for i in live),
        }


# ---------------------------------------------------------------------------
# building real classes

_uid = itertools.count(1)
_dirs_done = set()


def _ensure_root():
    root = os.path.join(env.SCRATCH, "components")
    if ("root", root) not in _dirs_done:
        for p in PAIRS:
            for f in PAIR_FILES[p]:
                env.write_file(f, "ROOT:" + f, kind="components")
        _dirs_done.add(("root", root))
    return root


def _ensure_files(local):
    root = _ensure_root()
    pdir = pkg_dirname(local)
    if (pdir, root) not in _dirs_done:
        os.makedirs(os.path.join(root, pdir), exist_ok=True)
        for f in local:
            env.write_file(os.path.join(pdir, f), "PKG:" + f, kind="components")
        _dirs_done.add((pdir, root))
    return os.path.join(root, pdir)


class _Copy:
    """One fresh construction of the hierarchy."""

    def __init__(self, case):
        self.case = case
        self.tag = "%d_%d" % (os.getpid(), next(_uid))
        self.modules = {}
        self.real = []
        _ensure_root()

    def modname(self, loc):
        if loc not in self.modules:
            name = "vfc16_%s_%s" % (self.tag, loc)
            mod = types.ModuleType(name)
            if loc == "none":
                mod.__file__ = None
            elif loc == "out":
                mod.__file__ = "/nonexistent/vfc16/%s.py" % name
            else:
                mod.__file__ = os.path.join(_ensure_files(self.case["local"]), "comp_%s.py" % self.tag)
            sys.modules[name] = mod
            self.modules[loc] = name
        return self.modules[loc]

    def cleanup(self):
        for name in self.modules.values():
            sys.modules.pop(name, None)

    def build(self, fails):
        """Create the classes; returns False when construction itself failed the oracle."""
        from django.core.exceptions import ImproperlyConfigured

        from django_components import Component

        for i, c in enumerate(self.case["classes"]):
            # "nm" = index of the class whose name this one carries (its own index unless it is a same-named twin)
            attrs = {"__module__": self.modname(c["loc"]), "__qualname__": "C16_%s_K%d" % (self.tag, c["nm"])}
            m = c["media"]
            if m == "null":
                attrs["Media"] = None
            elif m is not None:
                body = {}
                if "js" in m:
                    body["js"] = m["js"] if isinstance(m["js"], str) else list(m["js"])
                if "css" in m:
                    v = m["css"]
                    if isinstance(v, dict):
                        body["css"] = {t: (x if isinstance(x, str) else list(x)) for t, x in v.items()}
                    else:
                        body["css"] = v if isinstance(v, str) else list(v)
                if "extend" in m:
                    e = m["extend"]
                    body["extend"] = e if isinstance(e, bool) else [self.real[x] for x in e]
                attrs["Media"] = type("Media", (), body)
            both = []
            for p, spec in c["pairs"].items():
                if spec[0] == "i":
                    attrs[p] = INLINE[p][spec[1]]
                elif spec[0] == "f":
                    attrs[p + "_file"] = PAIR_FILES[p][spec[1]]
                else:
                    attrs[p] = INLINE[p][spec[1]]
                    attrs[p + "_file"] = PAIR_FILES[p][spec[2]]
                    both.append(p)
            bases = tuple(self.real[b] for b in c["bases"]) or (Component,)
            try:
                cls = type("K%d" % c["nm"], bases, attrs)
            except ImproperlyConfigured as e:
                if both:
                    self.real.append(None)
                    continue
                fails.append(("creating class %d raised %r although no pair is defined twice" % (i, e), "create-exc:" + exc_bucket(e)))
                return False
            except Exception as e:  # noqa
                fails.append(("creating class %d raised %r" % (i, e), "create-exc:" + exc_bucket(e)))
                return False
            if both:
                # accepted alternative reading of "is rejected": the first access of the pair raises
                for p in both:
                    for attr in (p, p + "_file"):
                        try:
                            getattr(cls, attr)
                        except ImproperlyConfigured:
                            continue
                        except Exception as e:  # noqa
                            fails.append(("class %d defines %s and %s_file; access raised %r instead of ImproperlyConfigured" % (i, p, p, e), "both-wrong-exc"))
                            return False
                        fails.append(("class %d defines both %s and %s_file but neither class creation nor reading .%s raised ImproperlyConfigured" % (i, p, p, attr), "both-not-rejected"))
                        return False
                self.real.append(None)
                continue
            self.real.append(cls)
        return True


# ---------------------------------------------------------------------------
# oracle


def _strip(pdir, x):
    return x[len(pdir) + 1 :] if isinstance(x, str) and x.startswith(pdir + "/") else x


def _cmp_list(kind, real, want_set, lists, acyclic, pdir, where, fails):
    if len(real) != len(set(real)):
        fails.append(("%s: %s contains a file twice: %r" % (where, kind, real), "media-dup"))
        return False
    if set(real) != want_set:
        if {_strip(pdir, x) for x in real} == {_strip(pdir, x) for x in want_set}:
            fails.append(
                ("%s: %s = %r, expected the files %r (names of files that exist next to the component module are not rewritten / rewritten differently)" % (where, kind, real, sorted(want_set)), "relpath-access-order")
            )
        else:
            fails.append(("%s: %s = %r, model says exactly the files %r" % (where, kind, real, sorted(want_set)), "media-set"))
        return False
    if acyclic:
        pos = {x: i for i, x in enumerate(real)}
        for lst in lists:
            cl = _collapse(lst)
            if any(pos[a] >= pos[b] for a, b in zip(cl, cl[1:])):
                fails.append(
                    ("%s: %s = %r is not consistent with the declared list %r although all contributing declared lists %r are mutually consistent" % (where, kind, real, lst, lists), "media-order")
                )
                return False
    return True


def _cmp_media(model, i, media, where, fails):
    pdir = model.pdir
    try:
        js = list(media._js)
        css = {t: list(v) for t, v in media._css.items() if v}
    except Exception as e:  # noqa
        fails.append(("%s: reading media._js/_css raised %r" % (where, e), "access-exc:" + exc_bucket(e)))
        return None
    ok = _cmp_list("media._js", js, model.js_set[i], model.js_lists[i], model.js_acyclic[i], pdir, where, fails)
    if ok:
        want = model.css_sets[i]
        if set(css) != set(want):
            fails.append(("%s: media._css has media types %r, model %r" % (where, sorted(css), sorted(want)), "media-set"))
            ok = False
        else:
            for t in sorted(css):
                if not _cmp_list("media._css[%r]" % t, css[t], want[t], model.css_lists[i][t], model.css_acyclic[i][t], pdir, where, fails):
                    ok = False
                    break
    return {"js": js, "css": css} if ok else None


def _cmp_value(model, i, attr, value, where, fails):
    want = model.values[i][attr]
    if value == want:
        return True
    if attr.endswith("_file") and _strip(model.pdir, value) == _strip(model.pdir, want):
        bucket = "relpath-access-order"
    else:
        bucket = "pair:" + attr.replace("_file", "")
    fails.append(("%s: .%s = %r, pair rule (nearest class in the MRO %r defining either member) says %r" % (where, attr, value, model.mro[i], want), bucket))
    return False


def _cname(case, i):
    """Reporting name: classes are always referred to by their index; a same-named twin says whose name it carries."""
    nm = case["classes"][i]["nm"]
    return "K%d" % i if nm == i else "K%d(a distinct class named like K%d)" % (i, nm)


def run_copy(case, model, order, fails):
    """Build a fresh copy, perform `order`, then read everything. Returns the read-out or None."""
    cp = _Copy(case)
    try:
        if not cp.build(fails):
            return None
        for step, (ci, attr, inst) in enumerate(order):
            cls = cp.real[ci]
            if cls is None:
                continue
            where = "order step %d (%s.%s%s)" % (step, _cname(case, ci), attr, " on an instance" if inst else "")
            try:
                obj = cls() if inst else cls
                v = getattr(obj, attr)
            except Exception as e:  # noqa
                fails.append(("%s raised %r" % (where, e), "access-exc:" + exc_bucket(e)))
                return None
            if attr == "media":
                if _cmp_media(model, ci, v, where, fails) is None:
                    return None
            elif not _cmp_value(model, ci, attr, v, where, fails):
                return None
        out = []
        for i, cls in enumerate(cp.real):
            if cls is None:
                out.append(None)
                continue
            where = "read-out of %s after order %r" % (_cname(case, i), order)
            try:
                media = cls.media
                vals = {a: getattr(cls, a) for a in VALUE_ATTRS}
            except Exception as e:  # noqa
                fails.append(("%s raised %r" % (where, e), "access-exc:" + exc_bucket(e)))
                return None
            rec = _cmp_media(model, i, media, where, fails)
            if rec is None:
                return None
            for a in VALUE_ATTRS:
                if not _cmp_value(model, i, a, vals[a], where, fails):
                    return None
            rec["vals"] = vals
            out.append(rec)
        return out
    finally:
        cp.cleanup()


def check_case(case):
    """Returns (fails, model). `case` must be normalised."""
    from django_components import component_media

    model = Model(case)
    fails = []
    outs = []
    try:
        for order in [[]] + list(case["orders"]):
            out = run_copy(case, model, order, fails)
            if out is None:
                break
            outs.append((order, out))
        if not fails:
            o0, base = outs[0]
            for order, out in outs[1:]:
                if out != base:
                    i = next(k for k in range(len(base)) if out[k] != base[k])
                    a, b = dict(base[i]), dict(out[i])
                    a.pop("vals"), b.pop("vals")
                    fails.append(
                        ("class %s: results differ between access orders: base-first read-out gives %r, after order %r it is %r" % (_cname(case, i), a if a != b else base[i]["vals"], order, b if a != b else out[i]["vals"]), "access-order")
                    )
                    break
    finally:
        # the memo is process-global and keyed by class object: drop this case's classes
        component_media.media_cache.clear()
    return fails, model


def _labels(case, f):
    lb = ["n=%d" % len(case["classes"])]
    lb += [k for k, v in f.items() if v]
    return tuple(lb)


def _record(col, case, model, part):
    f = model.features()
    nt = (f["diamond"] or f["ext_list"]) and f["shared"]
    key = jhash([case["classes"], case["local"]]) if nt else None
    col.case(key, nt, sample=case if nt else None, labels=(part,) + _labels(case, f) + (("nontrivial",) if nt else ()))


def attribute(case, message, bucket):
    known = known_active(PROP)
    if bucket == "media-order" and "C16-D1" in known:
        return "C16-D1"
    if bucket == "relpath-access-order" and "C16-D2" in known:
        return "C16-D2"
    if bucket.startswith("access-exc:AttributeError") and "C16-D3" in known:
        if any(isinstance(c.get("media"), dict) and c["media"].get("css") == [] for c in case.get("classes", [])):
            return "C16-D3"
    return None


def replay(case):
    return check_case(normalize(case))[0]


# ---------------------------------------------------------------------------
# exhaustive sub-domains

BODIES = [
    {},
    {"js": "a.js"},
    {"js": ["b.js", "a.js"]},
    {"js": ["b.js"], "css": ["a.css", "b.css"]},
    {"css": {"all": ["b.css", "a.css"], "print": "a.css"}},
    {"js": ["a.js", "b.js"]},
    {"css": "a.css"},
    {"js": ["a.js", "a.js"], "css": {"print": ["a.css"]}},
    {"js": [], "css": {}},
]


def _base_opts(i):
    return [[]] + [[b] for b in range(i)] + [list(p) for p in itertools.permutations(range(i), 2)]


def _ext_opts(i):
    return [None, False] + [[b] for b in range(i)] + [list(p) for p in itertools.permutations(range(i), 2)]


def enum_media(n, nbodies):
    """All hierarchies of exactly n classes over the reduced Media alphabet (flat layout)."""

    def opts(i):
        medias = [None, "null", {"js": ["a.js"], "extend": True}]
        for body in BODIES[:nbodies]:
            for e in _ext_opts(i):
                medias.append(dict(body) if e is None else dict(body, extend=e))
        return [(b, m) for b in _base_opts(i) for m in medias]

    for combo in itertools.product(*[opts(i) for i in range(n)]):
        raw = {"classes": [{"bases": b, "media": m, "pairs": {}, "loc": "out" if i % 2 else "none"} for i, (b, m) in enumerate(combo)]}
        case = normalize(raw)
        if any(c["bases"] != r["bases"] for c, r in zip(case["classes"], raw["classes"])):
            continue  # repaired base list: identical to another enumerated hierarchy
        case["orders"] = [[[c, "media", 0] for c in p] for p in itertools.permutations(range(n))][1:]
        yield case


def enum_chain():
    """Order clause on deeper shapes: two sources K0, K1, a merger K2 (either base order, optional own list), a
    pass-through K3(K2) (no Media / Media = None / empty Media / extend=[K2] only), a third source K4 and a leaf K5 with
    the bases K3 and K4 in either order (optional own list), over the files a.js, b.js: 4*4*2*3*4*4*2*2 = 6144
    hierarchies, read leaf-first and base-first. (An intermediate flattening of K2's or K3's lists turns the tie-break
    between independent lists into a constraint that contradicts K4's list.)"""
    lists = [["a.js"], ["b.js"], ["a.js", "b.js"], ["b.js", "a.js"]]
    passthrough = [None, "null", {}, {"extend": [2]}]
    for l0, l1, o2, m2, m3, l4, o5, m5 in itertools.product(
        lists, lists, ([0, 1], [1, 0]), (None, {"js": ["a.js"]}, {"js": ["b.js"]}), passthrough, lists, ([3, 4], [4, 3]), (None, {"js": ["a.js", "b.js"]})
    ):
        classes = [
            {"bases": [], "media": {"js": l0}, "pairs": {}, "loc": "none"},
            {"bases": [], "media": {"js": l1}, "pairs": {}, "loc": "none"},
            {"bases": o2, "media": m2, "pairs": {}, "loc": "none"},
            {"bases": [2], "media": m3, "pairs": {}, "loc": "none"},
            {"bases": [], "media": {"js": l4}, "pairs": {}, "loc": "none"},
            {"bases": o5, "media": m5, "pairs": {}, "loc": "none"},
        ]
        case = normalize({"classes": classes})
        case["orders"] = [[[5, "media", 0]], [[3, "media", 0], [5, "media", 0]]]
        yield case


PAIR_OPTS = {
    "template": [None, ["i", 0], ["f", 0], ["b", 1, 1]],
    "js": [None, ["i", 1], ["f", 1]],
    "css": [None, ["f", 0], ["i", 2]],
}


def enum_pairs(n, full):
    """All hierarchies of exactly n classes over the reduced pair alphabet.

    full: template x js x css options per class (36); otherwise template x js (12) with the css option a fixed
    function of the two (the three pairs go through the same rule, the cross product adds little).
    """
    T, J, C = PAIR_OPTS["template"], PAIR_OPTS["js"], PAIR_OPTS["css"]

    def opts(i):
        res = []
        for b in _base_opts(i):
            for ti, ji in itertools.product(range(len(T)), range(len(J))):
                for ci in range(len(C)) if full else [(ti + ji + i) % len(C)]:
                    res.append((b, {k: v for k, v in (("template", T[ti]), ("js", J[ji]), ("css", C[ci])) if v}))
        return res

    for combo in itertools.product(*[opts(i) for i in range(n)]):
        raw = {"classes": [{"bases": b, "media": None, "pairs": p, "loc": "none"} for b, p in combo]}
        case = normalize(raw)
        if any(c["bases"] != r["bases"] for c, r in zip(case["classes"], raw["classes"])):
            continue
        case["orders"] = [
            [a for c in p for a in ([c, "template", 1], [c, "js", 0], [c, "css_file", 0])] for p in itertools.permutations(range(n))
        ][-2:]
        yield case


PKG_MEDIA = [None, {"js": ["a.js", "b.js"]}, {"js": "b.js", "css": "a.css", "extend": False}]
PKG_LOCAL = [[], ["a.js"], ["t0.html"], ["a.css", "a.js", "b.js", "t0.html"]]


def enum_pkg(n):
    """Hierarchies of n <= 2 classes living next to their files; all permutations of the first accesses."""

    def opts(i):
        return [
            (b, m, t, loc)
            for b in _base_opts(i)
            for m in PKG_MEDIA
            for t in (None, ["f", 0], ["i", 0])
            for loc in ("pkg", "out")
        ]

    firsts = [[c, a, inst] for c in range(n) for a, inst in (("media", 0), ("template", 1))]
    orders = [list(p) for p in itertools.permutations(firsts)]
    for local in PKG_LOCAL:
        for combo in itertools.product(*[opts(i) for i in range(n)]):
            raw = {
                "local": local,
                "classes": [{"bases": b, "media": m, "pairs": ({"template": t} if t else {}), "loc": loc} for b, m, t, loc in combo],
            }
            case = normalize(raw)
            if case["local"] != local:
                continue  # no class in the package directory: same as local == []
            case["orders"] = orders
            yield case


EDGE_MEDIA = [None, {"css": []}, {"js": "a.js", "css": []}, {"css": "a.css"}, {"js": ["b.js", "a.js"], "extend": False}]


def enum_edge(n):
    """`css = []` (the list form without entries): every hierarchy of n <= 2 classes containing it."""
    for combo in itertools.product(*[[(b, m) for b in _base_opts(i) for m in EDGE_MEDIA] for i in range(n)]):
        if not any(isinstance(m, dict) and m.get("css") == [] for _, m in combo):
            continue
        case = normalize({"classes": [{"bases": b, "media": m, "pairs": {}, "loc": "none"} for b, m in combo]})
        case["orders"] = [[[c, "media", 1] for c in reversed(range(n))]]
        yield case


TWIN_MEDIA = [
    None,
    {"js": ["a.js"]},
    {"js": ["b.js"], "extend": False},
    {"js": ["b.js", "a.js"], "css": "a.css"},
    {"css": {"print": ["a.css"]}, "extend": True},
    "null",
]


def enum_twin(n, nbodies):
    """Distinct classes sharing one import path: every hierarchy of exactly n <= 3 classes over the reduced alphabet
    TWIN_MEDIA[:nbodies] (+ one extend list per earlier class) in which at least one class carries the module and
    qualified name of an earlier one; all permutations of the first access of `.media`."""

    def opts(i):
        medias = list(TWIN_MEDIA[:nbodies]) + [{"js": ["c.js"], "extend": [b]} for b in range(i)]
        return [(b, m, nm) for b in _base_opts(i) for m in medias for nm in [i] + list(range(i))]

    for combo in itertools.product(*[opts(i) for i in range(n)]):
        if all(nm == i for i, (_, _, nm) in enumerate(combo)):
            continue
        raw = {"classes": [{"bases": b, "media": m, "pairs": {}, "loc": "out" if i % 2 else "none", "nm": nm} for i, (b, m, nm) in enumerate(combo)]}
        case = normalize(raw)
        if any(c["bases"] != r["bases"] or c["nm"] != r["nm"] for c, r in zip(case["classes"], raw["classes"])):
            continue  # repaired base list / name reference: identical to another enumerated hierarchy
        case["orders"] = [[[c, "media", c % 2] for c in p] for p in itertools.permutations(range(n))][1:]
        yield case


# ---------------------------------------------------------------------------
# Hypothesis strategy


def _w(st, *pairs):
    """Weighted choice between constants: _w(st, ("a", 3), ("b", 1))."""
    return st.sampled_from([v for v, k in pairs for _ in range(k)])


def case_strategy(pkg, n_orders=3):
    from hypothesis import strategies as st

    @st.composite
    def cases(draw):
        n = draw(_w(st, (1, 1), (2, 1), (3, 2), (4, 3), (5, 3), (6, 4)))
        width = draw(_w(st, (2, 2), (3, 3), (4, 2), (6, 2)))  # names actually used: sharing is the rule
        jsn = st.sampled_from(JS_POOL[:width])
        cssn = st.sampled_from(CSS_POOL[:width])

        # "ordered" hierarchies: every declared list is a sub-sequence of one global order of the pool, so all lists
        # are mutually consistent by construction and the order clause is judged on every class (deep chains with
        # pass-through classes, where an intermediate flattening would turn a tie-break into a constraint)
        ordered = draw(_w(st, (1, 2), (0, 3)))

        def names(elem, lo=0):
            k = draw(_w(st, (0, 1), (1, 4), (2, 6), (3, 4), (4, 2)))
            k = max(k, lo)
            if ordered:
                k = min(max(k, 1), 2, width)
                lst = draw(st.lists(elem, min_size=k, max_size=k, unique=True))
                pool = JS_POOL + CSS_POOL
                return sorted(lst, key=pool.index)
            if draw(_w(st, (1, 6), (0, 1))):  # mostly duplicate-free lists (Hypothesis likes repeating elements)
                k = min(k, width)
                return draw(st.lists(elem, min_size=k, max_size=k, unique=True))
            return draw(st.lists(elem, min_size=k, max_size=k))

        def idx_list(i, lo):
            k = min(i, max(lo, draw(_w(st, (0, 1), (1, 5), (2, 5), (3, 2)))))
            return draw(st.lists(st.integers(0, i - 1), unique=True, min_size=k, max_size=k)) if i else []

        # "factory" hierarchies: some classes are distinct classes carrying the module + qualified name of an earlier
        # one (one factory called several times, type() in a loop, a re-defined class), usually with another Media
        factory = draw(_w(st, (1, 2), (0, 3)))

        classes = []
        for i in range(n):
            c = {"bases": idx_list(i, 0) if draw(_w(st, (1, 9), (0, 1))) else []}
            if factory and i and draw(_w(st, (1, 1), (0, 1))):
                j = draw(st.integers(0, i - 1))
                c["nm"] = j = classes[j].get("nm", j)
                if draw(_w(st, (1, 1), (0, 1))):  # the factory idiom: same bases, another Media
                    c["bases"] = list(classes[j]["bases"])
            mk = draw(_w(st, ("absent", 3), ("null", 1), ("empty", 1), ("full", 11)))
            if mk == "absent":
                c["media"] = None
            elif mk == "null":
                c["media"] = "null"
            else:
                m = {}
                if mk == "full":
                    jk = draw(_w(st, ("absent", 2), ("str", 2), ("list", 6)))
                    if jk == "str":
                        m["js"] = draw(jsn)
                    elif jk == "list":
                        m["js"] = names(jsn)
                    ck = draw(_w(st, ("absent", 4), ("str", 1), ("list", 2), ("dict", 3)))
                    if ck == "str":
                        m["css"] = draw(cssn)
                    elif ck == "list":
                        m["css"] = names(cssn, lo=1)  # `css = []` lives in the enum_edge sub-domain
                    elif ck == "dict":
                        types_ = draw(st.lists(st.sampled_from(MEDIA_TYPES), unique=True, max_size=3))
                        m["css"] = {t: (draw(cssn) if draw(_w(st, (0, 3), (1, 1))) else names(cssn)) for t in types_}
                ek = draw(_w(st, ("absent", 4), ("true", 1), ("false", 2), ("list", 5)))
                if ek == "true":
                    m["extend"] = True
                elif ek == "false":
                    m["extend"] = False
                elif ek == "list":
                    m["extend"] = idx_list(i, draw(_w(st, (1, 7), (0, 1))))
                c["media"] = m
            pairs = {}
            for p in PAIRS:
                pk = draw(_w(st, ("none", 5), ("i", 2), ("f", 2)))
                if pk == "i":
                    pairs[p] = ["i", draw(_w(st, (0, 3), (1, 3), (2, 1)))]
                elif pk == "f":
                    pairs[p] = ["f", draw(st.integers(0, 1))]
            if draw(_w(st, (0, 39), (1, 1))):  # rare: a class that must be rejected
                pairs[draw(st.sampled_from(PAIRS))] = ["b", draw(st.integers(0, 2)), draw(st.integers(0, 1))]
            c["pairs"] = pairs
            c["loc"] = draw(_w(st, ("pkg", 4), ("out", 1), ("none", 1))) if pkg else draw(st.sampled_from(LOCS[:2]))  # twins: loc of the name giver
            classes.append(c)
        access = st.tuples(
            st.integers(0, n - 1),
            _w(st, ("media", 4), ("js", 1), ("css", 1), ("template", 2), ("js_file", 1), ("template_file", 1)),
            st.integers(0, 1),
        ).map(list)
        orders = draw(st.lists(st.lists(access, min_size=1, max_size=10), min_size=n_orders, max_size=n_orders))
        local = []
        if pkg:
            used = JS_POOL[:width] + CSS_POOL[:width] + [f for p in PAIRS for f in PAIR_FILES[p]]
            local = draw(st.lists(st.sampled_from(used), unique=True, max_size=len(used)))
        return normalize({"local": local, "classes": classes, "orders": orders})

    return cases()


# ---------------------------------------------------------------------------
# plan / shards

SHARDS = {
    "quick": {"enum_media": 12, "enum_pairs": 3, "enum_pkg": 4, "enum_twin": 3, "hyp_flat": 10, "hyp_pkg": 6},
    "thorough": {"enum_media": 16, "enum_pairs": 8, "enum_pkg": 2, "enum_twin": 8, "hyp_flat": 14, "hyp_pkg": 7},
}
HYP_CHUNK = 2500  # examples per Hypothesis run inside one shard (bounds the memory of Hypothesis' choice tree)


# coverage-guided stage (atheris drives these Hypothesis shards, see vf/run.py): {tier: {shard kind: (shards, executions)}}
CG = {'thorough': {'hyp': (6, 8000)}}


def plan(tier, seed, scale=1.0):
    b, sh_n = BOUNDS[tier], SHARDS[tier]
    specs = []
    # the Hypothesis shards are the longest ones: schedule them first
    n = max(32, int(b["hyp_examples"] * scale))
    nflat = (n * 2) // 3
    for sh in range(sh_n["hyp_flat"]):
        specs.append({"kind": "hyp", "pkg": 0, "n": max(1, nflat // sh_n["hyp_flat"]), "seed": derive_seed(seed, "flat", sh)})
    for sh in range(sh_n["hyp_pkg"]):
        specs.append({"kind": "hyp", "pkg": 1, "n": max(1, (n - nflat) // sh_n["hyp_pkg"]), "seed": derive_seed(seed, "pkg", sh)})
    for sh in range(sh_n["enum_media"]):
        specs.append({"kind": "enum_media", "shard": sh, "of": sh_n["enum_media"], "nmax": b["exh_classes"], "bodies": b["exh_bodies"]})
    for sh in range(sh_n["enum_pairs"]):
        specs.append({"kind": "enum_pairs", "shard": sh, "of": sh_n["enum_pairs"], "nmax": b["exh_classes"], "full": b["exh_pairs_full"]})
    for sh in range(sh_n["enum_pkg"]):
        specs.append({"kind": "enum_pkg", "shard": sh, "of": sh_n["enum_pkg"]})
    for sh in range(sh_n["enum_twin"]):
        specs.append({"kind": "enum_twin", "shard": sh, "of": sh_n["enum_twin"], "nmax": b["exh_classes"], "bodies": b["exh_twin_bodies"]})
    specs.append({"kind": "enum_edge", "shard": 0, "of": 1})
    for sh in range(4):
        specs.append({"kind": "enum_chain", "shard": sh, "of": 4})
    return specs


def _run_enum(col, gen, spec, part):
    """Enumerated shard: known findings are counted, other failures recorded (one per bucket)."""
    buckets = set()
    for k, case in enumerate(gen):
        if k % spec["of"] != spec["shard"]:
            continue
        fails, model = check_case(case)
        _record(col, case, model, part)
        for m, bk in fails:
            fid = attribute(case, m, bk)
            if fid:
                col.fail(case, m, bk, finding=fid)
            elif bk not in buckets:  # enumeration order is size-ordered: the first hit is the smallest
                buckets.add(bk)
                col.fail(case, m, bk)
    col.exhaustive = True
    return col


def run_shard(spec):
    col = Collector()
    kind = spec["kind"]
    if kind == "enum_media":
        gen = itertools.chain.from_iterable(enum_media(n, spec["bodies"]) for n in range(1, spec["nmax"] + 1))
        return _run_enum(col, gen, spec, "enum_media")
    if kind == "enum_pairs":
        gen = itertools.chain.from_iterable(enum_pairs(n, spec["full"]) for n in range(1, spec["nmax"] + 1))
        return _run_enum(col, gen, spec, "enum_pairs")
    if kind == "enum_pkg":
        gen = itertools.chain.from_iterable(enum_pkg(n) for n in (1, 2))
        return _run_enum(col, gen, spec, "enum_pkg")
    if kind == "enum_edge":
        gen = itertools.chain.from_iterable(enum_edge(n) for n in (1, 2))
        return _run_enum(col, gen, spec, "enum_edge")
    if kind == "enum_twin":
        gen = itertools.chain.from_iterable(enum_twin(n, spec["bodies"]) for n in range(2, spec["nmax"] + 1))
        return _run_enum(col, gen, spec, "enum_twin")
    if kind == "enum_chain":
        return _run_enum(col, enum_chain(), spec, "enum_chain")
    if kind == "hyp":
        part = "hyp_pkg" if spec["pkg"] else "hyp_flat"

        def check(case):
            fails, model = check_case(case)
            _record(col, case, model, part)
            return fails

        done = k = 0
        while done < spec["n"] and not col.failures and not col.errors:
            m = min(HYP_CHUNK, spec["n"] - done)
            sd = spec["seed"] if k == 0 else derive_seed(spec["seed"], "chunk", k)
            hyp_search(case_strategy(bool(spec["pkg"])), check, col, max_examples=m, seed=sd, attribute=attribute)
            done += m
            k += 1
        return col
    raise ValueError(kind)
