"""C08 — render_dependencies only strips markers and inserts tags where documented.

A document is a JSON list of segments (text, look-alikes, end tags, placeholders, marker comments).  The
assembled string is scanned by the harness' own tokenizer (exact marker / placeholder strings as emitted by
the library, `</head>`/`</body>` end tags) and a structural model computes the expected output from the
input alone: delete markers and placeholders, substitute C/J at placeholders, otherwise insert C before the
first `</head>` and J before the last `</body>` of the input, otherwise nothing; fragment: append J.
C and J (the generated tag strings; their *content* belongs to property C04) come from a placeholder-only
reference call on the same marker sequence.

Parts:  rd  – render_dependencies on str / bytes / SafeString x document / fragment
        mw  – ComponentDependencyMiddleware (sync and async) with html / non-html / streaming responses
        enum – all token sequences up to a length bound over a 6-token alphabet (exhaustive sub-domain)
"""
import asyncio
import itertools
import re

from vf import env
from vf.core import Collector, derive_seed, exc_bucket, guarded, hyp_search, jhash, known_active

PROP = "C08"
LEVEL = "exploration"
RULE = (
    "Documents = lists of <= 14 (quick) / 24 (thorough) segments drawn (swarm style: a random subset of segment kinds is "
    "enabled per document) from: arbitrary text (full Unicode minus surrogates, plus an alphabet rich in '<', '/', '%', "
    "'!', '-', quotes, whitespace incl. NBSP/VT/U+2028, 2-4 byte characters, HTML snippets and halves of end tags), "
    "look-alikes of end tags / placeholders / markers, `</head>` / `</body>` end tags with whitespace and case variants, "
    "the CSS/JS placeholder strings exactly as the library emits them (page level, inside a component, as component root "
    "with one data-djc-id attribute) and marker comments of 4 real registered component classes (js+css+Media, js only, "
    "css+Media.css, no assets); every document is passed as str, bytes (utf-8) and SafeString, type='document' and "
    "type='fragment' (6 calls per document) and compared with a structural model of the property; a second part sends "
    "documents through ComponentDependencyMiddleware (sync + async; text/html, other content types, missing header, "
    "StreamingHttpResponse); a third part enumerates ALL token sequences up to the length bound over "
    "{x, </head>, </body>, css-placeholder, js-placeholder, marker}. evaluations = documents (each = 6 calls, or 1 "
    "middleware pass). Non-trivial = document with >= 1 real marker and (>= 2 end tags or >= 1 placeholder); distinct by "
    "hash of the assembled document string."
)
ASSUMPTIONS = [
    "bytes inputs are UTF-8 or (render_dependencies part) latin-1 encodings of the document; str inputs contain no lone surrogates",
    "end tags whose inner whitespace is not HTML whitespace (VT, NBSP, other Unicode spaces) may be read either as tags or as "
    "text (docs are silent): every consistent reading is accepted; upper / mixed-case end tags are definite end tags",
    "only marker comments exactly as emitted for live component classes are markers; strings that merely resemble "
    "markers/placeholders (`<!-- _RENDERED foo -->`, placeholders with extra/other attributes, two id attributes -> C04) "
    "are outside the domain: documents containing such a string, or in which deleting markers/placeholders splices a new "
    "token together, are executed but not judged (label ood_*)",
    "generated component JS/CSS never contains `</head`, `</body`, `</script`, `</style`",
    "the content of the generated JS/CSS tag strings is taken from a placeholder-only reference call (content is C04's subject)",
    "middleware: Content-Type values are exact lower-case `text/html[; charset=utf-8]` or clearly non-HTML types",
]
BOUNDS = {
    "quick": {"docs_rd": 20000, "docs_mw": 5000, "max_segments": 14, "enum_len": 5},
    "thorough": {"docs_rd": 500000, "docs_mw": 100000, "max_segments": 24, "enum_len": 7},
}

HTML_WS = " \t\n\f\r"
ID_ALPHABET = "0123456789abcdefghijklmnopqrstuvwxyzABCDEFGHIJKLMNOPQRSTUVWXYZ"
SEP = ["@@C08-SEP-1@@", "@@C08-SEP-2@@", "@@C08-SEP-3@@"]

# ---------------------------------------------------------------------------
# the fixed component family and the strings the library emits

_FAM = None


class Family:
    pass


def _between(s, start, end):
    i = s.index(start)
    j = s.index(end, i) + len(end)
    return s[i:j]


def family():
    """Create (once per process) 4 real component classes + learn marker / placeholder strings by rendering."""
    global _FAM
    if _FAM is not None:
        return _FAM
    from django.template import Context, Template

    from django_components import Component, registry

    env.reset()
    fam = Family()
    specs = [
        # (js, css, Media.js, Media.css)
        ("console.log('k0 ü中', 1<2);", ".k0{color:red;content:'é'}", ["c08/k0.js"], {"all": ["c08/k0.css"], "print": ["c08/k0p.css"]}),
        ("window.k1 = '%}';", None, None, None),
        (None, ".k2>a{margin:0}", None, ["c08/k2.css"]),
        (None, None, None, None),
    ]
    fam.classes = []
    fam.has_css = []
    for i, (js, css, mjs, mcss) in enumerate(specs):
        attrs = {"template": "<i>k%d</i>" % i}
        if js is not None:
            attrs["js"] = js
        if css is not None:
            attrs["css"] = css
        if mjs is not None or mcss is not None:
            m = {}
            if mjs is not None:
                m["js"] = mjs
            if mcss is not None:
                m["css"] = mcss
            attrs["Media"] = type("Media", (), m)
        cls = type("VfC08K%d" % i, (Component,), attrs)
        registry.register("vfc08k%d" % i, cls)
        fam.classes.append(cls)
        fam.has_css.append(css is not None or mcss is not None)
    # markers: render every class once (this also puts its JS/CSS into the media cache)
    fam.marker_tpl = []  # (prefix, suffix) around the render id
    for cls in fam.classes:
        out = str(cls.render(render_dependencies=False))
        marker = _between(out, "<!-- _RENDERED", "-->")
        if not out.startswith(marker):
            raise RuntimeError("unexpected component output %r" % out)
        m = re.fullmatch(r"(<!-- _RENDERED [^,\s]+,)([0-9A-Za-z]{6})(,, -->)", marker)
        if not m:
            raise RuntimeError("unexpected marker format %r" % marker)
        fam.marker_tpl.append((m.group(1), m.group(3)))

    # placeholders: page level, inside a component (non-root), as a component root
    page = Template("{% component_css_dependencies %}" + SEP[0] + "{% component_js_dependencies %}").render(Context())
    css_page, js_page = page.split(SEP[0])
    Inner = type("VfC08Inner", (Component,), {"template": "<div>{% component_css_dependencies %}" + SEP[0] + "{% component_js_dependencies %}</div>"})
    out = str(Inner.render(render_dependencies=False))
    css_inner = _between(out, "<link", ">")
    js_inner = _between(out, "<script", "</script>")
    Root = type("VfC08Root", (Component,), {"template": "{% component_css_dependencies %}" + SEP[0] + "{% component_js_dependencies %}"})
    out = str(Root.render(render_dependencies=False))
    css_root = _between(out, "<link", ">")
    js_root = _between(out, "<script", "</script>")
    # ... and as the root of a component that is itself the root of another component: two id attributes
    from django_components import registry as _registry

    if "vfc08_root" not in _registry.all():
        _registry.register("vfc08_root", Root)
    Outer = type("VfC08Outer", (Component,), {"template": '{% component "vfc08_root" / %}'})
    out = str(Outer.render(render_dependencies=False))
    css_root2 = _between(out, "<link", ">")
    js_root2 = _between(out, "<script", "</script>")
    fam.keep = (Inner, Root, Outer)

    def split_id2(s):
        m = re.fullmatch(r"(.* data-djc-id-)([0-9A-Za-z]{6})(=\"\" data-djc-id-)([0-9A-Za-z]{6})(=\"\".*)", s, re.S)
        if not m or s.count("data-djc-id-") != 2:
            raise RuntimeError("unexpected nested-root placeholder %r" % s)
        return (m.group(1), m.group(3), m.group(5))

    def split_id(s):
        m = re.fullmatch(r"(.* data-djc-id-)([0-9A-Za-z]{6})(=\"\".*)", s, re.S)
        if not m or s.count("data-djc-id-") != 1:
            raise RuntimeError("unexpected root placeholder %r" % s)
        return (m.group(1), m.group(3))

    for s, name in ((css_page, "CSS_PLACEHOLDER"), (css_inner, "CSS_PLACEHOLDER"), (js_page, "JS_PLACEHOLDER"), (js_inner, "JS_PLACEHOLDER")):
        if name not in s or "data-djc-id" in s:
            raise RuntimeError("unexpected placeholder %r" % s)
    fam.ph = {
        "css": {"page": css_page, "inner": css_inner, "root": split_id(css_root), "root2": split_id2(css_root2)},
        "js": {"page": js_page, "inner": js_inner, "root": split_id(js_root), "root2": split_id2(js_root2)},
    }
    idre = "[0-9A-Za-z]{6}"

    def alt(kind):
        d = fam.ph[kind]
        r2 = d["root2"]
        forms = sorted({re.escape(d["page"]), re.escape(d["inner"]), re.escape(d["root"][0]) + idre + re.escape(d["root"][1]), re.escape(r2[0]) + idre + re.escape(r2[1]) + idre + re.escape(r2[2])}, key=lambda x: (-len(x), x))
        return re.compile("|".join(forms))

    fam.css_re = alt("css")
    fam.js_re = alt("js")
    fam.marker_re = re.compile("|".join("(%s%s%s)" % (re.escape(a), idre, re.escape(b)) for a, b in fam.marker_tpl))
    _FAM = fam
    return fam


# anything a (present or future) version of the library might plausibly treat as marker / placeholder; a match
# that is not an exact token puts the document outside the judged domain
GENEROUS_MARKER = re.compile(r"<!--\s*_RENDERED\b[^<>]*-->")
GENEROUS_CSS = re.compile(r'<link name="CSS_PLACEHOLDER"(?:\s+data-djc-[\w-]*(?:="[^"<>]*")?)*\s*/?>')
GENEROUS_JS = re.compile(r'<script name="JS_PLACEHOLDER"(?:\s+data-djc-[\w-]*(?:="[^"<>]*")?)*\s*>\s*</script\s*>')
ENDTAG = re.compile(r"</(head|body)(\s*)>", re.I)


class Tok:
    __slots__ = ("start", "end", "kind", "classes", "cls")

    def __init__(self, start, end, kind, classes=frozenset(), cls=None):
        self.start, self.end, self.kind, self.classes, self.cls = start, end, kind, classes, cls


def scan(doc, fam):
    """-> (tokens sorted by start, ood_reason or None). Independent of the library's regexes."""
    toks = []
    for m in fam.marker_re.finditer(doc):
        toks.append(Tok(m.start(), m.end(), "m", cls=m.lastindex - 1))
    for m in fam.css_re.finditer(doc):
        toks.append(Tok(m.start(), m.end(), "pc"))
    for m in fam.js_re.finditer(doc):
        toks.append(Tok(m.start(), m.end(), "pj"))
    exact = {(t.start, t.end, t.kind) for t in toks}
    ood = None
    for rx, kind in ((GENEROUS_MARKER, "m"), (GENEROUS_CSS, "pc"), (GENEROUS_JS, "pj")):
        for m in rx.finditer(doc):
            if (m.start(), m.end(), kind) not in exact:
                ood = "ood_lookalike_" + kind
    for m in ENDTAG.finditer(doc):
        classes = set()
        if m.group(1) not in ("head", "body"):
            pass  # upper / mixed case: a definite end tag (the property's quantifier names case variants; HTML tag names are case-insensitive)
        for ch in m.group(2):
            if ch not in HTML_WS:
                classes.add("vt" if ch == "\x0b" else "uws")
        toks.append(Tok(m.start(), m.end(), "eh" if m.group(1).lower() == "head" else "eb", frozenset(classes)))
    toks.sort(key=lambda t: t.start)
    for a, b in zip(toks, toks[1:]):
        if a.end > b.start:
            ood = "ood_overlap"
    return toks, ood


def strip_tokens(doc, toks):
    out, pos = [], 0
    for t in toks:
        if t.kind in ("m", "pc", "pj"):
            out.append(doc[pos : t.start])
            pos = t.end
    out.append(doc[pos:])
    return "".join(out)


def expected_outputs(doc, toks, mode, J, C):
    """All outputs the property allows (one per consistent reading of ambiguous end tags)."""
    if mode == "fragment":
        return [strip_tokens(doc, toks) + J]
    ends = [t for t in toks if t.kind in ("eh", "eb")]
    classes = sorted(set().union(*[t.classes for t in ends])) if ends else []
    has_pc = any(t.kind == "pc" for t in toks)
    has_pj = any(t.kind == "pj" for t in toks)
    outs = []
    for n in range(len(classes) + 1):
        for reading in itertools.combinations(classes, n):
            r = set(reading)
            active = [t for t in ends if t.classes <= r]
            css_t = js_t = None
            if not has_pc:
                css_t = next((t for t in active if t.kind == "eh"), None)
            if not has_pj:
                for t in active:
                    if t.kind == "eb":
                        js_t = t
            parts, pos = [], 0
            for t in toks:
                parts.append(doc[pos : t.start])
                if t.kind == "pc":
                    parts.append(C)
                elif t.kind == "pj":
                    parts.append(J)
                elif t.kind != "m":
                    if t is css_t:
                        parts.append(C)
                    if t is js_t:
                        parts.append(J)
                    parts.append(doc[t.start : t.end])
                pos = t.end
            parts.append(doc[pos:])
            o = "".join(parts)
            if o not in outs:
                outs.append(o)
    return outs


# ---------------------------------------------------------------------------
# documents

CASE_FORMS = {"head": ["head", "HEAD", "Head", "hEaD"], "body": ["body", "BODY", "Body", "bOdY"]}


def seg_text(seg, fam):
    k = seg[0]
    if k in ("t", "l"):
        return seg[1]
    if k == "e":
        return "</" + CASE_FORMS[seg[1]][seg[3]] + seg[2] + ">"
    if k == "p":
        form = fam.ph[seg[1]][seg[2]]
        if isinstance(form, str):
            return form
        if len(form) == 3:  # two ids: the given one and a second one derived from it
            return form[0] + seg[3] + form[1] + seg[3][::-1] + form[2]
        return form[0] + seg[3] + form[1]
    if k == "m":
        a, b = fam.marker_tpl[seg[1]]
        return a + seg[2] + b
    raise ValueError(seg)


def assemble(segs, fam):
    return "".join(seg_text(s, fam) for s in segs)


def reference_tags(toks, doc, fam, mode):
    """(J, C, failure or None) from a placeholder-only call on the same marker sequence."""
    from django_components import render_dependencies

    markers = "".join(doc[t.start : t.end] for t in toks if t.kind == "m")
    if mode == "fragment":
        ref = markers + SEP[0]
        out, e = guarded(render_dependencies, ref, type="fragment")
        if e is not None:
            return None, None, ("reference call (fragment) on %r raised %r" % (ref, e), "reference-exc:" + exc_bucket(e))
        if not isinstance(out, str) or not out.startswith(SEP[0]):
            return None, None, ("reference call (fragment): %r -> %r, expected the input without markers followed by the JS tag" % (ref, out), "reference-shape")
        return out[len(SEP[0]) :], "", None
    ref = markers + SEP[0] + fam.ph["css"]["page"] + SEP[1] + fam.ph["js"]["page"] + SEP[2]
    out, e = guarded(render_dependencies, ref, type="document")
    if e is not None:
        return None, None, ("reference call on %r raised %r" % (ref, e), "reference-exc:" + exc_bucket(e))
    ok = isinstance(out, str) and out.startswith(SEP[0]) and out.endswith(SEP[2]) and out.count(SEP[1]) == 1
    if not ok:
        return None, None, ("reference call: %r -> %r, expected SEP1 + css + SEP2 + js + SEP3" % (ref, out), "reference-shape")
    c, j = out[len(SEP[0]) : -len(SEP[2])].split(SEP[1])
    return j, c, None


def _short(s, n=260):
    r = repr(s)
    return r if len(r) <= n else r[: n // 2] + " ... " + r[-n // 2 :]


def _first_diff(a, b):
    n = min(len(a), len(b))
    for i in range(n):
        if a[i] != b[i]:
            return i
    return n


def diagnose(got, doc, toks, fam, J, C, mode):
    """Name the way in which `got` (str) deviates; used for bucketing only."""
    stripped = strip_tokens(doc, toks)
    if fam.marker_re.search(got):
        return "marker-survived"
    if fam.css_re.search(got) or fam.js_re.search(got):
        return "placeholder-survived"
    g = got
    if J:
        g = g.replace(J, "")
    if C:
        g = g.replace(C, "")
    if g == stripped:
        return "insertion-misplaced"
    return "bytes-not-preserved"


class Judged:
    """Result of scanning one document."""

    def __init__(self, doc, fam):
        self.doc = doc
        self.toks, self.ood = scan(doc, fam)
        if self.ood is None:
            stripped = strip_tokens(doc, self.toks)
            t2, ood2 = scan(stripped, fam)
            ends = [(t.kind, t.classes) for t in self.toks if t.kind in ("eh", "eb")]
            if ood2 or [(t.kind, t.classes) for t in t2] != ends:
                self.ood = "ood_splice"
        self.n_markers = sum(1 for t in self.toks if t.kind == "m")
        self.n_ends = sum(1 for t in self.toks if t.kind in ("eh", "eb"))
        self.n_pc = sum(1 for t in self.toks if t.kind == "pc")
        self.n_pj = sum(1 for t in self.toks if t.kind == "pj")
        self.nontrivial = self.ood is None and self.n_markers >= 1 and (self.n_ends >= 2 or self.n_pc + self.n_pj >= 1)

    def labels(self, segs, fam):
        lb = []
        toks = self.toks
        if self.ood:
            lb.append(self.ood)
        lb.append("markers_%s" % ("0" if not self.n_markers else "1" if self.n_markers == 1 else "2+"))
        if any(t.kind == "m" and fam.has_css[t.cls] for t in toks):
            lb.append("marker_with_css")
        lb.append("endtags_%s" % (str(self.n_ends) if self.n_ends < 3 else "3+"))
        heads = [t for t in toks if t.kind == "eh"]
        bodies = [t for t in toks if t.kind == "eb"]
        if len(heads) >= 2:
            lb.append("heads_2+")
        if len(bodies) >= 2:
            lb.append("bodies_2+")
        if heads and bodies and bodies[-1].start < heads[0].start:
            lb.append("last_body_before_first_head")
        if any(t.classes for t in heads + bodies):
            lb.append("ambiguous_endtag")
        if any(t.end - t.start > 7 and not t.classes for t in heads + bodies):
            lb.append("endtag_html_whitespace")
        if self.n_pc:
            lb.append("css_placeholder" + ("_2+" if self.n_pc > 1 else ""))
        if self.n_pj:
            lb.append("js_placeholder" + ("_2+" if self.n_pj > 1 else ""))
        if not self.n_pc and heads:
            lb.append("css_default_location")
        if not self.n_pj and bodies:
            lb.append("js_default_location")
        if not self.n_pc and not heads:
            lb.append("css_nowhere")
        if not self.n_pj and not bodies:
            lb.append("js_nowhere")
        if any(s[0] == "p" and s[2] == "root" for s in segs):
            lb.append("placeholder_root_form")
        if any(s[0] == "p" and s[2] == "root2" for s in segs):
            lb.append("placeholder_nested_root_form_two_ids")
        if any(s[0] == "l" for s in segs):
            lb.append("lookalike")
        if not self.doc.isascii():
            lb.append("non_ascii")
        if self.nontrivial:
            lb.append("nontrivial")
        return lb


KINDS = ("str", "bytes", "safe")
MODES = ("document", "fragment")


def check_rd(segs, col=None, combos=None):
    """Run one document through render_dependencies in all (kind, mode) combos. -> failures."""
    from django.utils.safestring import SafeString, mark_safe

    from django_components import render_dependencies

    fam = family()
    doc = assemble(segs, fam)
    jd = Judged(doc, fam)
    if col is not None:
        col.case(jhash(doc) if jd.nontrivial else None, jd.nontrivial, sample={"part": "rd", "segs": segs} if jd.nontrivial else None, labels=["rd"] + jd.labels(segs, fam))
    fails = []
    for mode in MODES:
        J = C = None
        if jd.ood is None:
            J, C, f = reference_tags(jd.toks, doc, fam, mode)
            if f:
                fails.append(f)
                continue
            if col is not None and mode == "document" and C:
                col.count("css_tags_nonempty")
            if col is not None and mode == "document" and J:
                col.count("js_tags_nonempty")
            exp = expected_outputs(doc, jd.toks, mode, J, C)
        # bytes in an 8-bit encoding (what a response with charset=latin-1 carries): not valid UTF-8, every byte must survive
        try:
            latin = doc.encode("latin-1")
            latin = latin if not doc.isascii() else None
        except UnicodeEncodeError:
            latin = None
        if latin is not None and jd.ood is None and not ((J or "") + (C or "")).isascii():
            latin = None  # the library inserts its tags as UTF-8 whatever the document's encoding is: not comparable as latin-1
        for kind in KINDS + (("lbytes",) if latin is not None else ()):
            if combos is not None and [kind, mode] not in combos:
                continue
            inp = doc if kind == "str" else doc.encode("utf-8") if kind == "bytes" else latin if kind == "lbytes" else mark_safe(doc)
            if col is not None:
                col.count("render_dependencies_calls")
            out, e = guarded(render_dependencies, inp, type=mode)
            if jd.ood is not None:
                continue  # executed, not judged (see ASSUMPTIONS)
            where = "render_dependencies(%s, type=%r)" % (kind, mode)
            if e is not None:
                fails.append(("%s raised %r on %s" % (where, e, _short(doc)), "%s:exception:%s" % (mode, exc_bucket(e))))
                continue
            want_type = {"str": str, "bytes": bytes, "lbytes": bytes, "safe": SafeString}[kind]
            if type(out) is not want_type:
                fails.append(("%s returned %s, input type %s; doc %s" % (where, type(out).__name__, want_type.__name__, _short(doc)), "%s:type-not-preserved:%s" % (mode, kind)))
                continue
            if kind == "lbytes":
                got = out.decode("latin-1")  # the inserted tags are ASCII
                if col is not None:
                    col.count("render_dependencies_calls_on_non_utf8_bytes")
            elif kind == "bytes":
                got, e2 = guarded(out.decode, "utf-8")
                if e2 is not None:
                    fails.append(("%s returned bytes that are not UTF-8 (%r); doc %s" % (where, e2, _short(doc)), "%s:bytes-not-preserved" % mode))
                    continue
            else:
                got = str(out)
            if got not in exp:
                d = diagnose(got, doc, jd.toks, fam, J, C, mode)
                i = _first_diff(got, exp[0])
                fails.append(
                    (
                        "%s: %s. input %s\n got      %s\n expected %s\n first difference at offset %d: got ...%s, expected ...%s (%d admissible reading(s); JS tags %d chars, CSS tags %d chars)"
                        % (where, d, _short(doc), _short(got, 700), _short(exp[0], 700), i, _short(got[max(0, i - 20) : i + 40], 120), _short(exp[0][max(0, i - 20) : i + 40], 120), len(exp), len(J), len(C)),
                        "%s:%s" % (mode, d),
                    )
                )
    return fails


# ---------------------------------------------------------------------------
# middleware

HTML_TYPES = [None, "text/html", "text/html; charset=utf-8"]
OTHER_TYPES = ["application/json", "text/plain", "text/plain; charset=utf-8", "text/xml", "text/css", "application/javascript", "image/svg+xml", "application/octet-stream", "multipart/form-data", "", "<deleted>"]


def _chunks(data, cuts):
    pts = sorted({c % (len(data) + 1) for c in cuts})
    out, pos = [], 0
    for p in pts:
        out.append(data[pos:p])
        pos = p
    out.append(data[pos:])
    return out


def check_mw(case, col=None):
    from django.http import HttpResponse, StreamingHttpResponse
    from django.test import RequestFactory

    from django_components.middleware import ComponentDependencyMiddleware

    fam = family()
    segs = case["segs"]
    doc = assemble(segs, fam)
    jd = Judged(doc, fam)
    data = doc.encode("utf-8")
    ctype = case["ctype"]
    streaming = case["resp"] == "streaming"
    is_html = ctype in HTML_TYPES
    if col is not None:
        nt = jd.nontrivial
        col.case(
            jhash(doc) if nt else None,
            nt,
            sample=case if nt else None,
            labels=["mw", "mw_streaming" if streaming else "mw_html" if is_html else "mw_other_type", "mw_async" if case["async"] else "mw_sync"] + jd.labels(segs, fam),
        )
    kw = {} if ctype in (None, "<deleted>") else {"content_type": ctype}
    chunks = _chunks(data, case.get("cuts", []))
    if streaming:
        resp = StreamingHttpResponse(iter(chunks), **kw)
    else:
        resp = HttpResponse(data, **kw)
    if ctype == "<deleted>":
        del resp["Content-Type"]
    headers_before = sorted(resp.headers.items())
    request = RequestFactory().get("/c08")

    if case["async"]:

        async def get_response(req):
            return resp

        mw = ComponentDependencyMiddleware(get_response)

        def call():
            return asyncio.run(mw(request))

    else:
        mw = ComponentDependencyMiddleware(lambda req: resp)

        def call():
            return mw(request)

    where = "middleware(%s, content_type=%r, %s)" % (case["resp"], ctype, "async" if case["async"] else "sync")
    out, e = guarded(call)
    if jd.ood is not None and is_html and not streaming:
        return []
    if e is not None:
        return [("%s raised %r on %s" % (where, e, _short(doc)), "mw:exception:%s" % exc_bucket(e))]
    fails = []
    if out is not resp:
        fails.append(("%s returned a different response object %r" % (where, out), "mw:response-replaced"))
        return fails
    if streaming:
        if not getattr(out, "streaming", False):
            return [("%s: streaming flag lost" % where, "mw:streaming-touched")]
        got_chunks = list(out.streaming_content)
        if got_chunks != chunks:
            fails.append(("%s: streaming content changed: %s -> %s" % (where, _short(chunks), _short(got_chunks)), "mw:streaming-touched"))
        if sorted(out.headers.items()) != headers_before:
            fails.append(("%s: headers changed %r -> %r" % (where, headers_before, sorted(out.headers.items())), "mw:streaming-touched"))
        return fails
    got_b = out.content
    if type(got_b) is not bytes:
        return [("%s: response.content is %s" % (where, type(got_b).__name__), "mw:type-not-preserved")]
    if not is_html:
        if got_b != data:
            fails.append(("%s: non-HTML content changed: %s -> %s" % (where, _short(data), _short(got_b)), "mw:non-html-touched"))
        if sorted(out.headers.items()) != headers_before:
            fails.append(("%s: headers changed %r -> %r" % (where, headers_before, sorted(out.headers.items())), "mw:non-html-touched"))
        return fails
    J, C, f = reference_tags(jd.toks, doc, fam, "document")
    if f:
        return [f]
    exp = expected_outputs(doc, jd.toks, "document", J, C)
    got, e2 = guarded(got_b.decode, "utf-8")
    if e2 is not None:
        return [("%s: content is not UTF-8 any more (%r); doc %s" % (where, e2, _short(doc)), "mw:bytes-not-preserved")]
    if got not in exp:
        d = diagnose(got, doc, jd.toks, fam, J, C, "document")
        i = _first_diff(got, exp[0])
        fails.append(
            (
                "%s: %s. input %s\n got      %s\n expected %s\n first difference at offset %d (%d admissible reading(s))" % (where, d, _short(doc), _short(got, 700), _short(exp[0], 700), i, len(exp)),
                "mw:%s" % d,
            )
        )
    return fails


# ---------------------------------------------------------------------------
# strategies

SNIPPETS = [
    "<head>", "<body>", "<html>", "</html>", "<!doctype html>", "<title>t</title>", "<!-- comment -->", "<!--", "-->", "<script>", "</script>",
    "<style>.a{}</style>", "</h", "ead>", "</he", "ad>", "</bo", "dy>", "</", ">", "<", "head", "body", "é", "中文", "\U0001f600", "\u2028", "\xa0",
    "%}", "{%", "{{ x }}", "100%", '<div data-djc-id-a1b2c3="">', "&lt;/head&gt;", "<link", "<script", ' name="', "_RENDERED", "\r\n", "\x00", "a\u0308", "\ufeff",
    "{% component_js_dependencies %}", "{% component_css_dependencies %}", '<link rel="stylesheet" href="x.css">', '<script src="x.js"></script>',
]  # fmt: skip
LOOKALIKES = [
    # end tags
    "</heads>", "< /head>", "</ head>", "<//head>", "</head", "<\\/head>", "</header>", "</thead>", "</tbody>", "</bodyx>", "<head>", "<body>", "<head/>",
    "&lt;/body&gt;", "</he ad>", "</body-", "</hea\u200bd>", "</head\u200b>", "<\u200b/body>", "</ body>", "< /body>", "</bodies>", "<\\/body>", "</body", "</HEADS>", "</h\u0435ad>",
    # placeholders
    '<link name="CSS_PLACEHOLDERS">', '<link name="css_placeholder">', '<a name="CSS_PLACEHOLDER">', '<script name="JS_PLACEHOLDER">x</script>',
    '<script name="JS_PLACEHOLDER">', '&lt;link name="CSS_PLACEHOLDER"&gt;', "CSS_PLACEHOLDER", "JS_PLACEHOLDER", '<script name="JS_PLACEHOLDER"></script',
    '<script name="JS_PLACEHOLDER"></scripts>', '<link name="XCSS_PLACEHOLDER">', '<script name="js_placeholder"></script>', '<link name="CSS_PLACEHOLDER"',
    # markers
    "<!-- RENDERED K,a00001,, -->", "<!- _RENDERED x,a00001,, -->", "<!-- _RENDER x -->", "<!-- rendered -->", "<!-- _rendered k,a00001,, -->",
    "&lt;!-- _RENDERED x,a00001,, --&gt;", "_RENDERED K0,a00001,,", "<!-- _RENDERED", "<!-- X_RENDERED k,a00001,, -->", "< !-- _RENDERED k,a00001,, -->",
]  # fmt: skip
WS_FORMS = ["", "", "", "", " ", "\n", "\t", "  ", " \n\t", "\r\n", "\f", "\x0b", "\xa0", "\u2003", "\n \x0b"]
SEG_KINDS = ["text", "look", "head", "body", "cssph", "jsph", "marker"]


def strategies(max_segments):
    from hypothesis import strategies as st

    rich = st.sampled_from(list("<>/%{}!-_ =\"'\n\t&;#abhedoy") + ["é", "ü", "中", "\U0001f600", "\xa0", "\x0b", "\u2028", "\x00"])
    text = st.one_of(st.text(alphabet=rich, min_size=1, max_size=12), st.text(min_size=1, max_size=8), st.sampled_from(SNIPPETS), st.sampled_from(SNIPPETS))
    ids = st.one_of(st.sampled_from(["a00001", "a00002", "Zz9Yy8", "000000"]), st.text(alphabet=ID_ALPHABET, min_size=6, max_size=6))
    case_idx = st.sampled_from([0, 0, 0, 0, 0, 0, 1, 2, 3])
    ws = st.sampled_from(WS_FORMS)
    by_kind = {
        "text": st.tuples(st.just("t"), text).map(list),
        "look": st.tuples(st.just("l"), st.sampled_from(LOOKALIKES)).map(list),
        "head": st.tuples(st.just("e"), st.just("head"), ws, case_idx).map(list),
        "body": st.tuples(st.just("e"), st.just("body"), ws, case_idx).map(list),
        "cssph": st.tuples(st.just("p"), st.just("css"), st.sampled_from(["page", "page", "inner", "root", "root2"]), ids).map(list),
        "jsph": st.tuples(st.just("p"), st.just("js"), st.sampled_from(["page", "page", "inner", "root", "root2"]), ids).map(list),
        "marker": st.tuples(st.just("m"), st.sampled_from([0, 0, 1, 2, 2, 3]), ids).map(list),
    }

    @st.composite
    def segs(draw):
        enabled = draw(st.lists(st.sampled_from(SEG_KINDS), min_size=1, max_size=len(SEG_KINDS), unique=True))
        return draw(st.lists(st.one_of([by_kind[k] for k in SEG_KINDS if k in enabled]), min_size=0, max_size=max_segments))

    rd = st.fixed_dictionaries({"part": st.just("rd"), "segs": segs()})
    mw = st.fixed_dictionaries(
        {
            "part": st.just("mw"),
            "segs": segs(),
            "ctype": st.one_of(st.sampled_from(HTML_TYPES), st.sampled_from(OTHER_TYPES)),
            "resp": st.sampled_from(["plain", "plain", "streaming"]),
            "async": st.booleans(),
            "cuts": st.lists(st.integers(0, 400), max_size=3),
        }
    )
    return rd, mw


# enumerated sub-domain
def enum_tokens():
    return [["t", "x"], ["e", "head", "", 0], ["e", "body", "", 0], ["p", "css", "page", "a00001"], ["p", "js", "page", "a00001"], ["m", 0, "a00001"]]


# ---------------------------------------------------------------------------


# coverage-guided stage (atheris drives these Hypothesis shards, see vf/run.py): {tier: {shard kind: (shards, executions)}}
CG = {'quick': {'hyp_rd': (2, 1000)}, 'thorough': {'hyp_rd': (8, 30000), 'hyp_mw': (4, 10000)}}


def plan(tier, seed, scale=1.0):
    b = BOUNDS[tier]
    specs = []
    L = b["enum_len"]
    ntok = len(enum_tokens())
    if L <= 5:
        specs.append({"kind": "enum", "prefix": None, "maxlen": 1})  # lengths 0..1
        for first in range(ntok):
            specs.append({"kind": "enum", "prefix": [first], "maxlen": L})
    else:
        specs.append({"kind": "enum", "prefix": None, "maxlen": 2})  # lengths 0..2
        for a in range(ntok):
            for c in range(ntok):
                specs.append({"kind": "enum", "prefix": [a, c], "maxlen": L})
    n_rd = max(16, int(b["docs_rd"] * scale))
    n_mw = max(8, int(b["docs_mw"] * scale))
    sh_rd, sh_mw = (24, 8) if tier == "quick" else (128, 32)
    for sh in range(sh_rd):
        specs.append({"kind": "hyp_rd", "n": n_rd // sh_rd, "seed": derive_seed(seed, "rd", sh), "max_segments": b["max_segments"]})
    for sh in range(sh_mw):
        specs.append({"kind": "hyp_mw", "n": n_mw // sh_mw, "seed": derive_seed(seed, "mw", sh), "max_segments": b["max_segments"]})
    return specs


def run_shard(spec):
    col = Collector()
    kind = spec["kind"]
    family()
    if kind == "enum":
        toks = enum_tokens()
        prefix = spec["prefix"]
        if prefix is None:
            seqs = itertools.chain.from_iterable(itertools.product(range(len(toks)), repeat=n) for n in range(0, spec["maxlen"] + 1))
        else:
            seqs = (tuple(prefix) + rest for n in range(len(prefix) + 1, spec["maxlen"] + 1) for rest in itertools.product(range(len(toks)), repeat=n - len(prefix)))
        seen_buckets = set()
        for seq in seqs:
            segs = [toks[i] for i in seq]
            case = {"part": "rd", "segs": segs}
            for m, bk in check_rd(segs, col):
                fid = attribute(case, m, bk)
                if fid:
                    col.fail(case, m, bk, finding=fid)
                elif bk not in seen_buckets:  # sequences come shortest first: the first hit per bucket is minimal
                    seen_buckets.add(bk)
                    col.fail(case, m, bk)
            col.count("enum_docs")
        col.exhaustive = True
        return col
    rd, mw = strategies(spec["max_segments"])
    if kind == "hyp_rd":
        return hyp_search(rd, lambda case: check_rd(case["segs"], col), col, max_examples=spec["n"], seed=spec["seed"], attribute=attribute)
    if kind == "hyp_mw":
        return hyp_search(mw, lambda case: check_mw(case, col), col, max_examples=spec["n"], seed=spec["seed"], attribute=attribute)
    raise ValueError(kind)


def replay(case):
    if case["part"] == "rd":
        return check_rd(case["segs"], None, combos=case.get("combos"))
    if case["part"] == "mw":
        return check_mw(case, None)
    raise ValueError(case["part"])


def attribute(case, message, bucket):
    """Structural predicates of pinned findings (only those listed in known_findings.json are active)."""
    active = known_active(PROP)
    if not active:
        return None
    if "C08-D1" in active and bucket in ("document:insertion-misplaced", "mw:insertion-misplaced"):
        # D1: no placeholder of either kind and, under some reading of the ambiguous end tags, the last
        # </body> precedes the first </head>
        fam = family()
        doc = assemble(case["segs"], fam)
        toks, _ = scan(doc, fam)
        if not any(t.kind in ("pc", "pj") for t in toks):
            ends = [t for t in toks if t.kind in ("eh", "eb")]
            classes = sorted(set().union(*[t.classes for t in ends])) if ends else []
            for n in range(len(classes) + 1):
                for reading in itertools.combinations(classes, n):
                    active = [t for t in ends if t.classes <= set(reading)]
                    heads = [t for t in active if t.kind == "eh"]
                    bodies = [t for t in active if t.kind == "eb"]
                    if heads and bodies and bodies[-1].start < heads[0].start:
                        return "C08-D1"
    return None
