"""C14 — root elements of a component instance, and only they, carry its render id.

PG programs with element nodes (unique data-m markers; instances echo Component.id into their own
elements).  Expected id sets per element come from the reference interpreter's output tree.
"""
import re
from collections import Counter

from hypothesis import strategies as st

from vf import env
from vf.core import Collector, derive_seed, exc_bucket, hyp_search, jhash
from vf.gen import pg, pgmin, pgrun, pgstrat

PROP = "C14"
LEVEL = "exploration"
RULE = (
    "PG programs whose templates contain elements with unique data-m markers (0..n root elements per template, text-only roots, "
    "void elements, components as roots, roots produced by slot fills / loops), every instance echoing Component.id into its own elements; "
    "both context_behavior values. Oracle: from the interpreter's output tree, element E carries data-djc-id-X exactly for the instances X "
    "for which E is a top-level element of X's output (several ids through instance boundaries), compared as a multiset of per-instance "
    "root signatures; the echoed id equals the id on the instance's roots; ids pairwise distinct (also with the real random id generator). "
    "Plus a self-recursive chain component at depths {1,2,50,200} quick / up to 2000 thorough: the single leaf element carries depth+1 distinct ids. "
    "Non-trivial = an instance with >=2 root elements, or a component that is another's root, or depth >= 50; distinct by (program, mode)."
)
ASSUMPTIONS = [
    "generated HTML is well-formed (the attribute setter is an external Rust parser whose error recovery is not under test)",
    "reference interpreter decides which elements are top-level of which instance",
    "django mode + `only`: echo of the owner's id inside fill content is not predicted",
]
BOUNDS = {"quick": {"programs": 12800, "depths": [1, 2, 50, 200], "loop_depths": [1, 50, 700], "widths": [1, 300, 1500]}, "thorough": {"programs": 200000, "depths": [1, 2, 3, 50, 200, 500, 1000, 2000], "loop_depths": [1, 50, 700, 2000], "widths": [1, 300, 1500, 5000, 20000]}}
CFG = {"elems": True, "idecho": True, "errors": False, "isfilled": False, "max_nodes": 4, "cssvars": True}


_TAG_RE = re.compile(r"<([A-Za-z][A-Za-z0-9]*)((?:\s+[^\s=<>/]+(?:=\"[^\"]*\")?)*)\s*/?>")
_ATTR_RE = re.compile(r"([^\s=<>/]+)(?:=\"([^\"]*)\")?")


def parse_real(html):
    """Start tags with a data-m marker -> (marker, frozenset(ids), echo). Case-preserving (html.parser lower-cases
    attribute names, render ids are case-sensitive); generated HTML is well-formed so a regex scan is exact."""
    elems = []
    for m in _TAG_RE.finditer(html):
        d = {}
        for a in _ATTR_RE.finditer(m.group(2)):
            d[a.group(1)] = a.group(2)
        if "data-m" in d:
            ids = frozenset(k[len("data-djc-id-") :] for k in d if k.startswith("data-djc-id-"))
            echo = d.get("data-echo")
            if echo is not None and echo.startswith("data-djc-id-"):
                echo = echo[len("data-djc-id-") :]  # the echo spelled as the marker attribute's name
            elems.append((d["data-m"], ids, echo))
    return elems


def model_elems(tree):
    """[(marker, frozenset(model instance numbers for which it is top-level), echo)] in document order."""
    out = []

    def walk(pieces, tops):
        for p in pieces:
            if isinstance(p, str):
                continue
            if p[0] == "E":
                out.append((p[2], frozenset(tops), p[4][1] if isinstance(p[4], tuple) and p[4][0] == "mk" else p[4]))
                walk(p[3], set())
            elif p[0] == "I":
                walk(p[3], tops | {p[1]})

    walk(tree, set())
    return out


def check_program(case, col=None):
    prog = case["program"]
    fails = []
    for mode in ("django", "isolated"):
        kind, exp, it = pgrun.run_model(prog, mode)
        if kind != "ok":
            if col is not None:
                col.case(None, False, labels=("model:" + kind,))
            continue
        res = pgrun.run_real(prog, mode, budget=20 * len(it.instances) + 50)
        if res.exc is not None:
            fails.append(("[%s] unexpected %r" % (mode, res.exc), "c14-exc:" + exc_bucket(res.exc)))
            continue
        real = pg.normalize_real(res.out)
        if not pg.matches(exp, real):
            # C01's business; do not judge ids on a page whose text already differs
            if col is not None:
                col.case(None, False, labels=("text-differs(C01)",))
            continue
        m = model_elems(it.tree)
        r = parse_real(res.out)
        if [x[0] for x in m] != [x[0] for x in r]:
            fails.append(("[%s] element sequence differs: model %r real %r" % (mode, [x[0] for x in m][:30], [x[0] for x in r][:30]), "c14-elements"))
            continue
        # per-instance root signatures
        msig, rsig = {}, {}
        for i, ((_, tops, _e), (_, ids, _e2)) in enumerate(zip(m, r)):
            for n in tops:
                msig.setdefault(n, []).append(i)
            for x in ids:
                rsig.setdefault(x, []).append(i)
            if len(tops) != len(ids):
                fails.append(("[%s] element #%d data-m=%s carries %d render ids %r, expected %d (top-level element of instances %r)" % (mode, i, m[i][0], len(ids), sorted(ids), len(tops), sorted(tops)), "c14-id-count"))
                break
        if fails:
            continue
        cm = Counter(tuple(v) for v in msig.values())
        cr = Counter(tuple(v) for v in rsig.values())
        if cm != cr:
            fails.append(("[%s] root signatures differ: model %r real %r" % (mode, sorted(cm.items())[:10], sorted(cr.items())[:10]), "c14-signature"))
            continue
        # echo: id echoed by the owning instance == id on that instance's roots
        for i, ((mk, tops, echo), (_, ids, recho)) in enumerate(zip(m, r)):
            if isinstance(echo, tuple) and echo[0] == "ID":
                n = echo[1]
                if not recho:
                    fails.append(("[%s] element %s: Component.id echo is empty" % (mode, mk), "c14-echo-empty"))
                    break
                want = tuple(msig.get(n, []))
                got = tuple(rsig.get(recho, []))
                if want != got:
                    fails.append(("[%s] element %s echoes id %r whose root elements are %r, but the echoing instance's roots are %r" % (mode, mk, recho, got, want), "c14-echo-mismatch"))
                    break
        # distinctness over all instances seen by user code
        ids = [i for (_n, i, _k) in res.rec.instances]
        if len(ids) != len(set(ids)):
            fails.append(("[%s] render ids not distinct: %r" % (mode, ids), "c14-id-collision"))
        if len(ids) != len(it.instances):
            fails.append(("[%s] %d instances rendered, model %d" % (mode, len(ids), len(it.instances)), "c14-instance-count"))
        multi_root = any(len(v) >= 2 for v in msig.values())
        comp_root = any(len(t) >= 2 for _, t, _ in m)
        nt = multi_root or comp_root
        if col is not None:
            labels = ["mode:" + mode]
            if multi_root:
                labels.append("multi_root_instance")
            if comp_root:
                labels.append("component_as_root")
            if any(not v for v in [msig.get(i.n) for i in it.instances]):
                labels.append("instance_without_root_element")
            sample = {"mode": mode, "page": pg.template_source(prog["page"]["tpl"])[:300], "components": {c["name"]: pg.template_source(c["tpl"])[:300] for c in prog["comps"]}, "elements": [(a, sorted(b)) for a, b, _ in r][:12]} if nt else None
            col.case(jhash([prog, mode]), nt, sample=sample, labels=labels)
    return fails


def check_chain(case, col=None):
    """Self-recursive chain of depth d: one leaf element must carry d+1 distinct ids; real random ids."""
    from django.template import Context, Template

    from django_components import Component, registry

    d = case["depth"]
    fails = []
    for mode in ("django", "isolated"):
        env.reset()
        env.patch_ids(not case.get("random_ids", True))
        try:
            seen = []
            with env.components_settings(context_behavior=mode):

                class Chain(Component):
                    template = (
                        '{% if n %}{% for one in once %}{% component "chain" n=rest once=once / %}{% endfor %}{% else %}<div data-m="leaf" data-echo="{{ myid }}">x</div><br data-m="v">{% endif %}text'
                        if case.get("loops")
                        else '{% if n %}{% component "chain" n=rest / %}{% else %}<div data-m="leaf" data-echo="{{ myid }}">x</div><br data-m="v">{% endif %}text'
                    )

                    def get_context_data(self, n="", once="x"):
                        seen.append(self.id)
                        return {"n": n, "rest": n[1:], "myid": self.id, "once": once}

                registry.register("chain", Chain)
                import sys

                limit = sys.getrecursionlimit()
                sys.setrecursionlimit(1000)  # CPython's default: "no recursion limit" is judged where a user would hit it
                try:
                    out = Template('{% component "chain" n=n / %}').render(Context({"n": "x" * d}))
                except Exception as e:  # noqa
                    fails.append(("[%s] chain depth %d%s raised %r" % (mode, d, " (one {% for %} per level)" if case.get("loops") else "", str(e)[:300]), "c14-chain-exc:" + exc_bucket(e)))
                    continue
                finally:
                    sys.setrecursionlimit(limit)
            elems = parse_real(out)
            markers = [e[0] for e in elems]
            if markers != ["leaf", "v"]:
                fails.append(("[%s] chain depth %d: elements %r" % (mode, d, markers), "c14-chain-elements"))
                continue
            for mk, ids, echo in elems:
                if len(ids) != d + 1 or set(ids) != set(seen):
                    fails.append(("[%s] chain depth %d: element %s carries %d ids, expected the %d ids of all instances" % (mode, d, mk, len(ids), d + 1), "c14-chain-ids"))
                    break
            if len(set(seen)) != d + 1:
                fails.append(("[%s] chain depth %d: %d distinct ids for %d instances" % (mode, d, len(set(seen)), d + 1), "c14-chain-collision"))
            if elems[0][2] != seen[-1]:
                fails.append(("[%s] chain depth %d: leaf echoes %r, innermost instance id %r" % (mode, d, elems[0][2], seen[-1]), "c14-chain-echo"))
            if out.count("text") != d + 1:
                fails.append(("[%s] chain depth %d: output has %d 'text' pieces" % (mode, d, out.count("text")), "c14-chain-text"))
        finally:
            env.patch_ids(True)
            env.reset()
        if col is not None:
            col.case(jhash(["chain", d, mode, bool(case.get("loops"))]), d >= 50, sample={"chain_depth": d, "mode": mode, "loop_at_every_level": bool(case.get("loops"))} if d >= 50 else None, labels=("chain_in_loops" if case.get("loops") else "chain", "mode:" + mode))
    return fails


def check_reentrant(case, col=None):
    """A component that renders ITSELF again from get_context_data (same instance, re-entrant render) and reads
    Component.id afterwards: every element must echo the id it carries; ids distinct."""
    from django.template import Context, Template

    from django_components import Component, registry

    fails = []
    levels = case["levels"]
    for mode in ("django", "isolated"):
        env.reset()
        with env.components_settings(context_behavior=mode):

            class Re(Component):
                template = '<div data-m="r{{ depth }}" data-echo="{{ myid }}">{{ inner|safe }}<i data-m="i{{ depth }}">x</i></div>'

                def get_context_data(self, depth=0):
                    inner = ""
                    if depth < levels:
                        inner = self.render(kwargs={"depth": depth + 1}, render_dependencies=False)
                    return {"myid": self.id, "depth": depth, "inner": inner}  # id read AFTER the nested render returned

            registry.register("re", Re)
            try:
                how = case.get("how", 0)
                if how == 0:
                    out = Template('{% component "re" depth=0 / %}').render(Context({}))
                else:
                    out = Re.render(kwargs={"depth": 0}, render_dependencies=False)
            except Exception as e:  # noqa
                fails.append(("[%s] re-entrant render raised %r" % (mode, e), "c14-reentrant-exc:" + exc_bucket(e)))
                continue
        elems = [e for e in parse_real(out) if e[0].startswith("r")]
        if len(elems) != levels + 1:
            fails.append(("[%s] re-entrant render: %d root elements, expected %d" % (mode, len(elems), levels + 1), "c14-reentrant-elements"))
            continue
        seen = set()
        for mk, ids, echo in elems:
            if len(ids) != 1 or echo not in ids:
                fails.append(("[%s] re-entrant render: element %s carries ids %r but Component.id reported %r during that render" % (mode, mk, sorted(ids), echo), "c14-reentrant-echo"))
                break
            if echo in seen:
                fails.append(("[%s] re-entrant render: id %r used by two instances" % (mode, echo), "c14-reentrant-collision"))
                break
            seen.add(echo)
        if col is not None:
            col.case(jhash(["reentrant", case, mode]), True, sample={"reentrant_levels": levels, "mode": mode, "how": case.get("how", 0)}, labels=("reentrant",))
    env.reset()
    return fails


def check_wide(case, col=None):
    """A list component whose root level is N row components (N pending parent->child hand-overs at once): every row
    element carries exactly the list's id and its own id; real random ids; ids pairwise distinct."""
    from django.template import Context, Template

    from django_components import Component, registry

    n = case["width"]
    fails = []
    for mode in ("django", "isolated"):
        env.reset()
        env.patch_ids(False)
        try:
            ids = {}
            with env.components_settings(context_behavior=mode):

                class Row(Component):
                    template = '<li data-m="row" data-echo="{{ myid }}">r</li>'

                    def get_context_data(self):
                        return {"myid": self.id}

                class Lst(Component):
                    template = '<p data-m="head" data-echo="{{ myid }}">h</p>{% for i in items %}{% component "row" / %}{% endfor %}<p data-m="foot" data-echo="{{ myid }}">f</p>'

                    def get_context_data(self, items=()):
                        ids["list"] = self.id
                        return {"items": items, "myid": self.id}

                registry.register("row", Row)
                registry.register("lst", Lst)
                try:
                    out = Template('{% component "lst" items=items / %}').render(Context({"items": range(n)}))
                except Exception as e:  # noqa
                    fails.append(("[%s] list of %d root-level row components raised %r" % (mode, n, str(e)[:300]), "c14-wide-exc:" + exc_bucket(e)))
                    continue
            elems = parse_real(out)
            rows = [e for e in elems if e[0] == "row"]
            if len(rows) != n or len(elems) != n + 2:
                fails.append(("[%s] width %d: %d row elements / %d marked elements in the output" % (mode, n, len(rows), len(elems)), "c14-wide-elements"))
                continue
            bad = [(i, sorted(e[1]), e[2]) for i, e in enumerate(rows) if e[1] != frozenset([ids["list"], e[2]])]
            if bad:
                fails.append(("[%s] width %d: %d of the %d root-level rows do not carry exactly {list id %r, own id}; first: row #%d carries %r, own id %r" % (mode, n, len(bad), n, ids["list"], bad[0][0], bad[0][1], bad[0][2]), "c14-wide-ids"))
            if len({e[2] for e in rows}) != n:
                fails.append(("[%s] width %d: only %d distinct ids for %d row instances" % (mode, n, len({e[2] for e in rows}), n), "c14-wide-collision"))
            for e in elems:
                if e[0] in ("head", "foot") and e[1] != frozenset([ids["list"]]):
                    fails.append(("[%s] width %d: element %s of the list carries %r, expected only the list id %r" % (mode, n, e[0], sorted(e[1]), ids["list"]), "c14-wide-ids"))
            if col is not None:
                col.case(jhash(["wide", n, mode]), n >= 100, sample={"root_level_children": n, "mode": mode} if n >= 100 else None, labels=("wide", "mode:" + mode))
        finally:
            env.patch_ids(True)
    env.reset()
    return fails


def check_nonelement(case, col=None):
    """Component tags in places that are not element content: inside an attribute value, inside an HTML comment, inside
    <title> / <textarea> text. Such an instance has no element of its own: it is rendered in place, no placeholder
    survives, the surrounding element carries only the ids of the components IT is a root of, nothing is left behind."""
    from django.template import Context, Template

    from django_components import Component, registry

    fails = []
    for mode in ("django", "isolated"):
        env.reset()
        ids = {}
        with env.components_settings(context_behavior=mode):

            class Txt(Component):
                template = "T{{ v }}"

                def get_context_data(self, v=""):
                    ids.setdefault("txt", []).append(self.id)
                    return {"v": v}

            class Host(Component):
                template = (
                    '<div data-m="host" data-echo="{{ me }}" title="{% component "txt" v="1" / %}">'
                    '<!-- c:{% component "txt" v="2" / %} -->'
                    '<textarea data-m="ta">{% component "txt" v="3" / %}</textarea>'
                    '<i data-m="plain">{% component "txt" v="4" / %}</i></div>'
                )

                def get_context_data(self):
                    ids["host"] = self.id
                    return {"me": self.id}

            registry.register("txt", Txt)
            registry.register("host", Host)
            try:
                out = Template('{% component "host" / %}').render(Context({}))
            except Exception as e:  # noqa
                fails.append(("[%s] components in attribute / comment / textarea positions raised %r" % (mode, str(e)[:300]), "c14-nonelement-exc:" + exc_bucket(e)))
                continue
        body = re.sub(r"<!-- _RENDERED [^>]*-->", "", out)  # dependency comments are taken out by render_dependencies
        for want in ('title="T1"', "<!-- c:T2 -->", ">T3</textarea>", ">T4</i>"):
            if want not in body:
                fails.append(("[%s] component written in a non-element position: expected %r in the output, got %r" % (mode, want, body[:500]), "c14-nonelement-output"))
        if "djc-render-id" in out or "<template" in out:
            fails.append(("[%s] a deferred-render placeholder survives in the output: %r" % (mode, out[:500]), "c14-nonelement-placeholder"))
        if len(set(ids.get("txt", []))) != 4:
            fails.append(("[%s] 4 text component instances expected, Component.id values seen: %r" % (mode, ids.get("txt")), "c14-nonelement-instances"))
        for mk, idset, echo in parse_real(out):
            want_ids = {ids["host"]} if mk == "host" else set()
            if set(idset) != want_ids:
                fails.append(("[%s] element %s carries %r, expected %r" % (mode, mk, sorted(idset), sorted(want_ids)), "c14-nonelement-ids"))
        res = {k: v for k, v in env.registry_sizes().items() if v}
        if res:
            fails.append(("[%s] side tables not empty after the render: %r" % (mode, res), "c14-nonelement-residue"))
        if col is not None:
            col.case(jhash(["nonelement", mode]), True, sample={"family": "component tags inside attribute value / comment / textarea", "mode": mode, "output": out[:300]}, labels=("nonelement_positions",))
    env.reset()
    return fails


def check_caught(case, col=None):
    """A nested Component.render(context=<the enclosing component's context>) inside get_context_data fails (or not) and
    the exception is caught by user code; the page goes on: all root elements still carry the right ids."""
    from django.template import Context, Template

    from django_components import Component, registry

    fails = []
    where = case.get("where", 0)  # how deep below the page root the catching component sits
    for mode in ("django", "isolated"):
        for fail in (False, True, False):
            env.reset()
            ids = {}
            with env.components_settings(context_behavior=mode):

                class Risky(Component):
                    template = '<b data-m="risky" data-echo="{{ me }}">x</b>'

                    def get_context_data(self, fail=False):
                        if fail:
                            raise ValueError("backend is down")
                        return {"me": self.id}

                class Safe(Component):
                    template = '<span data-m="safe" data-echo="{{ me }}">{{ inner }}</span>'

                    def get_context_data(self, fail=False):
                        try:
                            inner = Risky.render(context=self.input.context, kwargs={"fail": fail}, render_dependencies=False)
                        except ValueError:
                            inner = "n/a"
                        return {"inner": inner, "me": self.id}

                class Box(Component):
                    template = '<div data-m="box" data-echo="{{ me }}">{% component "safe" fail=fail / %}</div>' if where else '{% component "safe" fail=fail / %}'

                    def get_context_data(self, fail=False):
                        ids["box"] = self.id
                        return {"me": self.id, "fail": fail}

                class Footer(Component):
                    template = '<footer data-m="footer" data-echo="{{ me }}">bye</footer>'

                    def get_context_data(self):
                        return {"me": self.id}

                class Page(Component):
                    template = '{% component "box" fail=fail / %}{% component "footer" / %}<i data-m="tail" data-echo="{{ me }}">t</i>'

                    def get_context_data(self, fail=False):
                        ids["page"] = self.id
                        return {"fail": fail, "me": self.id}

                for nm, c in (("risky", Risky), ("safe", Safe), ("box", Box), ("footer", Footer), ("page", Page)):
                    registry.register(nm, c)
                try:
                    out = Template('{% component "page" fail=fail / %}').render(Context({"fail": fail}))
                except Exception as e:  # noqa
                    fails.append(("[%s] page with a caught nested failure (fail=%r) raised %r" % (mode, fail, str(e)[:300]), "c14-caught-exc:" + exc_bucket(e)))
                    continue
            want = {"footer": lambda me: {me, ids["page"]}, "tail": lambda me: {ids["page"]}}
            if where:
                want["box"] = lambda me: {me, ids["page"]}
                want["safe"] = lambda me: {me}
            else:
                want["safe"] = lambda me: {me, ids["box"], ids["page"]}
            got = {e[0]: e for e in parse_real(out)}
            for mk, f in want.items():
                if mk not in got:
                    fails.append(("[%s] fail=%r: element %s missing from %r" % (mode, fail, mk, out[:300]), "c14-caught-elements"))
                    continue
                _m, idset, echo = got[mk]
                me = echo
                if set(idset) != f(me):
                    fails.append(("[%s] nested render %s and caught: element <%s> carries %r, expected %r" % (mode, "FAILED" if fail else "succeeded", mk, sorted(idset), sorted(f(me))), "c14-caught-ids"))
            res = {k: v for k, v in env.registry_sizes().items() if v}
            if res:
                fails.append(("[%s] fail=%r: side tables not empty after the render: %r" % (mode, fail, res), "c14-caught-residue"))
            if col is not None:
                col.case(jhash(["caught", where, mode, fail]), fail, sample={"family": "caught nested failure", "mode": mode, "catching_component_depth": where} if fail else None, labels=("caught_failure",))
    env.reset()
    return fails


def attribute(case, message, bucket):
    return None


# coverage-guided stage (atheris drives these Hypothesis shards, see vf/run.py): {tier: {shard kind: (shards, executions)}}
CG = {'thorough': {'main': (6, 5000)}}


def plan(tier, seed, scale=1.0):
    b = BOUNDS[tier]
    n = max(16, int(b["programs"] * scale))
    shards = 16 if tier == "quick" else 128
    specs = [{"kind": "main", "n": n // shards, "seed": derive_seed(seed, "c14", sh)} for sh in range(shards)]
    for d in b["depths"]:
        specs.append({"kind": "chain", "depth": d})
    for d in b["loop_depths"]:
        specs.append({"kind": "chain", "depth": d, "loops": True})
    for lv in (1, 2, 3):
        for how in (0, 1):
            specs.append({"kind": "reentrant", "levels": lv, "how": how})
    for w in b["widths"]:
        specs.append({"kind": "wide", "width": w})
    for where in (0, 1):
        specs.append({"kind": "caught", "where": where})
    specs.append({"kind": "nonelement"})
    specs.append({"kind": "randids", "n": max(20, n // 20), "seed": derive_seed(seed, "c14r", 0)})
    return specs


def run_shard(spec):
    col = Collector()
    if spec["kind"] in ("wide", "caught", "nonelement"):
        case = dict(spec)
        for m, b in {"wide": check_wide, "caught": check_caught, "nonelement": check_nonelement}[spec["kind"]](case, col):
            col.fail(case, m, b)
        return col
    if spec["kind"] == "reentrant":
        case = {"kind": "reentrant", "levels": spec["levels"], "how": spec["how"]}
        for m, b in check_reentrant(case, col):
            col.fail(case, m, b)
        return col
    if spec["kind"] == "chain":
        case = {"kind": "chain", "depth": spec["depth"], "random_ids": True, "loops": bool(spec.get("loops"))}
        for m, b in check_chain(case, col):
            col.fail(case, m, b)
        return col
    if spec["kind"] == "randids":
        # same oracle with the real (os.urandom) id generator: distinctness clause on real ids
        def chk(case):
            env.patch_ids(False)
            try:
                return check_program(case, col)
            finally:
                env.patch_ids(True)

        strat = st.builds(lambda p: {"kind": "main", "program": p, "random_ids": True}, pgstrat.programs(CFG))
        return hyp_search(strat, chk, col, max_examples=spec["n"], seed=spec["seed"], shrink=False, attribute=attribute, post_min=lambda c, still: pgmin.minimize(c, still, 300))
    strat = st.builds(lambda p: {"kind": "main", "program": p}, pgstrat.programs(CFG))
    return hyp_search(strat, lambda case: check_program(case, col), col, max_examples=spec["n"], seed=spec["seed"], shrink=False, attribute=attribute, post_min=lambda c, still: pgmin.minimize(c, still, 300))


def replay(case):
    if case.get("kind") == "chain":
        return check_chain(case)
    if case.get("kind") == "reentrant":
        return check_reentrant(case)
    if case.get("kind") == "wide":
        return check_wide(case)
    if case.get("kind") == "caught":
        return check_caught(case)
    if case.get("kind") == "nonelement":
        return check_nonelement(case)
    if case.get("random_ids"):
        env.patch_ids(False)
        try:
            return check_program(case)
        finally:
            env.patch_ids(True)
    return check_program(case)
