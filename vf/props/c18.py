"""C18 — template caching is transparent and behaves as a bounded LRU.

(a) LRUCache histories get/set/has/clear: exhaustive enumeration up to a length bound for every
    size in {None,0,1,2,3}, Hypothesis-generated longer histories; oracle = OrderedDict LRU model +
    structural invariant of the linked list.
(b) cached_template histories (identity <=> model says cached; render == fresh Template).
(c) component render sequences under cache sizes {0,1,2,128}: outputs identical (metamorphic).
"""
import itertools
import sys
from collections import OrderedDict

from vf import env
from vf.core import Collector, derive_seed, exc_bucket, hyp_search, normalize_ids

PROP = "C18"
LEVEL = "exploration"
RULE = (
    "LRUCache: all get/set/has/clear sequences over 3 keys (4 in the Hypothesis part) up to the length bound, "
    "for sizes {None,0,1,2,3}, compared step by step with an OrderedDict LRU model plus a walk of the linked "
    "list in both directions; cached_template: histories over 5 sources x 2 template classes x {engine, None} under "
    "sizes {0,1,2,3,128} (identity iff the model says cached; render equals a fresh Template); component render "
    "sequences over 4-6 inline-template classes under sizes {0,1,2,128} (outputs equal across sizes). "
    "Non-trivial = the history evicts at least once (model) and later re-reads an evicted key and a retained key; "
    "distinct by (size, op sequence)."
)
ASSUMPTIONS = [
    "values stored are never None (the cache uses None as 'missing'; templates are never None)",
    "template_cache_size=None through settings falls back to 128 (observation, not asserted)",
    "one Engine instance per engine class (cache key uses the engine class path)",
]
BOUNDS = {"quick": {"dfs_len": 5, "hyp_examples": 6000}, "thorough": {"dfs_len": 7, "hyp_examples": 150000}}

KEYS = ["a", "b", "c"]
SIZES = [None, 0, 1, 2, 3]


def _ops(keys):
    ops = []
    for k in keys:
        ops.append(("get", k))
        ops.append(("set", k))
        ops.append(("has", k))
    ops.append(("clear", None))
    return ops


class Model:
    def __init__(self, maxsize):
        self.maxsize = maxsize
        self.d = OrderedDict()  # LRU first ... MRU last
        self.evicted = set()
        self.n_evictions = 0
        self.reread_evicted = False
        self.reread_retained = False

    def get(self, k):
        if k in self.d:
            self.d.move_to_end(k)
            if self.n_evictions:
                self.reread_retained = True
            return self.d[k]
        if k in self.evicted:
            self.reread_evicted = True
        return None

    def has(self, k):
        return k in self.d

    def set(self, k, v):
        if self.maxsize is not None and self.maxsize <= 0:
            return
        if k in self.d:
            self.d[k] = v
            self.d.move_to_end(k)
            return
        if self.maxsize is not None and len(self.d) >= self.maxsize:
            old, _ = self.d.popitem(last=False)
            self.evicted.add(old)
            self.n_evictions += 1
        self.evicted.discard(k)
        self.d[k] = v

    def clear(self):
        self.d.clear()

    @property
    def nontrivial(self):
        return self.n_evictions > 0 and self.reread_evicted and self.reread_retained


def structure_errors(cache, model):
    """Walk the list in both directions; compare with the model's recency order and the dict."""
    errs = []
    want = list(reversed(model.d.keys()))  # MRU first == head.next
    fwd, node, guard = [], cache.head.next, 0
    while node is not None and node is not cache.tail and guard < 50:
        fwd.append(node.key)
        node = node.next
        guard += 1
    if node is not cache.tail:
        errs.append("forward walk does not end at tail (cycle or broken link): %r" % (fwd,))
    bwd, node, guard = [], cache.tail.prev, 0
    while node is not None and node is not cache.head and guard < 50:
        bwd.append(node.key)
        node = node.prev
        guard += 1
    if node is not cache.head:
        errs.append("backward walk does not end at head: %r" % (bwd,))
    if fwd != want:
        errs.append("recency order head->tail %r != model %r" % (fwd, want))
    if list(reversed(bwd)) != want:
        errs.append("recency order tail->head %r != model %r" % (bwd, list(reversed(want))))
    if set(cache.cache.keys()) != set(want):
        errs.append("dict keys %r != model %r" % (sorted(cache.cache.keys()), sorted(want)))
    else:
        for k in want:
            if cache.cache[k].key != k or cache.cache[k].value != model.d[k]:
                errs.append("dict node for %r holds (%r,%r), model value %r" % (k, cache.cache[k].key, cache.cache[k].value, model.d[k]))
    if model.maxsize is not None and len(cache.cache) > max(model.maxsize, 0):
        errs.append("len %d > maxsize %r" % (len(cache.cache), model.maxsize))
    return errs


def run_history(size, ops, check_every_step=True):
    """ops: list of [name, key]. Returns (failures, model)."""
    from django_components.util.cache import LRUCache

    cache = LRUCache(maxsize=size)
    model = Model(size)
    fails = []
    for i, (name, k) in enumerate(ops):
        try:
            if name == "get":
                r, m = cache.get(k), model.get(k)
            elif name == "has":
                r, m = cache.has(k), model.has(k)
            elif name == "set":
                v = "v%d" % i
                r, m = cache.set(k, v), model.set(k, v)
            else:
                r, m = cache.clear(), model.clear()
        except Exception as e:  # noqa
            fails.append(("step %d %s(%r) raised %r" % (i, name, k, e), "lru-exc:" + exc_bucket(e)))
            return fails, model
        if r != m:
            fails.append(("step %d %s(%r) returned %r, model %r (size=%r)" % (i, name, k, r, m, size), "lru-result:%s" % name))
            return fails, model
        if check_every_step or i == len(ops) - 1:
            errs = structure_errors(cache, model)
            if errs:
                fails.append(("after step %d %s(%r) size=%r: %s" % (i, name, k, size, "; ".join(errs)), "lru-structure"))
                return fails, model
    return fails, model


# ---------------------------------------------------------------------------
# (b) cached_template histories

# incl. sources that differ only in leading / trailing whitespace or letter case (a too coarse cache key would merge them)
SOURCES = ["A{{ v }}", "B{{ v }}{% if v %}y{% endif %}", "C", "{{ v|upper }}D", "E{% for i in l %}{{ i }}{% endfor %}", " A{{ v }}", "A{{ v }}\n", "a{{ v }}", "C ",
           'S{% component "c18swap" / %}{{ v }}']  # the last one renders whatever class is registered as c18swap AT RENDER TIME


def run_ct_history(size, ops):
    """ops: list of [src_idx, cls_idx, eng_idx] or [src_idx, cls_idx, eng_idx, 1] (1: before this step the name c18swap is
    re-registered with the other of two component classes)."""
    from django.template import Context, Template, engines

    import django_components.cache as djc_cache
    from django_components import Component, cached_template, registry
    from vf.core import normalize_ids

    class SwapA(Component):
        template = "inner-A"

    class SwapB(Component):
        template = "inner-B"

    swap = [SwapA, SwapB]
    cur = [0]
    if "c18swap" in registry.all():
        registry.unregister("c18swap")
    registry.register("c18swap", SwapA)

    class MyTemplate(Template):
        pass

    MyTemplate.__qualname__ = "VfMyTemplate"
    classes = [None, MyTemplate]
    engine = engines["django"].engine
    engs = [None, engine]
    fails = []
    env.reset(clear_registry=False)
    with env.components_settings(template_cache_size=size):
        model = Model(size)
        last_obj = {}
        for i, op_ in enumerate(ops):
            si, ci, ei = op_[:3]
            if len(op_) > 3 and op_[3]:
                cur[0] ^= 1
                registry.unregister("c18swap")
                registry.register("c18swap", swap[cur[0]])
            src = SOURCES[si]
            key = (ci, si, ei)
            try:
                t = cached_template(src, template_cls=classes[ci], engine=engs[ei])
            except Exception as e:  # noqa
                fails.append(("step %d cached_template raised %r" % (i, e), "ct-exc:" + exc_bucket(e)))
                break
            cached = model.get(key) is not None
            if cached and t is not last_obj.get(key):
                fails.append(("step %d key %r: model says cached (size=%r) but a different Template object was returned" % (i, key, size), "ct-identity-lost"))
                break
            if not cached and key in last_obj and t is last_obj[key]:
                fails.append(("step %d key %r: model says evicted/not cached (size=%r) but the old object was returned" % (i, key, size), "ct-not-evicted"))
                break
            if not cached:
                model.set(key, i + 1)
            last_obj[key] = t
            want_cls = classes[ci] or Template
            if type(t) is not want_cls:
                fails.append(("step %d: returned %s, wanted %s" % (i, type(t).__name__, want_cls.__name__), "ct-class"))
                break
            ctx = {"v": "x%d" % i, "l": [1, i]}
            fresh = normalize_ids(want_cls(src, engine=engs[ei]).render(Context(ctx)))
            got = normalize_ids(t.render(Context(ctx)))
            if si == len(SOURCES) - 1:
                # rendering the component compiles / looks up ITS template through the same cache (twice: fresh + cached render)
                ikey = ("inner", cur[0])
                if model.get(ikey) is None:
                    model.set(ikey, "inner")
            if got != fresh:
                fails.append(("step %d: cached render %r != fresh %r" % (i, got, fresh), "ct-render"))
                break
            n = len(djc_cache.get_template_cache().cache)
            if n > size:
                fails.append(("step %d: cache holds %d entries > size %d" % (i, n, size), "ct-size"))
                break
            if n != len(model.d):
                fails.append(("step %d: cache holds %d entries, model %d" % (i, n, len(model.d)), "ct-count"))
                break
    if "c18swap" in registry.all():
        registry.unregister("c18swap")
    env.reset(clear_registry=False)
    return fails, model


# ---------------------------------------------------------------------------
# (c) component render sequences under different cache sizes


def run_render_seq(seq, ncls):
    """seq: list of [cls_idx, value]; every class has a distinct inline template, some nest another."""
    from django.template import Context, Template

    from django_components import Component, registry

    fails = []
    outs = {}
    for size in (0, 1, 2, 128):
        env.reset()
        with env.components_settings(template_cache_size=size):
            classes = []
            for i in range(ncls):
                inner = ""
                if i + 1 < ncls and i % 2 == 0:
                    inner = "{%% component 'k%d' v=v / %%}" % (i + 1)
                tpl = "<i%d>{{ v }}%s{%% slot 's' default %%}d%d{%% endslot %%}</i%d>" % (i, inner, i, i)
                if i == 3:
                    tpl = " " + "<i1>{{ v }}{% slot 's' default %}d1{% endslot %}</i1>" + "\n"  # class 1's template plus whitespace

                def gcd(self, v=None):
                    return {"v": v}

                cls = type("VfK%d" % i, (Component,), {"template": tpl, "get_context_data": gcd})
                registry.register("k%d" % i, cls)
                classes.append(cls)
            # two components whose template FILES have identical text but live in different directories and include a
            # sibling partial by a relative path: the compiled templates differ although the sources are equal
            for j, d in enumerate(("c18a", "c18b")):
                env.write_file("%s/t.html" % d, "<f>{{ v }}{% include './part.html' %}</f>", kind="components")
                env.write_file("%s/part.html" % d, "P-%s" % d, kind="components")

                def gcd2(self, v=None):
                    return {"v": v}

                cls = type("VfF%d" % j, (Component,), {"template_file": "%s/t.html" % d, "get_context_data": gcd2})
                cls.__module__ = "vfgen.c18files"
                if cls.__module__ not in sys.modules:
                    import types as _types

                    _m = _types.ModuleType(cls.__module__)
                    _m.__file__ = None  # a file-less module: paths are relative to COMPONENTS.dirs only
                    sys.modules[cls.__module__] = _m
                registry.register("k%d" % (ncls + j), cls)
                classes.append(cls)
            res = []
            try:
                for ci, val in seq:
                    if ci >= 4:  # 4 / 5 = the two file-based components
                        ci = ncls + (ci - 4)
                    page = Template("{%% component 'k%d' v=val %%}F{{ val }}{%% endcomponent %%}" % ci)
                    res.append(normalize_ids(page.render(Context({"val": val}))))
                    res.append(normalize_ids(classes[ci].render(kwargs={"v": val}, render_dependencies=False)))
            except Exception as e:  # noqa
                fails.append(("size %r: render raised %r" % (size, e), "rs-exc:" + exc_bucket(e)))
                break
            outs[size] = res
    env.reset()
    if not fails:
        base = outs[128]
        for size, res in outs.items():
            if res != base:
                idx = next(i for i, (a, b) in enumerate(zip(res, base)) if a != b)
                fails.append(("size %r output #%d %r != size 128 output %r" % (size, idx, res[idx], base[idx]), "rs-differs"))
                break
    return fails


# ---------------------------------------------------------------------------


# coverage-guided stage (atheris drives these Hypothesis shards, see vf/run.py): {tier: {shard kind: (shards, executions)}}
CG = {'thorough': {'hyp_ct': (4, 8000)}}


def plan(tier, seed, scale=1.0):
    b = BOUNDS[tier]
    specs = []
    ops = _ops(KEYS)
    # exhaustive: shard by (size, first op)
    for size in SIZES:
        for first in range(len(ops)):
            specs.append({"kind": "dfs", "size": size, "first": first, "maxlen": b["dfs_len"]})
    n = max(1, int(b["hyp_examples"] * scale))
    k = 1 if tier == "quick" else 6  # more, smaller Hypothesis shards in the thorough tier (bounded memory per shard)
    for sh in range(8 * k):
        specs.append({"kind": "hyp_lru", "n": n // (8 * k), "seed": derive_seed(seed, "lru", sh)})
    for sh in range(4 * k):
        specs.append({"kind": "hyp_ct", "n": max(50, n // (16 * k)), "seed": derive_seed(seed, "ct", sh)})
    for sh in range(4 * k):
        specs.append({"kind": "hyp_rs", "n": max(20, n // (60 * k)), "seed": derive_seed(seed, "rs", sh)})
    return specs


def run_shard(spec):
    from hypothesis import strategies as st

    col = Collector()
    kind = spec["kind"]
    if kind == "dfs":
        ops = _ops(KEYS)
        size, first, maxlen = spec["size"], spec["first"], spec["maxlen"]
        for ln in range(1, maxlen + 1):
            for rest in itertools.product(range(len(ops)), repeat=ln - 1):
                seq = [ops[first]] + [ops[i] for i in rest]
                # every prefix is itself enumerated, so the structure is walked after the last step only
                fails, model = run_history(size, seq, check_every_step=False)
                case = {"part": "lru", "size": size, "ops": [list(o) for o in seq]}
                nt = model.nontrivial
                col.case(("lru", size, tuple(seq)) if nt else None, nt, sample=case if nt else None, labels=("lru_dfs",) + (("lru_evicting",) if model.n_evictions else ()))
                for m, bk in fails:
                    col.fail(case, m, bk)
                    if len(col.failures) > 20:
                        return col
        col.exhaustive = True
        return col

    if kind == "hyp_lru":
        keys = ["a", "b", "c", "d"]
        op = st.one_of(
            st.tuples(st.sampled_from(["get", "set", "has"]), st.sampled_from(keys)).map(list),
            st.just(["clear", None]),
            st.tuples(st.just("set"), st.sampled_from(keys)).map(list),
        )
        strat = st.fixed_dictionaries({"part": st.just("lru"), "size": st.sampled_from(SIZES + [4]), "ops": st.lists(op, min_size=6, max_size=40)})

        def check(case):
            fails, model = run_history(case["size"], case["ops"], check_every_step=True)
            nt = model.nontrivial
            col.case(("lru", case["size"], repr(case["ops"])) if nt else None, nt, sample=case if nt else None, labels=("lru_hyp",) + (("lru_evicting",) if model.n_evictions else ()))
            return fails

        return hyp_search(strat, check, col, max_examples=spec["n"], seed=spec["seed"])

    if kind == "hyp_ct":
        # the last source (component tag) is drawn more often; a fifth of the steps re-register its component name first
        op = st.tuples(st.sampled_from(list(range(len(SOURCES))) + [len(SOURCES) - 1] * 3), st.integers(0, 1), st.integers(0, 1), st.sampled_from([0, 0, 0, 0, 1])).map(list)
        strat = st.fixed_dictionaries({"part": st.just("ct"), "size": st.sampled_from([0, 1, 2, 3, 128]), "ops": st.lists(op, min_size=3, max_size=25)})

        def check(case):
            fails, model = run_ct_history(case["size"], case["ops"])
            nt = model.nontrivial
            col.case(("ct", case["size"], repr(case["ops"])) if nt else None, nt, sample=case if nt else None, labels=("ct_hyp",) + (("ct_evicting",) if model.n_evictions else ()))
            return fails

        return hyp_search(strat, check, col, max_examples=spec["n"], seed=spec["seed"])

    if kind == "hyp_rs":
        strat = st.fixed_dictionaries(
            {
                "part": st.just("rs"),
                "ncls": st.integers(4, 6),
                "seq": st.lists(st.tuples(st.integers(0, 5), st.sampled_from(["x", "<b>", "y&z", 7])).map(list), min_size=3, max_size=12),
            }
        )

        def check(case):
            fails = run_render_seq(case["seq"], case["ncls"])
            distinct = len({c for c, _ in case["seq"]})
            nt = distinct >= 3  # more distinct inline templates than sizes 0,1,2 can hold -> evictions
            col.case(("rs", repr(case)) if nt else None, nt, sample=case if nt else None, labels=("rs_hyp",))
            return fails

        return hyp_search(strat, check, col, max_examples=spec["n"], seed=spec["seed"])
    raise ValueError(kind)


def replay(case):
    if case["part"] == "lru":
        return run_history(case["size"], [tuple(o) for o in case["ops"]], check_every_step=True)[0]
    if case["part"] == "ct":
        return run_ct_history(case["size"], case["ops"])[0]
    if case["part"] == "rs":
        return run_render_seq(case["seq"], case["ncls"])
    raise ValueError(case["part"])
