"""C03 — variable scoping follows the configured context behaviour.

PG programs in which page context, component data, with/for bindings (outside the tag, between tag
and fill, inside the inner template around the slot) and the slot-data alias draw their names from a
pool of 3-4 names, so collisions are the norm; every {{ var }} is a numbered probe.
(a) probe values / page text == reference interpreter (scoping rules of the property statement),
(b) 2-run non-interference in isolated mode: changing a page variable that is never referenced in the
    page's own lexical scope does not change the output,
(c) the caller's Context is left exactly as found.
"""
import re

from hypothesis import strategies as st

from vf import env
from vf.core import Collector, derive_seed, exc_bucket, hyp_search, jhash, known_active
from vf.gen import pg, pgmin, pgrun, pgstrat

PROP = "C03"
LEVEL = "exploration"
RULE = (
    "PG programs with colliding names: page context, get_context_data keys, with/for bindings at every position and the slot-data alias are drawn "
    "from the pool {x,y,z}; component templates additionally probe `u`, a page variable that the page's own lexical scope never references; every "
    "{{ var }} is a numbered probe [pN:value]; `only` on/off; both context_behavior values. Oracle (a): page text and per-probe value sequences equal the "
    "reference interpreter, which implements the scoping rules of the property statement (values whose winner the statement leaves open are wildcards); "
    "(b) isolated mode: two renders whose page contexts differ only in `u` give identical output; (c) Context.dicts, render_context depth and "
    "Context.template of the caller are unchanged after Template.render; (d) a third of the programs is rendered again with every component tag "
    "written as the dynamic component and must match the same prediction. "
    "Non-trivial = at least one probe whose value differs between django and isolated mode (model), or between the two runs' inputs in django mode; "
    "distinct by (program, mode)."
)
ASSUMPTIONS = [
    "reference interpreter encodes the property's scoping order: aliases > inner template bindings > inner data > bindings between tag and fill > outer variables (django); lexical tag-position environment + between bindings + aliases (isolated)",
    "isolated mode: a name bound between tag and fill that collides with a name visible at the tag, and the non-loop names of the forwarded loop layer are wildcards (statement silent); a name bound twice between tag and fill has its innermost value (lexical scoping)",
    "django mode + `only`: visibility of tag-position variables in fill content is a wildcard",
    "iterating / passing on slot-data dicts and slot references is outside the domain (case skipped)",
]
BOUNDS = {"quick": {"programs": 4800}, "thorough": {"programs": 200000}}
CFG = {"naming": "pool", "pool": ["x", "y", "z"], "probes": True, "errors": False, "isfilled": False, "max_nodes": 4, "extra_probe": "u", "assign": True}

_PROBE_RE = re.compile(r"\[p(\d+):([^\]\[]*)\]")


def attribute(case, message, bucket):
    return None


def probes_of(text):
    out = {}
    for m in _PROBE_RE.finditer(text):
        out.setdefault(int(m.group(1)), []).append(m.group(2))
    return out


def check_program(case, col=None):
    prog = case["program"]
    fails = []
    model_out = {}
    for mode in ("django", "isolated"):
        kind, exp, it = pgrun.run_model(prog, mode)
        if kind != "ok":
            if col is not None:
                col.case(None, False, labels=("model:" + kind, "mode:" + mode))
            continue
        model_out[mode] = exp
        res = pgrun.run_real(prog, mode, budget=20 * len(it.instances) + 50)
        if res.exc is not None:
            fails.append(("[%s] unexpected %r" % (mode, res.exc), "c03-exc:" + exc_bucket(res.exc)))
            continue
        real = pg.normalize_real(res.out)
        if not pg.matches(exp, real):
            pm, pr = probes_of(exp), probes_of(real)
            diffs = []
            for k in sorted(set(pm) | set(pr)):
                a, b = pm.get(k, []), pr.get(k, [])
                if len(a) != len(b) or any(not pg.matches(x, y) for x, y in zip(a, b)):
                    diffs.append("p%d: model %r real %r" % (k, a[:6], b[:6]))
            fails.append(("[%s] scoping differs; probes: %s\n expected: %r\n real:     %r" % (mode, "; ".join(diffs[:6]) or "(structure)", exp[:500], real[:500]), "c03-scope-" + mode))
        if res.ctx_unchanged is False:
            fails.append(("[%s] caller's Context changed by render: %s" % (mode, (res.ctx_diff or "")[:600]), "c03-context-mutated"))
        # (d) the same program with every component tag written as {% component "dynamic" is="cX" %}: same scoping
        if case.get("dynamic") and not fails:
            resd = pgrun.run_real(prog, mode, {"dynamic": "name"}, budget=40 * len(it.instances) + 100)
            if resd.exc is not None:
                fails.append(("[%s] dynamic-component variant raised %r" % (mode, resd.exc), "c03-dynamic-exc:" + exc_bucket(resd.exc)))
            else:
                reald = pg.normalize_real(resd.out)
                if not pg.matches(exp, reald):
                    fails.append(("[%s] dynamic-component variant: scoping differs\n expected: %r\n tag form: %r\n dynamic:  %r" % (mode, exp[:500], real[:500], reald[:500]), "c03-dynamic-scope-" + mode))
            if col is not None:
                col.count("variant:dynamic")
        # (b) non-interference: perturb the page variable `u`
        prog2 = {"comps": prog["comps"], "page": {"ctx": dict(prog["page"]["ctx"], u="PERTURBED"), "tpl": prog["page"]["tpl"]}}
        res2 = pgrun.run_real(prog2, mode, budget=20 * len(it.instances) + 50)
        differs = None
        if res2.exc is None:
            real2 = pg.normalize_real(res2.out)
            differs = real2 != real
            if mode == "isolated" and differs:
                fails.append(("[isolated] output depends on the unpassed page variable `u`\n u=%r: %r\n u='PERTURBED': %r" % (prog["page"]["ctx"].get("u"), real[:400], real2[:400]), "c03-interference"))
        elif mode == "isolated":
            fails.append(("[isolated] render with perturbed `u` raised %r" % (res2.exc,), "c03-interference-exc"))
        if col is not None:
            other = model_out.get("django") if mode == "isolated" else None
            nt = bool(differs) if mode == "django" else (other is not None and other != exp)
            labels = ["mode:" + mode, "model:ok"]
            if pg.WILD in exp:
                labels.append("has_wildcard")
            if differs:
                labels.append("u_flows_into_output")
            sample = {"mode": mode, "page_ctx": prog["page"]["ctx"], "page": pg.template_source(prog["page"]["tpl"])[:400], "components": {c["name"]: [c["data"], pg.template_source(c["tpl"])[:300]] for c in prog["comps"]}, "output": real[:200]} if nt else None
            col.case(jhash([prog, mode]), nt, sample=sample, labels=labels)
    return fails


# coverage-guided stage (atheris drives these Hypothesis shards, see vf/run.py): {tier: {shard kind: (shards, executions)}}
CG = {'thorough': {'main': (8, 4000)}}


def plan(tier, seed, scale=1.0):
    n = max(16, int(BOUNDS[tier]["programs"] * scale))
    shards = 16 if tier == "quick" else 128
    return [{"kind": "main", "n": n // shards, "seed": derive_seed(seed, "c03", sh)} for sh in range(shards)]


def run_shard(spec):
    col = Collector()
    strat = st.builds(lambda p, d: {"kind": "main", "program": p, "dynamic": d < 34}, pgstrat.programs(CFG), st.integers(0, 99))
    return hyp_search(strat, lambda case: check_program(case, col), col, max_examples=spec["n"], seed=spec["seed"], shrink=False, attribute=attribute, post_min=lambda c, still: pgmin.minimize(c, still, 400))


def replay(case):
    return check_program(case)
