"""C15 — registries behave as dictionaries and keep the tag library consistent.

Histories of register / unregister / clear (+ get / all / `in` after every step) on ComponentRegistry
instances that each own a private django.template.Library, for several tag formatters and with/without
protected tags.

(a) exhaustive enumeration of all histories of the 13 mutating operations (3 names x 3 classes register,
    3 unregister, clear) up to a length bound, for 6 configurations, sharded by (configuration, first op); 4 more
    configurations (marked libraries that lack the protected names as tags; a settings callable that switches
    between the default and the shorthand formatter) up to a shorter bound;
(b) Hypothesis-generated longer histories over 5 names x 4 classes (some sharing their __name__) on 1-3 registries
    with generated formatters (built-in ones by import path or instance, generated name->tag maps), generated
    protected lists, libraries with / without the protected names as tags, every documented way of configuring the
    formatter, and formatter changes in the middle of a history (settings callable / global setting).

Oracle = plain dict per registry + an independent start-tag function + the set of protected tags.
"""
import itertools

from vf import env
from vf.core import Collector, derive_seed, exc_bucket, hyp_search, jhash

PROP = "C15"
LEVEL = "exploration"
RULE = (
    "Part dfs: every sequence of the 13 mutating calls {register(n,c) for 3 names (alpha, beta, slot) x 3 classes, "
    "unregister(n), clear()} up to the length bound on one registry with a private Library, for 6 configurations: "
    "{component_formatter, component_shorthand_formatter} x {library marked with mark_protected_tags, not marked} plus a "
    "custom TagFormatterABC that maps alpha,beta -> one tag and slot -> `slot` (marked / not marked); after EVERY step "
    "get(n) for all names, all(), `n in all()` and set(library.tags) are compared with the model. Up to the shorter bound "
    "dfs_extra_len the same enumeration for 4 more configurations: shorthand / map formatter on a marked private Library "
    "in which NONE of the protected names is a tag (fresh Library() + mark_protected_tags), and a registry whose settings "
    "are a callable, with two extra operations that make the callable answer component_formatter / "
    "component_shorthand_formatter from then on (marked / not marked). The three classes: two share their __name__ and "
    "differ in the module, the third has another name in the first one's module. Part hyp: Hypothesis "
    "lists of up to 45 calls (register via method or @register decorator, unregister, clear, get, all, in, and `setfmt` = "
    "the settings callable of the registry, or the global COMPONENTS setting it follows, answers with another generated "
    "formatter from now on) over 5 names "
    "(alpha, beta, slot, fill, component) x 4 classes (three share their __name__ and differ in module or qualname) on "
    "1-3 registries, each with its own Library, formatter "
    "(built-in by import path / instance, or generated name->tag map), protected list (none / default / generated), a "
    "generated subset of the built-in / protected names that are NOT tags of the library (none / all / some) and "
    "way of passing the formatter (RegistrySettings.tag_formatter, deprecated TAG_FORMATTER, settings callable, global "
    "COMPONENTS setting). Model: dict name->class and name->start tag under the formatter in force when the name was "
    "registered; AlreadyRegistered iff bound to another class (import path, not __name__); NotRegistered iff missing; "
    "TagProtectedError iff the start tag is in the protected list (whether or not the library has such a tag), state "
    "unchanged; set(library.tags) - initial == start tags of registered names; initial "
    "(protected / unrelated) tag entries keep their identity; default registry + default library untouched. "
    "Non-trivial = the history contains a successful unregister(n) executed while another registered name of the same "
    "registry shares n's start tag, or a clear() executed while two registered names share a start tag; "
    "distinct by (configuration, call sequence)."
)
ASSUMPTIONS = [
    "component classes have distinct import paths (the registry identifies classes by a hash of module + qualname); their "
    "__name__ may coincide",
    "every registry owns its Library (two registries on one Library / one start tag are rejected by the library by design)",
    "the protected list of a library does not change during a history; the tag formatter changes only where the history "
    "says so (`setfmt`) and only for registries that look it up on every call (settings callable / global setting); a name "
    "registered before the change keeps the start tag it was registered under until it is unregistered",
    "re-registering the SAME class under a name whose start tag differs from the one it was registered under (formatter "
    "changed in between) moves the name to the new start tag: the old tag is released like in unregister() "
    "(REREGISTER_UNDER_CHANGED_TAG = True; the pinned tree left the old tag in the library for good, repaired in /repo, "
    "witness regress/C15/d1_reregister_under_changed_tag.json)",
    "pre-existing library tags that are NOT protected never coincide with a start tag any formatter of the history can "
    "produce (the registry overwrites and later deletes such tags by documented design: protection is opt-in for private "
    "libraries)",
    "component names / formatter outputs are valid tag names (TAG_RE); other names raise ValueError by design",
    "`in` is evaluated as `name in registry.all()` (ComponentRegistry 0.129 has no __contains__)",
    "order of all() is not compared (only dict equality and identity of the classes)",
]
BOUNDS = {
    "quick": {"dfs_len": 5, "dfs_sparse_len": 4, "dfs_extra_len": 4, "hyp_examples": 24000, "hyp_per_shard": 750, "hyp_max_ops": 45},
    "thorough": {"dfs_len": 6, "dfs_sparse_len": 5, "dfs_extra_len": 5, "hyp_examples": 160000, "hyp_per_shard": 1000, "hyp_max_ops": 45},
}

# ---------------------------------------------------------------------------
# domain

NAMES = ["alpha", "beta", "slot"]  # `slot` is a protected built-in tag name
HNAMES = ["alpha", "beta", "slot", "fill", "component"]
NCLS_DFS = 3
NCLS_HYP = 4
# the library's built-in tags (docs of TagProtectedError / tests/test_registry.py::ProtectedTagsTest)
BUILTIN_PROTECTED = ["component_css_dependencies", "component_js_dependencies", "fill", "html_attrs", "provide", "slot"]
UNRELATED_TAG = "vf_keep"  # an unrelated, unprotected tag that lives in every private library
TAG_POOL = ["component", "grp", "slot", "fill", "x-y:z", "alpha"]
PROT_POOL = ["component", "grp", "slot", "alpha", "fill", "x-y:z"]

PATHS = {
    "default": "django_components.component_formatter",
    "shorthand": "django_components.component_shorthand_formatter",
}

# Same-class re-registration of a name whose start tag differs from the one it was registered under (the formatter
# changed in between). DISABLED: the unmodified library violates the property there (the old tag stays in the library
# for good, see replays/C15/reregister_under_changed_tag.json); while False such calls are generated but not made.
REREGISTER_UNDER_CHANGED_TAG = True

F_DEFAULT = {"kind": "default", "form": "path"}
F_SHORT = {"kind": "shorthand", "form": "path"}
F_MAP = {"kind": "map", "form": "instance", "map": {"alpha": "grp", "beta": "grp", "slot": "slot"}}

DFS_CONFIGS = [
    ("default/unmarked", {"fmt": F_DEFAULT, "via": "settings", "protected": None}),
    ("default/protected", {"fmt": F_DEFAULT, "via": "settings", "protected": "default"}),
    ("shorthand/unmarked", {"fmt": F_SHORT, "via": "settings", "protected": None}),
    ("shorthand/protected", {"fmt": F_SHORT, "via": "settings", "protected": "default"}),
    ("map/unmarked", {"fmt": F_MAP, "via": "settings", "protected": None}),
    ("map/protected", {"fmt": F_MAP, "via": "settings", "protected": "default"}),
]


# further configurations, enumerated up to BOUNDS[tier]["dfs_extra_len"]: (label, registry spec, extra operations)
F_DEFAULT_I = {"kind": "default", "form": "instance"}
F_SHORT_I = {"kind": "shorthand", "form": "instance"}
_TOGGLE = [(0, "setfmt", F_DEFAULT_I), (0, "setfmt", F_SHORT_I)]
DFS_EXTRA_CONFIGS = [
    # a fresh private Library that is marked while none of the protected names is a tag of it
    ("shorthand/protected-names-not-in-library", {"fmt": F_SHORT, "via": "settings", "protected": "default", "absent": "all"}, []),
    ("map/protected-names-not-in-library", {"fmt": F_MAP, "via": "settings", "protected": "default", "absent": "all"}, []),
    # settings given as a callable whose answer switches between the default and the shorthand formatter
    ("default<->shorthand via callable/unmarked", {"fmt": F_DEFAULT_I, "via": "callable", "protected": None}, _TOGGLE),
    ("default<->shorthand via callable/protected", {"fmt": F_DEFAULT_I, "via": "callable", "protected": "default"}, _TOGGLE),
]
ALL_DFS_CONFIGS = [(n, r, []) for n, r in DFS_CONFIGS] + DFS_EXTRA_CONFIGS


def dfs_ops(extra=()):
    ops = []
    for n in NAMES:
        for c in range(NCLS_DFS):
            ops.append((0, "register", n, c))
    for n in NAMES:
        ops.append((0, "unregister", n))
    ops.append((0, "clear"))
    ops.extend(extra)
    return ops


_OP_LETTERS = "abcdefghijklmnopqrstuvwxyz"

_cls_cache = []


# (name, module, qualname) of the generated classes: all import paths differ (see ASSUMPTIONS); 0, 1 and 3 share their
# __name__ and differ only in the module (0/1: `forms.Button` vs `tables.Button`) or the qualname (0/3: a nested class);
# 0 and 2 share the module and differ in the name. The dfs part uses 0-2, the hyp part all four.
OTHER_MODULE = "vf_c15_other_app.components"
CLASS_SPECS = [
    ("VfC15K", None, "VfC15K"),
    ("VfC15K", OTHER_MODULE, "VfC15K"),
    ("VfC15K2", None, "VfC15K2"),
    ("VfC15K", None, "VfC15Outer.VfC15K"),
]


def classes():
    """Four component classes with distinct import paths, created once per process."""
    if not _cls_cache:
        import sys
        import types

        from django_components import Component

        if OTHER_MODULE not in sys.modules:
            pkg = OTHER_MODULE.split(".")[0]
            for modname in (pkg, OTHER_MODULE):
                mod = types.ModuleType(modname)
                mod.__file__ = None
                sys.modules[modname] = mod
        for name, module, qualname in CLASS_SPECS:
            cls = type(name, (Component,), {"__module__": module or __name__, "__qualname__": qualname})
            if (cls.__name__, cls.__module__, cls.__qualname__) != (name, module or __name__, qualname):
                raise RuntimeError("generated class has the wrong identity: %r" % (cls,))
            _cls_cache.append(cls)
        hashes = {c._class_hash for c in _cls_cache}
        if len(hashes) != len(_cls_cache):
            raise RuntimeError("generated classes share a class hash: %r" % (hashes,))
    return _cls_cache


def _same_short_name(ci, cj):
    return ci != cj and CLASS_SPECS[ci][0] == CLASS_SPECS[cj][0]


_map_formatter_cls = []


def _map_formatter(mapping):
    """A user-defined tag formatter as documented in docs/concepts/advanced/tag_formatter.md."""
    if not _map_formatter_cls:
        from django_components import TagFormatterABC, TagResult

        class VfMapFormatter(TagFormatterABC):
            def __init__(self, mapping):
                self.mapping = dict(mapping)

            def start_tag(self, name):
                return self.mapping.get(name, name)

            def end_tag(self, name):
                return "end" + self.mapping.get(name, name)

            def parse(self, tokens):
                tokens = [*tokens]
                tokens.pop(0)
                name = tokens.pop(0)
                return TagResult(name.strip("'\""), tokens)

        _map_formatter_cls.append(VfMapFormatter)
    return _map_formatter_cls[0](mapping)


def _formatter_value(fmt):
    """The object handed to the library for a formatter spec."""
    if fmt["kind"] == "map":
        return _map_formatter(fmt["map"])
    if fmt.get("form", "path") == "path":
        return PATHS[fmt["kind"]]
    import django_components

    return django_components.component_formatter if fmt["kind"] == "default" else django_components.component_shorthand_formatter


def model_start_tag(fmt, name):
    """Independent model of the start tag (docs: default -> `component`, shorthand -> the name)."""
    if fmt["kind"] == "default":
        return "component"
    if fmt["kind"] == "shorthand":
        return name
    return fmt["map"].get(name, name)


_sentinels = {}


def _sentinel(tag):
    """One compile-function object per tag name (only its identity matters; it is never called)."""
    fn = _sentinels.get(tag)
    if fn is None:

        def compile_fn(parser, token):  # pragma: no cover - never called
            raise AssertionError("sentinel tag %s compiled" % tag)

        compile_fn.__name__ = "sentinel_" + "".join(ch if ch.isalnum() else "_" for ch in tag)
        fn = _sentinels[tag] = compile_fn
    return fn


_sym = {}


def _symbols():
    """Library symbols used in the hot loop, imported once (after Django setup)."""
    if not _sym:
        import django_components
        from django.template import Library
        from django_components import AlreadyRegistered, ComponentRegistry, NotRegistered, RegistrySettings, TagProtectedError
        from django_components.component_registry import all_registries
        from django_components.library import mark_protected_tags

        _sym.update(
            djc=django_components,
            Library=Library,
            AlreadyRegistered=AlreadyRegistered,
            NotRegistered=NotRegistered,
            TagProtectedError=TagProtectedError,
            ComponentRegistry=ComponentRegistry,
            RegistrySettings=RegistrySettings,
            all_registries=all_registries,
            mark_protected_tags=mark_protected_tags,
        )
    return _sym


def _follows_global(rspec):
    return rspec.get("fmt") is None or rspec.get("via") == "global"


def _can_change_formatter(rspec):
    """Registries whose formatter is looked up again on every call: settings given as a callable, or no registry-level
    formatter (the global COMPONENTS setting applies). A RegistrySettings tuple is immutable."""
    return _follows_global(rspec) or rspec.get("via") == "callable"


class RegModel:
    """Reference model of one registry + its library."""

    def __init__(self, idx, rspec, global_fmt, later_fmts=()):
        self.idx = idx
        self.follows_global = _follows_global(rspec)
        self.fmt = (global_fmt or F_DEFAULT) if self.follows_global else rspec["fmt"]
        prot = rspec.get("protected")
        if prot is None:
            self.prot = frozenset()
        elif prot == "default":
            self.prot = frozenset(BUILTIN_PROTECTED)
        else:
            self.prot = frozenset(prot)
        self.d = {}  # name -> class index
        self.tag = {}  # name -> start tag under the formatter that was in force when the name was registered
        # every start tag any formatter of this history can produce
        image = {model_start_tag(f, n) for f in [self.fmt, *later_fmts] for n in HNAMES}
        absent = rspec.get("absent")
        init = []
        for t in BUILTIN_PROTECTED + [UNRELATED_TAG] + sorted(self.prot):
            if t in init:
                continue
            if t in image and t not in self.prot:
                continue  # see ASSUMPTIONS: unprotected pre-existing tags never collide with a start tag
            if t != UNRELATED_TAG and absent is not None and (absent == "all" or t in absent):
                continue  # a (protected) name that is not a tag of this library
            init.append(t)
        self.initial_names = init
        self.absent_protected = self.prot - set(init)
        self.initial = {}  # tag -> sentinel object (filled by build)
        self.reg = None
        self.lib = None
        self.holder = None
        self.changed = False  # the formatter was replaced by one that maps some name to another start tag

    def start(self, name):
        return model_start_tag(self.fmt, name)

    def expected_tags(self):
        return set(self.tag.values())


def build(rspec, model):
    sym = _symbols()
    Library, ComponentRegistry, RegistrySettings, mark_protected_tags = sym["Library"], sym["ComponentRegistry"], sym["RegistrySettings"], sym["mark_protected_tags"]
    lib = Library()
    for t in model.initial_names:
        fn = _sentinel(t)
        lib.tags[t] = fn
        model.initial[t] = fn
    prot = rspec.get("protected")
    if prot == "default":
        mark_protected_tags(lib)
    elif prot is not None:
        mine = list(prot)
        mark_protected_tags(lib, mine)
        # the list stays the caller's: what the caller does with it afterwards must not change the library's protection
        mine.reverse()
        mine.append("alpha")
        del mine[:-1]
    via = rspec.get("via", "settings")
    if model.follows_global:
        settings = None
    else:
        val = _formatter_value(rspec["fmt"])
        if via == "settings":
            settings = RegistrySettings(tag_formatter=val)
        elif via == "legacy":
            settings = RegistrySettings(TAG_FORMATTER=val)
        elif via == "callable":
            # "a callable that returns the settings": consulted on every call, so its answer may change (op `setfmt`)
            holder = model.holder = {"v": val}
            settings = lambda reg, _h=holder: RegistrySettings(tag_formatter=_h["v"])  # noqa: E731
        else:
            raise ValueError(via)
    model.lib = lib
    model.reg = ComponentRegistry(library=lib, settings=settings)
    return model


# ---------------------------------------------------------------------------
# oracle


def state_errors(m, names, clss, use_all=True):
    """Compare registry `m.reg` + library with the model through the public read-only API.
    use_all=False: without calling all() (histories in which all() is only called where the history says so, so that
    an all() whose result depends on when all() was called before is observable)."""
    NotRegistered = _symbols()["NotRegistered"]
    errs = []
    reg = m.reg
    want = {n: clss[c] for n, c in m.d.items()}
    if use_all:
        try:
            got = reg.all()
        except Exception as e:  # noqa
            return [("registry %d: all() raised %r" % (m.idx, e), "all-exc:" + exc_bucket(e))]
        if not isinstance(got, dict) or got != want or any(got[k] is not want[k] for k in want):
            errs.append(("registry %d: all() == %r, model %r" % (m.idx, _show(got), _show(want)), "all-differs"))
    for n in names:
        try:
            isin = (n in reg.all()) if use_all else None
        except Exception as e:  # noqa
            errs.append(("registry %d: `%s in all()` raised %r" % (m.idx, n, e), "in-exc:" + exc_bucket(e)))
            isin = None
        if isin is not None and isin != (n in m.d):
            errs.append(("registry %d: `%s in all()` is %r, model %r" % (m.idx, n, isin, n in m.d), "in-differs"))
        try:
            r = reg.get(n)
        except NotRegistered:
            if n in m.d:
                errs.append(("registry %d: get(%r) raised NotRegistered but the model holds it" % (m.idx, n), "get-spurious-NotRegistered"))
        except Exception as e:  # noqa
            errs.append(("registry %d: get(%r) raised %r" % (m.idx, n, e), "get-exc:" + exc_bucket(e)))
        else:
            if n not in m.d:
                errs.append(("registry %d: get(%r) returned %r but the model does not hold it" % (m.idx, n, r), "get-missing-NotRegistered"))
            elif r is not want[n]:
                errs.append(("registry %d: get(%r) returned %r, model %r" % (m.idx, n, r, want[n]), "get-differs"))
    tags = m.lib.tags
    extra = set(tags) - set(m.initial)
    exp = m.expected_tags()
    if extra != exp:
        if extra - exp:
            errs.append(("registry %d: library has tag(s) %r that no registered component uses (registered %r)" % (m.idx, sorted(extra - exp), sorted(m.d)), "tag-stale"))
        if exp - extra:
            errs.append(("registry %d: library lacks tag(s) %r used by registered component(s) %r" % (m.idx, sorted(exp - extra), sorted(m.d)), "tag-missing"))
    for t, fn in m.initial.items():
        if t not in tags:
            errs.append(("registry %d: pre-existing %s tag %r was removed from the library" % (m.idx, "protected" if t in m.prot else "unrelated", t), "initial-removed:" + ("protected" if t in m.prot else "unrelated")))
        elif tags[t] is not fn:
            errs.append(("registry %d: pre-existing %s tag %r was overwritten" % (m.idx, "protected" if t in m.prot else "unrelated", t), "initial-overwritten:" + ("protected" if t in m.prot else "unrelated")))
    for t in extra & exp:
        if not callable(tags[t]):
            errs.append(("registry %d: library tag %r is not callable: %r" % (m.idx, t, tags[t]), "tag-not-callable"))
    return errs


def _show(d):
    try:
        return {k: "%s.%s" % (v.__module__, v.__qualname__) if isinstance(v, type) else v for k, v in d.items()}
    except Exception:  # noqa
        return d


_global_snapshot = {}


def _global_state():
    sym = _symbols()
    if "default_registry" not in sym:
        from django_components import registry
        from django_components.templatetags.component_tags import register as default_lib

        sym["default_registry"], sym["default_lib"] = registry, default_lib
    return dict(sym["default_registry"].all()), dict(sym["default_lib"].tags)


def _outcome(exc):
    if exc is None:
        return "ok"
    sym = _symbols()
    for name in ("AlreadyRegistered", "NotRegistered", "TagProtectedError"):
        if isinstance(exc, sym[name]):
            return name
    return "other"


class Stats:
    __slots__ = (
        "shared_removal", "already", "notreg", "protected", "noop", "clear_nonempty", "max_shared", "nregs", "nops",
        "protected_absent", "already_same_name", "fmt_changed", "reg_after_change", "mixed_tags", "skipped",
    )

    def __init__(self):
        self.shared_removal = False
        self.already = self.notreg = self.protected = self.noop = self.clear_nonempty = False
        self.protected_absent = self.already_same_name = self.fmt_changed = self.reg_after_change = self.mixed_tags = False
        self.max_shared = 0
        self.nregs = 0
        self.nops = 0
        self.skipped = 0

    def labels(self):
        out = []
        if self.shared_removal:
            out.append("removal_while_tag_shared")
        if self.already:
            out.append("has_AlreadyRegistered")
        if self.already_same_name:
            out.append("has_AlreadyRegistered_between_classes_with_equal___name__")
        if self.notreg:
            out.append("has_NotRegistered")
        if self.protected:
            out.append("has_TagProtectedError")
        if self.protected_absent:
            out.append("has_TagProtectedError_for_protected_name_that_is_no_tag_of_the_library")
        if self.noop:
            out.append("has_same_class_reregistration")
        if self.clear_nonempty:
            out.append("has_clear_of_nonempty")
        if self.fmt_changed:
            out.append("formatter_changed_during_history")
        if self.reg_after_change:
            out.append("has_new_registration_after_formatter_change")
        if self.mixed_tags:
            out.append("names_registered_under_different_formatters_coexist")
        if self.skipped:
            out.append("skipped_same_class_reregistration_under_changed_start_tag")
        return out


def run_ops(regspecs, global_fmt, ops, full_every_step=True, sparse_all=False, rereg=None):
    """Execute a history. Returns (failures, Stats). failures: list[(message, bucket)]."""
    sym = _symbols()
    django_components, all_registries = sym["djc"], sym["all_registries"]
    clss = classes()
    if "s" not in _global_snapshot:
        env.reset()
        _global_snapshot["s"] = _global_state()
    if rereg is None:
        rereg = REREGISTER_UNDER_CHANGED_TAG
    st = Stats()
    st.nregs = len(regspecs)
    st.nops = len(ops)
    fails = []
    n0 = len(all_registries)
    gctx = []  # the override of the global COMPONENTS["tag_formatter"] that is in force (at most one)

    def set_global(fmt):
        while gctx:
            gctx.pop().__exit__(None, None, None)
        if fmt is not None:
            c = env.components_settings(tag_formatter=_formatter_value(fmt))
            c.__enter__()
            gctx.append(c)

    try:
        set_global(global_fmt)
        models = []
        for i, rs in enumerate(regspecs):
            if _follows_global(rs):
                later = [o[2] for o in ops if o[1] == "setfmt" and _follows_global(regspecs[o[0]])]
            else:
                later = [o[2] for o in ops if o[1] == "setfmt" and o[0] == i]
            models.append(build(rs, RegModel(i, rs, global_fmt, later)))
        names = HNAMES if (len(regspecs) > 1 or any(len(o) > 2 and o[1] != "setfmt" and o[2] not in NAMES for o in ops)) else NAMES
        for m in models:  # a fresh registry is an empty dict and leaves the library alone
            errs = state_errors(m, names, clss)
            if errs:
                return [("before any call: " + errs[0][0], "fresh:" + errs[0][1])], st
        last = len(ops) - 1
        for i, op in enumerate(ops):
            m = models[op[0]]
            kind = op[1]
            reg = m.reg
            exc = None
            ret = None
            if kind == "setfmt":
                # not a call on the registry: the registry's settings getter (or the global COMPONENTS setting the registry
                # follows) answers with another tag formatter from now on. Names registered so far keep their tags.
                fmt = op[2]
                want = "ok"
                targets = [x for x in models if x.follows_global] if m.follows_global else [m]
                if not _can_change_formatter(regspecs[op[0]]):
                    raise ValueError("setfmt on a registry with fixed settings: %r" % (op,))
                if any(model_start_tag(fmt, n) != x.start(n) for x in targets for n in HNAMES):
                    st.fmt_changed = True
                    for x in targets:
                        x.changed = True
                if m.follows_global:
                    set_global(fmt)
                else:
                    m.holder["v"] = _formatter_value(fmt)
                for x in targets:
                    x.fmt = fmt
            elif kind == "register":
                name, ci = op[2], op[3]
                tag = m.start(name)
                if name in m.d and m.d[name] != ci:
                    want = "AlreadyRegistered"  # "raised exactly on conflicting names"
                elif name in m.d and m.tag[name] != tag and not rereg:
                    want = "skip"  # outside the enabled domain (see REREGISTER_UNDER_CHANGED_TAG): the call is not made
                elif tag in m.prot:
                    want = "TagProtectedError"
                else:
                    want = "ok"
                deco = len(op) > 4 and op[4]
                try:
                    if want == "skip":
                        pass
                    elif deco:
                        ret = django_components.register(name, registry=reg)(clss[ci])
                    else:
                        reg.register(name, clss[ci])
                except Exception as e:  # noqa  (classified below; anything unexpected is a failure)
                    exc = e
                if want == "skip":
                    st.skipped += 1
                    want, ret = "ok", clss[ci]
                elif want == "ok":
                    if name in m.d:
                        st.noop = True
                    elif m.changed:
                        st.reg_after_change = True
                    m.d[name] = ci
                    # a same-class re-registration under a changed formatter moves the name to its new start tag
                    m.tag[name] = tag
                    if len({m.tag[k] == m.start(k) for k in m.d}) == 2:
                        st.mixed_tags = True
                elif want == "AlreadyRegistered":
                    st.already = True
                    if _same_short_name(m.d[name], ci):
                        st.already_same_name = True
                else:
                    st.protected = True
                    if tag in m.absent_protected:
                        st.protected_absent = True
                if exc is None and deco and ret is not clss[ci]:
                    fails.append(("step %d: @register(%r) returned %r instead of the class" % (i, name, ret), "decorator-return"))
            elif kind == "unregister":
                name = op[2]
                if name in m.d:
                    want = "ok"
                    tag = m.tag[name]
                    if any(k != name and m.tag[k] == tag for k in m.d):
                        st.shared_removal = True
                else:
                    want = "NotRegistered"
                    st.notreg = True
                try:
                    reg.unregister(name)
                except Exception as e:  # noqa
                    exc = e
                if want == "ok":
                    del m.d[name]
                    del m.tag[name]
            elif kind == "clear":
                want = "ok"
                if m.d:
                    st.clear_nonempty = True
                    tags = [m.tag[k] for k in m.d]
                    if len(set(tags)) != len(tags):
                        st.shared_removal = True
                try:
                    reg.clear()
                except Exception as e:  # noqa
                    exc = e
                m.d.clear()
                m.tag.clear()
            elif kind == "get":
                name = op[2]
                want = "ok" if name in m.d else "NotRegistered"
                if want != "ok":
                    st.notreg = True
                try:
                    ret = reg.get(name)
                except Exception as e:  # noqa
                    exc = e
                if exc is None and want == "ok" and ret is not clss[m.d[name]]:
                    fails.append(("step %d: get(%r) returned %r, model %r" % (i, name, ret, clss[m.d[name]]), "get-differs"))
            elif kind == "all":
                want = "ok"
                try:
                    ret = reg.all()
                except Exception as e:  # noqa
                    exc = e
                if exc is None and ret != {n: clss[c] for n, c in m.d.items()}:
                    fails.append(("step %d: all() returned %r, model %r" % (i, _show(ret), m.d), "all-differs"))
            elif kind == "in":
                name = op[2]
                want = "ok"
                try:
                    ret = name in reg.all()
                except Exception as e:  # noqa
                    exc = e
                if exc is None and ret != (name in m.d):
                    fails.append(("step %d: `%r in all()` is %r, model %r" % (i, name, ret, name in m.d), "in-differs"))
            else:
                raise ValueError("unknown op %r" % (op,))

            got = _outcome(exc)
            if got != want:
                if got == "other":
                    fails.append(("step %d %s%r on registry %d raised %r (model: %s)" % (i, kind, tuple(op[2:]), op[0], exc, want), "%s-exc:%s" % (kind, exc_bucket(exc))))
                else:
                    fails.append(("step %d %s%r on registry %d: outcome %s, model says %s (model contents %r)" % (i, kind, tuple(op[2:]), op[0], got, want, m.d), "%s:%s-instead-of-%s" % (kind, got, want)))
            if fails:
                return fails, st
            shared = len(m.d) - len(m.expected_tags())
            if shared > st.max_shared:
                st.max_shared = shared
            if full_every_step or i == last:
                for mm in models:
                    errs = state_errors(mm, names, clss, use_all=(not sparse_all) or i == last)
                    if errs:
                        msg, bk = errs[0]
                        return [("after step %d %s%r on registry %d: %s" % (i, kind, tuple(op[2:]), op[0], "; ".join(e[0] for e in errs[:3])), bk)], st
        # isolation from the default registry / default library
        if _global_state() != _global_snapshot["s"]:
            fails.append(("calls on private registries changed the default registry or the default tag library", "default-registry-touched"))
            env.reset()
            _global_snapshot["s"] = _global_state()
    finally:
        del all_registries[n0:]
        set_global(None)
    return fails, st


def run_case(case, full_every_step=True):
    # "reregister_under_changed_tag": true in a (hand-kept) case switches the disabled sub-domain on for that case only
    return run_ops(
        case["regs"], case.get("global_fmt"), [tuple(o) for o in case["ops"]], full_every_step=full_every_step,
        sparse_all=bool(case.get("sparse_all")), rereg=True if case.get("reregister_under_changed_tag") else None,
    )


# ---------------------------------------------------------------------------


# coverage-guided stage (atheris drives these Hypothesis shards, see vf/run.py): {tier: {shard kind: (shards, executions)}}
CG = {'thorough': {'hyp': (6, 10000)}}


def plan(tier, seed, scale=1.0):
    b = BOUNDS[tier]
    specs = []
    nops = len(dfs_ops())
    for ci in range(len(DFS_CONFIGS)):
        for first in range(nops):
            specs.append({"kind": "dfs", "cfg": ci, "first": first, "maxlen": b["dfs_len"]})
    # the same enumeration with all() as a step of its own and not called by the per-step observation (shorter)
    for first in range(nops):
        specs.append({"kind": "dfs", "cfg": 0, "first": first, "maxlen": b["dfs_sparse_len"], "sparse": True})
    for ci in range(len(DFS_CONFIGS), len(ALL_DFS_CONFIGS)):
        for first in range(len(dfs_ops(ALL_DFS_CONFIGS[ci][2]))):
            specs.append({"kind": "dfs", "cfg": ci, "first": first, "maxlen": b["dfs_extra_len"]})
    n = max(16, int(b["hyp_examples"] * scale))
    # Hypothesis keeps a tree of everything it generated (~0.1 MB per example here): many small shards bound the memory
    nsh = max(16, min(256, n // b["hyp_per_shard"]))
    hyp = [{"kind": "hyp", "n": max(1, n // nsh), "seed": derive_seed(seed, "hyp", sh), "max_ops": b["hyp_max_ops"], "shard": sh} for sh in range(nsh)]
    # interleave so that long Hypothesis shards start early
    out = []
    per = max(1, -(-len(hyp) // len(specs)))
    for s in specs:
        out.extend(hyp[:per])
        del hyp[:per]
        out.append(s)
    out.extend(hyp)
    return out


def _mk_fmt(t):
    kind, form, mapping = t
    if kind == "map":
        return {"kind": "map", "form": "instance", "map": mapping}
    return {"kind": kind, "form": form}


def _mk_prot(t):
    kind, lst = t
    return None if kind == "none" else ("default" if kind == "default" else lst)


def _mk_absent(t):
    kind, lst = t
    return None if kind == "none" else ("all" if kind == "all" else lst)


def _mk_reg(t):
    via, fmt, prot, absent = t
    out = {"fmt": None if via == "global" else fmt, "via": via, "protected": prot}
    if absent is not None:
        out["absent"] = absent
    return out


def _mk_op(t):
    kind, ri, name, ci, deco = t
    if kind == "register":
        return [ri, kind, name, ci, deco]
    if kind == "setfmt":
        return [ri, kind, ci]  # the class draw doubles as the choice among the case's formatters (no extra draw per op)
    if kind in ("clear", "all"):
        return [ri, kind]
    return [ri, kind, name]


def _mk_case(case):
    """A RegistrySettings tuple cannot change: `setfmt` only exists for registries that look their formatter up anew."""
    alts = case.pop("alt_fmts")  # a few formatters per case; a `setfmt` step picks one of them
    ops = []
    for o in case["ops"]:
        if o[1] == "setfmt":
            if not _can_change_formatter(case["regs"][o[0]]):
                continue
            o = [o[0], o[1], alts[o[2] % len(alts)]]
        ops.append(o)
    case["ops"] = ops
    return case


def _case_strategy(max_ops):
    """NB: st.one_of() de-duplicates its branches, so all weights are expressed through sampled_from lists."""
    from hypothesis import strategies as st

    mapping = st.dictionaries(st.sampled_from(HNAMES), st.sampled_from(TAG_POOL), min_size=1, max_size=len(HNAMES))
    fmt = st.tuples(st.sampled_from(["default", "default", "shorthand", "map", "map"]), st.sampled_from(["path", "instance"]), mapping).map(_mk_fmt)
    prot = st.tuples(st.sampled_from(["none", "default", "default", "custom"]), st.lists(st.sampled_from(PROT_POOL), unique=True, max_size=3)).map(_mk_prot)
    # which of the names that would be pre-installed as tags (built-in tags, protected names) the library does NOT have
    absent = st.tuples(
        st.sampled_from(["none", "none", "all", "all", "some"]),
        st.lists(st.sampled_from(sorted(set(BUILTIN_PROTECTED + PROT_POOL))), unique=True, min_size=1, max_size=4),
    ).map(_mk_absent)
    regspec = st.tuples(st.sampled_from(["settings", "settings", "legacy", "callable", "callable", "global"]), fmt, prot, absent).map(_mk_reg)
    # the first two names are drawn more often so that names collide and tags get shared
    name = st.sampled_from(["alpha", "alpha", "beta", "beta", "slot", "fill", "component"])
    cls = st.sampled_from([0, 0, 1, 2, 3])
    kinds = st.sampled_from(["register"] * 5 + ["unregister"] * 3 + ["clear", "get", "all", "in", "setfmt", "setfmt"])

    def with_n(nregs):
        one = st.tuples(kinds, st.integers(0, nregs - 1), name, cls, st.booleans()).map(_mk_op)
        # lengths 1..6 over 3 names are enumerated by the dfs part; spread the lengths evenly beyond that here
        ops = st.sampled_from(list(range(5, max_ops + 1))).flatmap(lambda k: st.lists(one, min_size=k, max_size=k))
        return st.fixed_dictionaries(
            {
                "global_fmt": st.one_of(st.none(), fmt),
                "regs": st.lists(regspec, min_size=nregs, max_size=nregs),
                "alt_fmts": st.lists(fmt, min_size=3, max_size=3),
                "ops": ops,
                # True: all() is called only where the history has an `all` / `in` step (and after the last step)
                "sparse_all": st.booleans(),
            }
        ).map(_mk_case)

    return st.sampled_from([1, 1, 1, 2, 2, 3]).flatmap(with_n)


def _cfg_label(rspec, global_fmt):
    f = rspec["fmt"] if rspec.get("fmt") is not None else (global_fmt or F_DEFAULT)
    p = rspec.get("protected")
    return "%s/%s" % (f["kind"], "unmarked" if p is None else ("protected" if p == "default" else "custom-protected"))


def run_shard(spec):
    col = Collector()
    kind = spec["kind"]
    if kind == "dfs":
        sparse = bool(spec.get("sparse"))
        cname, rspec, extra_ops = ALL_DFS_CONFIGS[spec["cfg"]]
        ops = dfs_ops(extra_ops) + ([(0, "all")] if sparse else [])
        first, maxlen = spec["first"], spec["maxlen"]
        regs = [rspec]
        lbl_cfg = ("dfs_all_as_step:" if sparse else "dfs:") + cname
        for ln in range(1, maxlen + 1):
            for rest in itertools.product(range(len(ops)), repeat=ln - 1):
                idx = (first,) + rest
                seq = [ops[i] for i in idx]
                fails, stt = run_ops(regs, None, seq, full_every_step=True, sparse_all=sparse)
                nt = stt.shared_removal
                sample = None
                if nt or fails:
                    key = (("S" if sparse else "") + str(spec["cfg"]) + "".join(_OP_LETTERS[i] for i in idx)).ljust(16, ".") if ln <= 14 else jhash([spec["cfg"], idx, sparse])
                    if fails or len(col.nt_samples) < 2:
                        sample = {"part": "dfs", "config": cname, "global_fmt": None, "regs": regs, "ops": [list(o) for o in seq], "sparse_all": sparse}
                else:
                    key = None
                col.case(key, nt, sample=sample if nt else None, labels=[lbl_cfg, "dfs_len_%d" % ln] + stt.labels())
                for msg, bk in fails:
                    col.fail(sample, msg, bk, finding=attribute(sample, msg, bk))
                if len(col.failures) > 20:
                    return col
        col.exhaustive = True
        return col

    if kind == "hyp":
        strat = _case_strategy(spec["max_ops"])

        def check(case):
            fails, stt = run_case(case, full_every_step=True)
            nt = stt.shared_removal
            labels = ["hyp", "hyp_regs_%d" % stt.nregs, "hyp_len_%s" % ("1-6" if stt.nops <= 6 else "7-20" if stt.nops <= 20 else "21-45")]
            labels += ["hyp:" + _cfg_label(r, case.get("global_fmt")) for r in case["regs"]]
            labels += ["hyp_via:" + r.get("via", "settings") for r in case["regs"]]
            if any(r.get("protected") is not None and r.get("absent") is not None for r in case["regs"]):
                labels.append("hyp_marked_library_lacking_protected_names")
            labels += stt.labels()
            if case.get("sparse_all"):
                labels.append("hyp_all_only_where_the_history_calls_it")
            if stt.max_shared >= 2:
                labels.append("two_or_more_surplus_names_on_shared_tags")
            col.case(jhash(case) if nt else None, nt, sample=case if nt else None, labels=labels)
            return fails

        return hyp_search(strat, check, col, max_examples=spec["n"], seed=spec["seed"], attribute=attribute)
    raise ValueError(kind)


def replay(case):
    return run_case(case, full_every_step=True)[0]


def attribute(case, message, bucket):
    return None
