"""C10 — stock templating is preserved: unchanged alone, composes with components.

Part 1 (differential): generated stock-Django templates / families are compiled and rendered twice in
the same process, once with the patched Template.compile_nodelist / render and once with the original
methods saved before django.setup().
Part 2 (metamorphic): PG component programs whose page / component templates are split into
base + child (+ grandchild) {% extends %} families and {% include %} files must render exactly like
the flat program they were derived from.
"""
import glob
import os
import re

from hypothesis import strategies as st

from vf import env
from vf.core import Collector, derive_seed, exc_bucket, hyp_search, jhash, known_active
from vf.gen import pg, pgmin, pgrun, pgstrat, stock

PROP = "C10"
LEVEL = "exploration"
RULE = (
    "Part 1: stock templates and 1-3 file families (extends / block / block.super / include with-only, if/elif/else, for/empty, with, filter, autoescape, "
    "firstof, cycle/resetcycle, spaceless, comment, verbatim plain+named, templatetag, widthratio, lorem, ifchanged, a custom simple_tag, quoted strings of both "
    "kinds with escapes / the other quote / braces in tag arguments, multi-line tag padding) x generated contexts x engine.debug on/off; the same files are "
    "compiled+rendered under the patched Template methods and under the saved original methods: identical output, identical exception type+message (+ template_debug "
    "line/during), identical Context.dicts and render_context depth afterwards. Non-trivial = template with a quoted block tag or an extends/include. "
    "Part 2: PG programs (as C01) in which page and/or component templates are rewritten into extends families (blocks kept / overridden / extended with block.super, "
    "optional middle template, block names from a pool of 2 shared across families) and include files; family program output must equal the flat program's output under "
    "both context behaviours. Non-trivial = >=2 instances of inheritance-based components on one page, or one inside another's slot/fill. Distinct by case hash."
)
ASSUMPTIONS = [
    "multiline_tags is at its default for both sides of the differential (documented global regex swap, not part of the patch under test)",
    "block tags have balanced quotes and no %} inside quoted strings (precondition of the property)",
    "{% include %} files in part 2 never contain {% slot %} tags (the repo's own tests document that slots inside includes are rejected in isolated mode)",
    "part 2 compares two real renders (family vs flat); the flat program's agreement with the reference interpreter is C01's subject",
    "a block/include region never contains a print of the enclosing fill's default alias (such a region could re-enter itself; {% block %} is not re-entrant in stock Django)",
]
BOUNDS = {"quick": {"stock": 7200, "compose": 8400}, "thorough": {"stock": 160000, "compose": 60000}}

_PATCHED = {}


def _tpl_dir():
    return os.path.join(env.SCRATCH, "templates")


def _write_files(files):
    d = _tpl_dir()
    for p in glob.glob(os.path.join(d, "*.html*")):
        os.remove(p)
    for name, src in files.items():
        with open(os.path.join(d, name), "w", encoding="utf-8", newline="") as f:
            f.write(src)


def _reset_loaders():
    from django.template import engines

    for engine in engines.all():
        for loader in engine.engine.template_loaders:
            if hasattr(loader, "reset"):
                loader.reset()


def run_side(case, use_stock):
    from django.template import Context, Template, engines

    engine = engines["django"].engine
    if not _PATCHED:
        _PATCHED["compile_nodelist"] = Template.compile_nodelist
        _PATCHED["render"] = Template.render
    old_debug = engine.debug
    out = {}
    try:
        if use_stock:
            Template.compile_nodelist = env.STOCK["compile_nodelist"]
            Template.render = env.STOCK["render"]
        _reset_loaders()
        engine.debug = bool(case.get("debug"))
        c = Context(dict(case["ctx"]))
        try:
            t = engine.get_template(case["main"])
            out["compiled"] = True
            out["output"] = t.render(c)
        except Exception as e:  # noqa
            out["exc"] = (type(e).__name__, str(e))
            td = getattr(e, "template_debug", None)
            if td:
                out["debug"] = (td.get("line"), td.get("during"), str(td.get("message")), td.get("name"))
        try:
            # (objects such as the IfChangedNode that {% ifchanged %} uses as a key print their memory address)
            out["ctx"] = re.sub(r" at 0x[0-9a-fA-F]+>", " at 0x?>", repr([dict(d) for d in c.dicts]))
        except Exception as e:  # noqa
            out["ctx"] = "unreprable %r" % (e,)
        out["rc_depth"] = len(c.render_context.dicts)
    finally:
        Template.compile_nodelist = _PATCHED["compile_nodelist"]
        Template.render = _PATCHED["render"]
        engine.debug = old_debug
        _reset_loaders()
    return out


def check_stock(case, col=None):
    env.reset(clear_registry=False)
    _write_files(case["files"])
    stock_side = run_side(case, True)
    patched = run_side(case, False)
    fails = []
    srcs = "".join(case["files"].values())
    quoted_tag = any(('"' in seg.split("%}")[0] or "'" in seg.split("%}")[0]) for seg in srcs.split("{%")[1:])
    family = len(case["files"]) > 1
    if "exc" in stock_side and not stock_side.get("compiled"):
        # stock Django rejects the template at compile time: patched must reject it the same way
        if "exc" not in patched:
            fails.append(("stock Django raises %r at compile time, patched Template compiles and renders %r" % (stock_side["exc"], patched.get("output", "")[:200]), "c10-stock-compile-error-accepted"))
        elif patched["exc"] != stock_side["exc"]:
            fails.append(("compile error differs\n stock:   %r\n patched: %r" % (stock_side["exc"], patched["exc"]), "c10-compile-error-differs"))
        elif stock_side.get("debug") != patched.get("debug"):
            fails.append(("template_debug of the compile error differs\n stock:   %r\n patched: %r" % (stock_side.get("debug"), patched.get("debug")), "c10-compile-debug-differs"))
    else:
        if "exc" in patched and "exc" not in stock_side:
            fails.append(("stock Django renders %r, patched raises %r" % (stock_side["output"][:200], patched["exc"]), "c10-patched-raises:" + patched["exc"][0]))
        elif "exc" in stock_side and "exc" not in patched:
            fails.append(("stock Django raises %r, patched renders %r" % (stock_side["exc"], patched["output"][:200]), "c10-patched-swallows"))
        elif "exc" in stock_side:
            if patched["exc"] != stock_side["exc"]:
                fails.append(("render error differs\n stock:   %r\n patched: %r" % (stock_side["exc"], patched["exc"]), "c10-render-error-differs"))
            elif stock_side.get("debug") != patched.get("debug"):
                fails.append(("template_debug differs\n stock:   %r\n patched: %r" % (stock_side.get("debug"), patched.get("debug")), "c10-render-debug-differs"))
        elif stock_side["output"] != patched["output"]:
            fails.append(("output differs\n stock:   %r\n patched: %r" % (stock_side["output"][:400], patched["output"][:400]), "c10-output-differs"))
        if stock_side.get("ctx") != patched.get("ctx") or stock_side.get("rc_depth") != patched.get("rc_depth"):
            fails.append(("Context state after render differs\n stock:   %s depth %r\n patched: %s depth %r" % (stock_side.get("ctx", "")[:300], stock_side.get("rc_depth"), patched.get("ctx", "")[:300], patched.get("rc_depth")), "c10-context-differs"))
    if col is not None:
        nt = quoted_tag or family
        labels = ["stock", "debug:%s" % bool(case.get("debug"))]
        labels.append("outcome:" + ("compile_error" if ("exc" in stock_side and not stock_side.get("compiled")) else "render_error" if "exc" in stock_side else "ok"))
        if quoted_tag:
            labels.append("quoted_block_tag")
        if "extends" in srcs:
            labels.append("extends")
        if "include" in srcs:
            labels.append("include")
        if "block.super" in srcs:
            labels.append("block_super")
        if "verbatim" in srcs:
            labels.append("verbatim")
        if any("\n" in seg.split("%}")[0] for seg in srcs.split("{%")[1:]):
            labels.append("multiline_tag")
        col.case(jhash(case), nt, sample={"files": {k: v[:300] for k, v in case["files"].items()}, "ctx": case["ctx"], "debug": case.get("debug"), "stock_outcome": (stock_side.get("output") or str(stock_side.get("exc")))[:150]} if nt else None, labels=labels)
    for p in glob.glob(os.path.join(_tpl_dir(), "*.html*")):
        os.remove(p)
    return fails


# ---------------------------------------------------------------------------
# part 2: families of PG programs


FILL_LIST_REGIONS = True  # regions around the {% fill %} tags of a component body (include / kept block / overridden block)


def _has_slot(nodes):
    return any(n["t"] == "slot" for n in pgstrat.walk(nodes))


SHARED_ROOT = "vf_shared_root.html"


def family_sources(nodes, prefix, mid, noext=False, shared_root=False):
    """Print a template whose AST contains block / include regions as an {% extends %} family.

    Returns (source of the template itself, {file name: source}). Region ops:
    keep (block in base, not overridden) | override (junk in base, real content in the child) |
    super (first node in the base block, rest appended in the child after {{ block.super }}) |
    midsuper (base: node 1, middle template appends node 2, child appends the rest; needs `mid`) |
    superbody (the parent block holds ONE text node that the flat program has inside a component body / fill content
    of the region; the child's override prints {{ block.super }} at that place).
    noext: the template does not extend anything - its {% block %} tags are plain blocks that render in place.
    """
    files = {}
    child, midl = [], []
    counter = [0]

    def bp(n, opts):
        region = n["c"]
        P = lambda ns: pg.p_nodes(ns, opts)  # noqa: E731
        if n["t"] == "include":
            counter[0] += 1
            name = "%s_inc%d.html" % (prefix, counter[0])
            if n.get("fam"):
                # the included template is itself an {% extends %} family (its block name may also exist in the
                # including template's / the page's family: the families must stay independent)
                files[name] = '{%% extends "%s_base" %%}{%% block %s %%}%s{%% endblock %%}' % (name, n["fam"], P(region))
                files[name + "_base"] = "{%% block %s %%}junk%s{%% endblock %%}" % (n["fam"], prefix)
            else:
                def plain_bp(n2, opts2):
                    if n2["t"] == "include":
                        return bp(n2, opts2)
                    return "{%% block %s %%}%s{%% endblock %%}" % (n2["name"], pg.p_nodes(n2["c"], opts2))

                files[name] = pg.p_nodes(region, dict(opts or {}, block_printer=plain_bp))
            return '{%% include "%s" %%}' % name
        name, op = n["name"], n["op"]
        if noext:
            op = "keep"
        if op == "superbody":
            marker = "%s:%s" % (prefix, name)
            sup = [x for x in pgstrat.walk(region) if x["t"] == "text" and x.get("sup") == marker]
            if len(sup) == 1:
                child.append("{%% block %s %%}%s{%% endblock %%}" % (name, pg.p_nodes(region, dict(opts or {}, super_for=marker))))
                return "{%% block %s %%}%s{%% endblock %%}" % (name, sup[0]["s"])
            op = "super"
        if op == "keep":
            return "{%% block %s %%}%s{%% endblock %%}" % (name, P(region))
        if op == "override":
            child.append("{%% block %s %%}%s{%% endblock %s %%}" % (name, P(region), name))
            return "{%% block %s %%}junk%s{%% endblock %%}" % (name, prefix)
        if op == "midsuper" and mid and len(region) >= 3:
            midl.append("{%% block %s %%}{{ block.super }}%s{%% endblock %%}" % (name, P(region[1:2])))
            child.append("{%% block %s %%}{{ block.super }}%s{%% endblock %%}" % (name, P(region[2:])))
            return "{%% block %s %%}%s{%% endblock %%}" % (name, P(region[:1]))
        child.append("{%% block %s %%}{{ block.super }}%s{%% endblock %%}" % (name, P(region[1:])))
        return "{%% block %s %%}%s{%% endblock %%}" % (name, P(region[:1]))

    base = pg.p_nodes(nodes, {"block_printer": bp})
    if noext or not any(n["t"] == "block" for n in pgstrat.walk(nodes)):
        return base, files
    if shared_root:
        # every family of the case has ONE common ancestor template: the family's base extends it and puts all of its
        # content into the ancestor's only block (flat program unchanged)
        files[SHARED_ROOT] = "{% block vfroot %}{% endblock %}"
        base = '{%% extends "%s" %%}{%% block vfroot %%}%s{%% endblock %%}' % (SHARED_ROOT, base)
    files["%s_base.html" % prefix] = base
    parent = "%s_base.html" % prefix
    if mid:
        files["%s_mid.html" % prefix] = '{%% extends "%s" %%}' % parent + "".join(midl)
        parent = "%s_mid.html" % prefix
    return '{%% extends "%s" %%}ignored' % parent + "".join(child), files


def check_compose(case, col=None):
    prog = case["program"]
    mids = case.get("mid", {})
    fails = []
    sources, files = {}, {}
    for c in prog["comps"]:
        if any(n["t"] in ("block", "include") for n in pgstrat.walk(c["tpl"])):
            src, f = family_sources(c["tpl"], "f" + c["name"], bool(mids.get(c["name"])), bool(case.get("noext", {}).get(c["name"])), bool(case.get("shared_root")))
            sources[c["name"]] = src
            files.update(f)
    if any(n["t"] in ("block", "include") for n in pgstrat.walk(prog["page"]["tpl"])):
        src, f = family_sources(prog["page"]["tpl"], "fpage", bool(mids.get("page")), bool(case.get("noext", {}).get("page")), bool(case.get("shared_root")))
        sources["page"] = src
        files.update(f)
    n_ext = sum(1 for s in sources.values() if "extends" in s)
    for mode in ("django", "isolated"):
        flat = pgrun.run_real(prog, mode, budget=400)
        if flat.exc is not None:
            if col is not None:
                col.case(None, False, labels=("compose:flat-raises",))
            continue
        env.reset()
        _write_files(files)
        fam = pgrun.run_real(prog, mode, opts={"sources": sources}, budget=400, keep_state=True)
        a = pg.normalize_real(flat.out)
        if fam.exc is not None:
            fails.append(("[%s] family program raised %r; flat program renders %r" % (mode, fam.exc, a[:300]), "c10-compose-exc:" + exc_bucket(fam.exc)))
        else:
            b = pg.normalize_real(fam.out)
            if a != b:
                fails.append(("[%s] family program differs from the flat program\n flat:   %r\n family: %r" % (mode, a[:500], b[:500]), "c10-compose-differs"))
        if col is not None:
            names = [n for n, _i, _k in flat.rec.instances]
            inh = [n for n in names if "extends" in sources.get(n, "")]
            nt = len(inh) >= 2
            allsrc = list(sources.values()) + list(files.values())
            labels = ["compose", "mode:" + mode, "extends_templates:%d" % min(n_ext, 3)]
            if "page" in sources and "extends" in sources["page"]:
                labels.append("page_extends")
            if any("include" in s for s in allsrc):
                labels.append("include")
            if any("block.super" in s for s in allsrc):
                labels.append("block_super")
            if any(mids.values()):
                labels.append("three_level")
            if case.get("nested_block"):
                labels.append("block_inside_fill_or_slot")
            if any(case.get("noext", {}).values()):
                labels.append("plain_blocks_in_a_template_without_extends")
            if SHARED_ROOT in files and sum(1 for v in files.values() if SHARED_ROOT in v) >= 2:
                labels.append("two_or_more_families_share_an_ancestor_template")
            if any(x.get("fills") for c_ in prog["comps"] + [prog["page"]] for x in pgstrat.walk(c_["tpl"]) if x["t"] in ("block", "include")):
                labels.append("region_around_fill_tags")
            if any(x.get("sup") for c_ in prog["comps"] + [prog["page"]] for x in pgstrat.walk(c_["tpl"]) if x["t"] == "text"):
                labels.append("block_super_inside_component_body")
            col.case(jhash([case, mode]), nt, sample={"mode": mode, "sources": {k: v[:250] for k, v in sources.items()}, "files": {k: v[:200] for k, v in list(files.items())[:4]}, "output": a[:150]} if nt else None, labels=labels)
    for p in glob.glob(os.path.join(_tpl_dir(), "*.html*")):
        os.remove(p)
    return fails


def _node_lists(nodes, depth=0, inside=None):
    """Yield (list, depth, lexical position kind) for every node list of a template."""
    yield nodes, depth, inside
    for n in nodes:
        t = n["t"]
        for k in ("c", "a", "b"):
            if isinstance(n.get(k), list) and t not in ("block", "include"):
                yield from _node_lists(n[k], depth + 1, "fill" if t == "fill" else "slot" if t == "slot" else inside)
        body = n.get("body")
        if body and body["kind"] == "implicit":
            yield from _node_lists(body["c"], depth + 1, "fill")
        elif body:
            if FILL_LIST_REGIONS:
                yield body["c"], depth + 1, "fillslist"
            for f in pgstrat.walk(body["c"]):
                if f["t"] == "fill":
                    yield from _node_lists(f["c"], depth + 1, "fill")


@st.composite
def compose_cases(draw):
    prog = draw(pgstrat.programs({"errors": False, "max_nodes": 5, "max_depth": 2, "isfilled": True}))
    mids = {}
    noext = {}
    sup_n = [0]
    nested = False
    targets = [("page", prog["page"]["tpl"])] + [(c["name"], c["tpl"]) for c in prog["comps"]]
    for name, nodes in targets:
        if not nodes or draw(st.integers(0, 99)) < 30:
            continue
        names = ["b1", "b2"]
        lists = list(_node_lists(nodes))
        taken = set()  # ids of node lists that lie inside an already wrapped region (no nested blocks)
        for lst, depth, inside in lists:
            if id(lst) in taken:
                continue
            if not lst or not names and draw(st.integers(0, 99)) < 50:
                continue
            if depth > 0 and draw(st.integers(0, 99)) < 70:
                continue
            if inside == "fillslist":
                # the fill tags of a component body moved into an included partial / written inside a {% block %} of the
                # template family (kept or overridden by the child): the body must still yield exactly these fills
                if any(x["t"] in ("block", "include") for x in pgstrat.walk(lst)) or draw(st.integers(0, 99)) < 45:
                    continue
                if any(y["t"] == "var" and re.fullmatch(r"f\d+", y["n"]) for y in pgstrat.walk(lst)):
                    continue
                for sub, _d, _i in _node_lists(lst):
                    taken.add(id(sub))
                for f_ in pgstrat.walk(lst):
                    if f_["t"] == "fill":
                        for sub, _d, _i in _node_lists(f_["c"]):
                            taken.add(id(sub))
                fop = draw(st.sampled_from(["include", "include", "keep", "override", "override"]))
                whole = list(lst)
                if fop == "include" or not names:
                    lst[:] = [{"t": "include", "c": whole, "fills": True}]
                else:
                    lst[:] = [{"t": "block", "name": names.pop(draw(st.integers(0, len(names) - 1))), "op": fop, "c": whole, "fills": True}]
                    nested = True
                continue
            if any(x["t"] in ("block", "include") for x in lst) or any(x["t"] == "fill" for x in lst):
                continue
            i = draw(st.integers(0, len(lst) - 1))
            j = draw(st.integers(i + 1, len(lst)))
            region = lst[i:j]
            if any(y["t"] in ("block", "include") for y in pgstrat.walk(region)):
                continue
            if all(y["t"] == "text" and not pg._no_comments(y["s"]).strip() for y in region):
                # "only whitespace between {% component %} and {% endcomponent %} is no content" is a rule about the
                # source text of the body; wrapping that whitespace in a tag of any kind makes it content
                continue
            if any(y["t"] == "var" and re.fullmatch(r"f\d+", y["n"]) for y in pgstrat.walk(region)):
                # a region that prints the fill's default alias can re-enter ITSELF (slot default -> nested slot -> the
                # same fill); Django's {% block %} is not re-entrant by design (BlockContext pop/push), so such a
                # template has no flattened equivalent
                continue
            op = draw(st.sampled_from(["keep", "override", "override", "super", "midsuper", "include", "superbody", "superbody"]))
            for sub, _d, _i in _node_lists(region):
                taken.add(id(sub))
            if op == "include" or not names:
                if _has_slot(region) and draw(st.integers(0, 99)) < 50:
                    continue  # (half of the regions with {% slot %} tags are kept: a slot may sit in an included partial)
                inc = {"t": "include", "c": region}
                if draw(st.integers(0, 99)) < 40:
                    inc["fam"] = draw(st.sampled_from(["b1", "b2", "b3"]))
                elif draw(st.integers(0, 99)) < 70:
                    # a plain {% block %} inside the included partial, named like a block of the including family: an included
                    # template never takes part in the includer's inheritance, so it renders its own content
                    cand = [(l_, i_) for l_, _d, i_ in _node_lists(region) if l_ and not any(x["t"] == "fill" for x in l_)]
                    in_slot = [l_ for l_, i_ in cand if i_ == "slot"]
                    inner = in_slot if in_slot and draw(st.integers(0, 99)) < 75 else [l_ for l_, _i in cand]
                    if inner:
                        l2 = inner[draw(st.integers(0, len(inner) - 1))]
                        a = draw(st.integers(0, len(l2) - 1))
                        b_ = draw(st.integers(a + 1, len(l2)))
                        sub = l2[a:b_]
                        if not all(y["t"] == "text" and not pg._no_comments(y["s"]).strip() for y in sub) and not any(y["t"] == "var" and re.fullmatch(r"f\d+", y["n"]) for y in pgstrat.walk(sub)):
                            l2[a:b_] = [{"t": "block", "name": draw(st.sampled_from(["b1", "b2"])), "op": "plain", "c": sub}]
                            if l2 is region:
                                inc["c"] = region = l2
                lst[i:j] = [inc]
            else:
                bname = names.pop(draw(st.integers(0, len(names) - 1)))
                if op == "superbody":
                    # content lists of component bodies / fills inside the region
                    cands = []
                    for y in pgstrat.walk(region):
                        if y["t"] == "comp" and y.get("body"):
                            if y["body"]["kind"] == "implicit":
                                cands.append(y["body"]["c"])
                            else:
                                cands.extend(f_["c"] for f_ in pgstrat.walk(y["body"]["c"]) if f_["t"] == "fill")
                    if cands:
                        lst2 = cands[draw(st.integers(0, len(cands) - 1))]
                        sup_n[0] += 1
                        lst2.insert(draw(st.integers(0, len(lst2))), {"t": "text", "s": "SUP%d" % sup_n[0], "sup": "%s:%s" % ("fpage" if name == "page" else "f" + name, bname)})
                    else:
                        op = "super"
                lst[i:j] = [{"t": "block", "name": bname, "op": op, "c": region}]
                if depth > 0:
                    nested = True
        mids[name] = draw(st.integers(0, 99)) < 35
        noext[name] = draw(st.integers(0, 99)) < 20
    return {"kind": "compose", "program": prog, "mid": mids, "noext": noext, "nested_block": nested, "shared_root": draw(st.integers(0, 99)) < 35}


def _strip_nested_regions(nodes, depth=0, inside=False):
    """Copy of a template in which block/include regions that sit inside fill or slot content are dissolved."""
    out = []
    for n in nodes:
        t = n["t"]
        if t in ("block", "include"):
            if inside:
                out.extend(_strip_nested_regions(n["c"], depth, inside))
                continue
            m = dict(n)
            m["c"] = _strip_nested_regions(n["c"], depth, inside)
            out.append(m)
            continue
        m = dict(n)
        for k in ("c", "a", "b"):
            if isinstance(n.get(k), list):
                m[k] = _strip_nested_regions(n[k], depth + 1, inside or t in ("fill", "slot"))
        body = n.get("body")
        if body:
            m["body"] = dict(body, c=_strip_nested_regions(body["c"], depth + 1, inside or body["kind"] == "implicit"))
        out.append(m)
    return out


def attribute(case, message, bucket):
    """C10-K1: the disagreement is caused by {% block %} / {% include %} regions lexically inside fill or
    slot-default content: it disappears when exactly those regions are dissolved (top-level regions kept)."""
    if case.get("kind") != "compose" or "C10-K1" not in known_active(PROP) or not bucket.startswith("c10-compose"):
        return None
    if case.get("_stripped"):
        return None
    prog = case["program"]
    stripped = {"comps": [dict(c, tpl=_strip_nested_regions(c["tpl"])) for c in prog["comps"]], "page": dict(prog["page"], tpl=_strip_nested_regions(prog["page"]["tpl"]))}
    if stripped == prog:
        return None
    case2 = dict(case, program=stripped, _stripped=True)
    if not check_compose(case2):
        return "C10-K1"
    return None


# coverage-guided stage (atheris drives these Hypothesis shards, see vf/run.py): {tier: {shard kind: (shards, executions)}}
CG = {'thorough': {'compose': (6, 3000), 'stock': (4, 15000)}}


def plan(tier, seed, scale=1.0):
    b = BOUNDS[tier]
    shards = 12 if tier == "quick" else 96
    specs = [{"kind": "stock", "n": max(1, int(b["stock"] * scale) // shards), "seed": derive_seed(seed, "c10s", sh)} for sh in range(shards)]
    specs += [{"kind": "compose", "n": max(1, int(b["compose"] * scale) // shards), "seed": derive_seed(seed, "c10c", sh)} for sh in range(shards)]
    return specs


def _min_compose(case, still):
    return pgmin.minimize(case, still, 250)


def run_shard(spec):
    col = Collector()
    if spec["kind"] == "stock":
        return hyp_search(stock.stock_cases().map(lambda c: dict(c, kind="stock")), lambda case: check_stock(case, col), col, max_examples=spec["n"], seed=spec["seed"], shrink=True, attribute=attribute)
    return hyp_search(compose_cases(), lambda case: check_compose(case, col), col, max_examples=spec["n"], seed=spec["seed"], shrink=False, attribute=attribute, post_min=_min_compose)


def replay(case):
    if case.get("kind") == "compose":
        return check_compose(case)
    return check_stock(case)
