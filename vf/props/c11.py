"""C11 — a tag accepts its arguments exactly when the equivalent Python call would.

Programs   = all `def render(self, context, ...)` signatures with <= N further parameters over
             positional-only / positional-or-keyword / *args / keyword-only / **kwargs and every legal
             default pattern, generated as source text and exec'd (so `__code__` is real).
Inputs     = all argument sequences with <= L items over {positional, keyword for every parameter name
             (incl. the *args / **kwargs names), unknown name, non-identifier name, Python-keyword name,
             aggregate name `a:b`}; duplicates arise by repetition.
Oracle     = Python itself: positional after keyword => reject (TypeError or SyntaxError); repeated
             keyword => TypeError; otherwise `probe(None, None, *pos, **kw)` is called directly: accept iff it
             succeeds and then the probe's locals() reached through the library must be equal; on reject the
             library must raise TypeError and must not run the probe.

Parts
  enum    exhaustive, per signature:  (val)  `_validate_params_with_code` and `_validate_params_with_signature`
          called directly the way `NodeMeta.wrapper_render` calls them (identifier keywords and positionals as
          TagParam list, non-identifier / Python-keyword names as `extra_kwargs`), then the probe is called with
          what they return;  (wrap) the real `wrapper_render` of a BaseNode subclass whose `params` are real
          TagAttr objects (made once by `parse_tag`), for a plain function (fast path) and for a callable
          without `__code__` (fallback path, same trick as tests/test_node.py::force_signature_validation).
  builtin exhaustive over the render() signatures of the built-in tags (validators only, oracle
          `inspect.signature(render).bind`).
  e2e     Hypothesis: signature x style (BaseNode subclass / @template_tag) x path (code / signature) x
          end-tag form; `{% probe 1 k=v ...lst ...dct %}` compiled and rendered by a real engine with a private
          Library appended to `engine.template_builtins` for the duration of the case.
"""
import inspect
import itertools
import keyword

from vf.core import Collector, derive_seed, hyp_search, jhash, known_active

PROP = "C11"
LEVEL = "exploration"
RULE = (
    "enum: every render(self, context, ...) signature with <= N further parameters (positional-only, "
    "positional-or-keyword, *args, keyword-only, **kwargs; every legal default pattern; plus, for <= 3 parameters, "
    "the variant `def render(self, context, /, ...)`) x every argument sequence of length <= L over {positional, "
    "keyword for each parameter name incl. the *args/**kwargs names, unknown name 'zz', non-identifier 'data-x', "
    "Python keyword 'class', aggregate 'a:b' (the latter only in sequences of length <= 4)}; each (signature, sequence) is run through both validators directly "
    "(val) and through the real wrapper_render with real TagAttr params on the fast and the fallback path (wrap) and "
    "compared with a direct Python call of the same function. builtin: same enumeration over the built-in tags' "
    "render signatures (validators vs inspect.Signature.bind). e2e: Hypothesis-generated signature x tag definition "
    "style x validation path x end-tag form x argument list with literals, context variables, list/dict spreads "
    "(variable and literal) rendered through a real Template. "
    "Non-trivial = signature with >= 2 parameter kinds and a call that uses a default (accepted, a defaulted "
    "parameter not supplied), repeats a keyword, or has a non-identifier / Python-keyword key; distinct by "
    "(signature, argument sequence) [enum: sequences of length 5 are counted in the distribution table "
    "(nontrivial_len5) but not added to the distinct set, to bound memory] resp. by the whole case (e2e)."
)
ASSUMPTIONS = [
    "argument sequences are compared in flattened form: items of `...list` / `...dict` spreads count as positional "
    "/ keyword arguments written in place (docs: spread operators are treated as keyword arguments and must come "
    "after positional ones), so a spread-produced positional after a keyword is a rejection",
    "positional-after-keyword may be reported as TypeError (regular keyword before it) or SyntaxError (non-identifier "
    "keyword before it); both are allowed by the property text",
    "aggregate keys `p:k=v` are the documented shorthand for `p={k: v}`; they are only generated where this reading "
    "is unambiguous: at most once per full key, never before a positional argument, prefix not also given as a "
    "regular keyword (the library answers the latter with TemplateSyntaxError)",
    "a rejection raised by Python's own call machinery after the validator let the arguments through still counts as "
    "'TypeError, function not run' (labelled late_reject)",
    "values are ints / short strings / None / bools / small lists and dicts; value parsing is C02's subject",
    "fast and fallback path are each compared with Python; agreement with each other follows and is additionally "
    "asserted on the outcome",
]
BOUNDS = {
    "quick": {"N": 4, "L": 4, "slash_variant_N": 3, "e2e_examples": 4000},
    "thorough": {"N": 5, "L": 5, "slash_variant_N": 3, "e2e_examples": 40000},
}

NAMES = "abcde"
VA, KW = "va", "kw"
UNKNOWN, NONIDENT, PYKW, AGG = "zz", "data-x", "class", "a:b"
MAX_FAILS_PER_BUCKET = 2

REC = []  # locals() of the probe calls


# ---------------------------------------------------------------------------
# signatures


def _enum_sigs(n_max, slash_max):
    out = []
    for k0 in range(n_max + 1):
        for k1 in range(n_max + 1 - k0):
            for va in (0, 1):
                for k2 in range(n_max + 1 - k0 - k1 - va):
                    for kw in (0, 1):
                        n = k0 + k1 + va + k2 + kw
                        if n > n_max:
                            continue
                        for d in range(k0 + k1 + 1):
                            for kd in range(2**k2):
                                out.append((k0, k1, va, k2, kw, d, kd, 0))
                                if k0 == 0 and n <= slash_max:
                                    out.append((k0, k1, va, k2, kw, d, kd, 1))
    out.sort(key=lambda s: (s[0] + s[1] + s[2] + s[3] + s[4], s))
    return out


MASTER = _enum_sigs(5, 3)  # index in this list = signature id (stable across tiers)


def n_params(sig):
    return sig[0] + sig[1] + sig[2] + sig[3] + sig[4]


def n_kinds(sig):
    return sum(1 for x in sig[:5] if x)


def sig_source(sig):
    k0, k1, va, k2, kw, d, kd, slash0 = sig
    parts = ["self", "context"]
    if slash0:
        parts.append("/")
    npos = k0 + k1
    for i in range(npos):
        n = NAMES[i]
        parts.append("%s='D%s'" % (n, n) if i >= npos - d else n)
        if i == k0 - 1:
            parts.append("/")
    if va:
        parts.append("*" + VA)
    elif k2:
        parts.append("*")
    for j in range(k2):
        n = NAMES[npos + j]
        parts.append("%s='D%s'" % (n, n) if (kd >> j) & 1 else n)
    if kw:
        parts.append("**" + KW)
    return "def render(%s):\n    _rec(locals())\n    return ''\n" % ", ".join(parts)


class _SignatureOnly:
    """Callable without a usable __code__ (same trick as tests/test_node.py::force_signature_validation)."""

    def __init__(self, fn):
        self.__wrapped__ = fn
        self.__signature__ = inspect.signature(fn)

    def __call__(self, *args, **kwargs):
        return self.__wrapped__(*args, **kwargs)

    def __getattr__(self, name):
        if name == "__code__":
            return None
        return getattr(self.__wrapped__, name)


class Probe:
    def __init__(self, sig):
        sig = tuple(sig)
        self.sig = sig
        k0, k1, va, k2, kw, d, kd, slash0 = sig
        self.src = sig_source(sig)
        ns = {"_rec": REC.append}
        exec(compile(self.src, "<c11-probe>", "exec"), ns)
        self.fn = ns["render"]
        self.decl = self.src.split("\n")[0]
        self.proxy = _SignatureOnly(self.fn)
        full = inspect.signature(self.fn)
        self.vsig = full.replace(parameters=list(full.parameters.values())[2:])
        self.names = [NAMES[i] for i in range(k0 + k1 + k2)]
        self.posonly = set(self.names[:k0])
        self.k0 = k0
        self.kinds = n_kinds(sig)
        self.defaulted = [n for n in self.names if (self.vsig.parameters[n].default is not inspect.Parameter.empty)]
        co = self.fn.__code__
        # the generated source really has the shape we think it has
        assert co.co_argcount == 2 + k0 + k1 and co.co_kwonlyargcount == k2, self.src
        assert co.co_posonlyargcount == (2 + k0 if (k0 or slash0) else 0), self.src
        assert bool(co.co_flags & 0x04) == bool(va) and bool(co.co_flags & 0x08) == bool(kw), self.src
        # alphabet of argument kinds: index 0 = positional
        self.keys = [None] + self.names + ([VA] if va else []) + ([KW] if kw else []) + [UNKNOWN, NONIDENT, PYKW, AGG]
        self.nsym = len(self.keys)


_probes = {}


def probe_for(sig):
    sig = tuple(sig)
    p = _probes.get(sig)
    if p is None:
        p = _probes[sig] = Probe(sig)
    return p


def is_special(key):
    """Keys wrapper_render passes through **kwargs only (not identifiers, or reserved words)."""
    return not key.isidentifier() or keyword.iskeyword(key)


def is_agg(key):
    return ":" in key and not key.startswith(":")


# ---------------------------------------------------------------------------
# oracle (shared by all parts): flattened sequence of (key|None, value)


class Expect:
    __slots__ = ("accept", "allowed", "locals", "why", "pos", "kw", "used_default", "dup", "paf")


def python_says(probe, flat):
    """What does Python do with `probe.fn(None, None, <flat>)`?"""
    e = Expect()
    pos, kw = [], {}
    paf = dup = False
    for k, v in flat:
        if k is None:
            if kw or dup:
                paf = True
            pos.append(v)
        else:
            if k in kw:
                dup = True
            kw[k] = v
    e.pos, e.kw, e.paf, e.dup = pos, kw, paf, dup
    e.locals = None
    e.used_default = False
    if paf:
        e.accept, e.allowed, e.why = False, (TypeError, SyntaxError), "positional argument follows keyword argument"
        return e
    if dup:
        e.accept, e.allowed, e.why = False, (TypeError,), "keyword argument repeated"
        return e
    del REC[:]
    try:
        probe.fn(None, None, *pos, **kw)
    except TypeError as ex:
        del REC[:]
        e.accept, e.allowed, e.why = False, (TypeError,), "TypeError: %s" % ex
        return e
    loc = REC.pop()
    del loc["self"], loc["context"]
    e.accept, e.allowed, e.why, e.locals = True, (), "", loc
    for n in probe.defaulted:
        if n not in kw and loc[n] == "D" + n and isinstance(loc[n], str):
            e.used_default = True
            break
    return e


def apply_aggregates(flat):
    """Documented reading of `p:k=v` as `p={k: v}`; returns (flat', in_domain)."""
    if not any(k is not None and is_agg(k) for k, _ in flat):
        return flat, True
    out, nested, seen_full, regular = [], {}, set(), set()
    ok = True
    agg_seen = False
    for k, v in flat:
        if k is None:
            if agg_seen:
                ok = False  # positional after an aggregate key: no unambiguous Python equivalent
            out.append((k, v))
        elif is_agg(k):
            agg_seen = True
            if k in seen_full:
                ok = False
            seen_full.add(k)
            outer, inner = k.split(":", 1)
            nested.setdefault(outer, {})[inner] = v
        else:
            regular.add(k)
            out.append((k, v))
    for outer, dct in nested.items():
        if outer in regular:
            ok = False  # library: TemplateSyntaxError "both as a regular input and as an aggregate dict"
        out.append((outer, dct))
    return out, ok


def fmt_call(flat):
    parts = []
    for k, v in flat:
        if k is None:
            parts.append(repr(v))
        elif is_special(k):
            parts.append("**{%r: %r}" % (k, v))
        else:
            parts.append("%s=%r" % (k, v))
    return "render(self, context%s)" % "".join(", " + p for p in parts)


def judge(exp, got_kind, got_val, called):
    """Compare a library outcome with Python's. got_kind: 'ok' (got_val = locals) | 'exc' (got_val = exception).
    Returns (kind, text) or None."""
    if got_kind == "ok":
        if not exp.accept:
            return "lib-accepts", "Python rejects (%s) but the tag ran render() with %r" % (exp.why, got_val)
        if got_val != exp.locals:
            return "binding", "Python binds %r but the tag ran render() with %r" % (exp.locals, got_val)
        if called != 1:
            return "call-count", "render() ran %d times" % called
        return None
    ex = got_val
    if not isinstance(ex, (TypeError, SyntaxError)):
        return "wrong-exception:%s" % type(ex).__name__, "raised %s: %s (Python: %s)" % (
            type(ex).__name__,
            ex,
            "binds %r" % (exp.locals,) if exp.accept else exp.why,
        )
    if called:
        return "called-on-reject", "raised %s: %s but render() ran with %r" % (type(ex).__name__, ex, REC[:1])
    if exp.accept:
        return "lib-rejects", "Python binds %r but the tag raised %s: %s" % (exp.locals, type(ex).__name__, ex)
    if not isinstance(ex, exp.allowed):
        return "wrong-exception:%s" % type(ex).__name__, "raised %s: %s where Python says %s" % (type(ex).__name__, ex, exp.why)
    return None


def tags_for(probe, flat_raw, kind):
    """Structural class of the *case* that is relevant for this kind of mismatch (bucketing only):
    'posonly'    = a positional-only parameter is not filled positionally or a keyword is named like one
                   (only for calls Python accepts but the library rejects / binds differently),
    'dupspecial' = a non-identifier / Python-keyword key is given twice (only for calls the library accepts)."""
    if kind in ("lib-rejects", "binding") and d1_predicate(probe, flat_raw):
        return "posonly"
    if kind == "lib-accepts" and d2_predicate(probe, flat_raw):
        return "dupspecial"
    return "-"


# ---------------------------------------------------------------------------
# library drivers

_attr_cache = {}


def tag_attr(key, i):
    """A real TagAttr for the i-th argument (value = literal int i), parsed once."""
    a = _attr_cache.get((key, i))
    if a is None:
        from django_components.util.tag_parser import parse_tag

        text = "probe %d" % i if key is None else "probe %s=%d" % (key, i)
        _, attrs = parse_tag(text, None)
        assert len(attrs) == 2 and attrs[1].key == key, (text, attrs)
        a = _attr_cache[(key, i)] = attrs[1]
    return a


class SigRunner:
    """Everything precomputed for one signature; `eval(seq)` runs one argument sequence through all layers."""

    def __init__(self, sig, L, layers=("val", "wrap")):
        from django.template import Context

        from django_components.node import BaseNode
        from django_components.util import template_tag as tt

        self.p = p = probe_for(sig)
        self.L = L
        self.layers = layers
        self.tt = tt
        self.v_code = tt._validate_params_with_code
        self.v_sig = tt._validate_params_with_signature
        keys = p.keys
        self.special_syms = {i for i, k in enumerate(keys) if k is not None and is_special(k) and not is_agg(k)}
        self.agg_sym = keys.index(AGG)
        self.a_sym = keys.index("a") if "a" in keys else -1
        self.tp = [[tt.TagParam(k, i) for k in keys] for i in range(L)]
        self.at = [[tag_attr(k, i) for k in keys] for i in range(L)]
        self.ctx = Context({})
        self.cls_code = type("VfProbeCodeNode", (BaseNode,), {"tag": "probe", "render": p.fn})
        self.cls_sig = type("VfProbeSigNode", (BaseNode,), {"tag": "probe", "render": p.proxy})
        self.node_code = self.cls_code(params=[], node_id="vfc11a")
        self.node_sig = self.cls_sig(params=[], node_id="vfc11b")
        # dispatch sanity: the proxy must not look like it has a code object
        assert not (hasattr(p.proxy, "__code__") and hasattr(p.proxy.__code__, "co_varnames"))
        assert hasattr(p.fn, "__code__")
        # counters (flushed by the caller)
        self.n_eval = 0
        self.cnt = {}

    def _c(self, label, n=1):
        self.cnt[label] = self.cnt.get(label, 0) + n

    def eval(self, seq):
        """seq: tuple of symbol indices. Returns (fails, nontrivial) where fails = [(layer, path, kind, text)]."""
        p = self.p
        keys = p.keys
        agg_sym, special_syms = self.agg_sym, self.special_syms
        # ---- describe the call
        flat_raw = []
        n_agg = 0
        agg_bad = False
        special_seen = set()
        any_special = pos_after_special = dup_special = False
        for i, s in enumerate(seq):
            if s == 0:
                flat_raw.append((None, i))
                if any_special:
                    pos_after_special = True
                if n_agg:
                    agg_bad = True
            else:
                flat_raw.append((keys[s], i))
                if s == agg_sym:
                    n_agg += 1
                    if n_agg > 1:
                        agg_bad = True
                elif s in special_syms:
                    any_special = True
                    if s in special_seen:
                        dup_special = True
                    special_seen.add(s)
        if n_agg:
            if agg_bad or self.a_sym in seq:
                self._c("skipped_agg_out_of_domain")
                return (), False
            flat = [(("a", {"b": v}) if k == AGG else (k, v)) for k, v in flat_raw]
        else:
            flat = flat_raw
        exp = python_says(p, flat)
        fails = []

        # ---- val layer: the two validators, called the way wrapper_render calls them
        if "val" in self.layers and not n_agg and not dup_special and not pos_after_special:
            params, extras = [], {}
            tp = self.tp
            for i, s in enumerate(seq):
                if s in special_syms:
                    extras[keys[s]] = i
                else:
                    params.append(tp[i][s])
            outcomes = []
            for path, call in (("code", self._val_code), ("signature", self._val_sig)):
                kind, val, called, late = call(params, dict(extras))
                if late:
                    self._c("val_late_reject")
                outcomes.append((kind, val if kind == "ok" else type(val)))
                j = judge(exp, kind, val, called)
                if j:
                    fails.append(("val", path, j[0], j[1]))
            if not fails and outcomes[0] != outcomes[1]:
                fails.append(("val", "both", "paths-disagree", "code path -> %r, signature path -> %r" % tuple(outcomes)))
            self.n_eval += 1
            self._c("val")
        # ---- wrap layer: the real wrapper_render, real TagAttr params
        if "wrap" in self.layers:
            at = self.at
            attrs = [at[i][s] for i, s in enumerate(seq)]
            outcomes = []
            n0 = len(fails)
            for path, cls, node in (("code", self.cls_code, self.node_code), ("signature", self.cls_sig, self.node_sig)):
                node.params = attrs
                del REC[:]
                try:
                    cls.render(node, self.ctx)
                except Exception as ex:  # judged below: only TypeError / SyntaxError are allowed
                    kind, val = "exc", ex
                    called = len(REC)
                else:
                    called = len(REC)
                    if called:
                        val = REC[0]
                        got_self, got_ctx = val.pop("self"), val.pop("context")
                        if got_self is not node or got_ctx is not self.ctx:
                            fails.append(("wrap", path, "self-context", "render() did not receive the node / context"))
                        kind = "ok"
                    else:
                        kind, val = "ok", None
                outcomes.append((kind, val if kind == "ok" else type(val)))
                j = judge(exp, kind, val, called)
                if j:
                    fails.append(("wrap", path, j[0], j[1]))
            del REC[:]
            if len(fails) == n0 and outcomes[0] != outcomes[1]:
                fails.append(("wrap", "both", "paths-disagree", "code path -> %r, signature path -> %r" % tuple(outcomes)))
            self.n_eval += 1
            self._c("wrap")
        # ---- classification
        if exp.accept:
            self._c("py_accepts")
            if exp.used_default:
                self._c("py_accepts_using_default")
        elif exp.paf:
            self._c("py_rejects_positional_after_keyword")
        elif exp.dup:
            self._c("py_rejects_repeated_keyword")
        else:
            self._c("py_rejects_binding")
        if any_special:
            self._c("has_nonidentifier_or_pykeyword_key")
        if n_agg:
            self._c("has_aggregate_key")
        nontrivial = p.kinds >= 2 and (exp.used_default or exp.dup or any_special or bool(n_agg))
        if fails:
            fails = [(layer, path, kind + "|" + tags_for(p, flat_raw, kind), text) for layer, path, kind, text in fails]
        return fails, nontrivial

    def _val_code(self, params, extras):
        return self._val(lambda: self.v_code(self.p.fn, params, extras))

    def _val_sig(self, params, extras):
        return self._val(lambda: self.v_sig(self.p.vsig, params, extras))

    def _val(self, validate):
        """-> (kind, value, times probe ran, late_reject)"""
        del REC[:]
        try:
            args, kwargs = validate()
        except Exception as ex:
            return "exc", ex, 0, False
        try:
            self.p.fn(None, None, *args, **kwargs)
        except TypeError as ex:  # Python's own call machinery refused what the validator let through
            return "exc", ex, len(REC), True
        loc = REC[0]
        del loc["self"], loc["context"]
        return "ok", loc, len(REC), False

    def case_for(self, seq, layer, path):
        return {"part": "enum", "sig": list(self.p.sig), "seq": [self.p.keys[s] for s in seq], "layer": layer, "path": path}


def message(probe, flat_raw, layer, path, text):
    return "[%s/%s] %s  called as %s: %s" % (layer, path, probe.decl, fmt_call(flat_raw), text)


# ---------------------------------------------------------------------------
# attribution to known findings (only ids listed in known_findings.json)


def _case_flat_and_probe(case):
    p = probe_for(case["sig"])
    if case["part"] in ("enum",):
        flat = [(k, i) for i, k in enumerate(case["seq"])]
    elif case["part"] == "e2e":
        flat = flatten_items(case["items"])[0]
    else:
        return None, None
    return p, flat


def d1_predicate(p, flat):
    """Positional-only parameter that is not filled positionally, or a keyword named like a positional-only one."""
    if not p.k0:
        return False
    npos = sum(1 for k, _ in flat if k is None)
    return npos < p.k0 or any(k in p.posonly or (k is not None and is_agg(k) and k.split(":", 1)[0] in p.posonly) for k, _ in flat)


def d2_predicate(p, flat):
    """A non-identifier / Python-keyword key given more than once."""
    seen = set()
    for k, _ in flat:
        if k is not None and is_special(k) and not is_agg(k):
            if k in seen:
                return True
            seen.add(k)
    return False


def attribute(case, message, bucket):
    active = known_active(PROP)
    if not active or not isinstance(case, dict) or "sig" not in case:
        return None
    p, flat = _case_flat_and_probe(case)
    if p is None:
        return None
    kind = (bucket or "").split("|")[0]
    # D1 makes the library reject, or bind differently, a call Python accepts; D2 makes it accept a call Python
    # rejects. Neither predicate excuses the other kind of mismatch.
    if "C11-D1" in active and kind in ("lib-rejects", "binding") and d1_predicate(p, flat):
        return "C11-D1"
    if "C11-D2" in active and kind == "lib-accepts" and d2_predicate(p, flat):
        return "C11-D2"
    return None


# ---------------------------------------------------------------------------
# part: builtin tags (validators vs inspect.Signature.bind)


def builtin_nodes():
    """The library's own tags: direct BaseNode subclasses defined in django_components modules (classes made by
    `template_tag()` live in django_components.node and are not built-ins)."""
    import django_components.templatetags.component_tags  # noqa: F401  (makes sure all of them are imported)
    from django_components.node import BaseNode

    out = {}
    for c in BaseNode.__subclasses__():
        mod = c.__module__ or ""
        if mod.startswith("django_components.") and mod != "django_components.node" and getattr(c, "tag", None):
            if hasattr(c.render, "__wrapped__"):
                out.setdefault(c.tag, c)
    return [out[k] for k in sorted(out)]


def run_builtin_seq(cls, keys, seq):
    """keys: alphabet (index 0 = positional); returns fails [(path, kind, text)] and Expect-ish flags."""
    from django_components.util import template_tag as tt

    orig = cls.render.__wrapped__
    full = inspect.signature(orig)
    flat = [(keys[s], i) for i, s in enumerate(seq)]
    pos, kw, paf, dup = [], {}, False, False
    for k, v in flat:
        if k is None:
            paf = paf or bool(kw)
            pos.append(v)
        else:
            dup = dup or k in kw
            kw[k] = v
    exp = Expect()
    exp.paf, exp.dup, exp.locals, exp.used_default = paf, dup, None, False
    if paf:
        exp.accept, exp.allowed, exp.why = False, (TypeError, SyntaxError), "positional argument follows keyword argument"
    elif dup:
        exp.accept, exp.allowed, exp.why = False, (TypeError,), "keyword argument repeated"
    else:
        try:
            ba = full.bind(None, None, *pos, **kw)
        except TypeError as ex:
            exp.accept, exp.allowed, exp.why = False, (TypeError,), "TypeError: %s" % ex
        else:
            n_given = len(ba.arguments)
            ba.apply_defaults()
            exp.used_default = len(ba.arguments) > n_given
            exp.accept, exp.allowed, exp.why, exp.locals = True, (), "", dict(ba.arguments)
    seen, bad = set(), False
    any_special = False
    for k, v in flat:
        if k is None:
            bad = bad or any_special
        elif is_special(k):
            bad = bad or k in seen
            seen.add(k)
            any_special = True
    fails = []
    if not bad:  # representable as (params, extra_kwargs) the way wrapper_render does it
        params = [tt.TagParam(k, v) for k, v in flat if k is None or not is_special(k)]
        extras = {k: v for k, v in flat if k is not None and is_special(k)}
        outcomes = []
        for path, validate in (
            ("code", lambda: tt._validate_params_with_code(orig, params, dict(extras))),
            ("signature", lambda: tt._validate_params_with_signature(cls._signature, params, dict(extras))),
        ):
            try:
                args, kwargs = validate()
                ba = full.bind(None, None, *args, **kwargs)
                ba.apply_defaults()
                kind, val = "ok", dict(ba.arguments)
            except Exception as ex:
                kind, val = "exc", ex
            outcomes.append((kind, val if kind == "ok" else type(val)))
            j = judge(exp, kind, val, 1 if kind == "ok" else 0)
            if j:
                fails.append((path, j[0] + "|builtin", "[builtin/%s] {%% %s %%} %s  called as %s: %s" % (path, cls.tag, full, fmt_call(flat), j[1])))
        if not fails and outcomes[0] != outcomes[1]:
            fails.append(("both", "paths-disagree|builtin", "{%% %s %%} %s: code -> %r, signature -> %r" % (cls.tag, fmt_call(flat), outcomes[0], outcomes[1])))
    return fails, exp, any_special, (not bad)


def builtin_alphabet(cls):
    names = [n for n in cls._signature.parameters]
    return [None] + names + [UNKNOWN, NONIDENT, PYKW]


# ---------------------------------------------------------------------------
# part: e2e through a real template

E2E_KEYS = list(NAMES) + [VA, KW, UNKNOWN, "yy", NONIDENT, PYKW, "@on", "a:b", "a:c", "b:x", "zz:q"]
E2E_DICT_ONLY_KEYS = [":x", "", "my key"]


def _val_py(v):
    return v[1]


# `...var` spreads: Python's `*` takes any iterable and `**` any mapping, not just list / dict
import collections as _c
import types as _t

_LIST_CONTAINERS = {"var:tuple": tuple, "var:deque": _c.deque, "var:keys": lambda vals: {i: v for i, v in enumerate(vals)}.values()}
_DICT_CONTAINERS = {"var:proxy": _t.MappingProxyType, "var:chain": lambda d: _c.ChainMap({}, d), "var:userdict": _c.UserDict, "var:odict": _c.OrderedDict}


def flatten_items(items):
    """-> (flat list of (key|None, python value), template argument text, context dict)"""
    flat, parts, ctx = [], [], {}

    def ref(v):
        if v[0] == "i":
            return str(int(v[1]))
        if v[0] == "s":
            return '"%s"' % v[1]
        name = "v%d" % len(ctx)
        ctx[name] = v[1]
        return name

    for it in items:
        t = it[0]
        if t == "pos":
            flat.append((None, _val_py(it[1])))
            parts.append(ref(it[1]))
        elif t == "kw":
            flat.append((it[1], _val_py(it[2])))
            parts.append("%s=%s" % (it[1], ref(it[2])))
        elif t == "lsp":
            vals = [_val_py(v) for v in it[2]]
            flat.extend((None, v) for v in vals)
            if it[1].startswith("var"):
                name = "v%d" % len(ctx)
                ctx[name] = _LIST_CONTAINERS.get(it[1], list)(vals)
                parts.append("..." + name)
            else:
                parts.append("...[%s]" % ", ".join(ref(v) for v in it[2]))
        elif t == "dsp":
            pairs = [(k, _val_py(v)) for k, v in it[2]]
            flat.extend(pairs)
            if it[1].startswith("var"):
                name = "v%d" % len(ctx)
                ctx[name] = _DICT_CONTAINERS.get(it[1], dict)(dict(pairs))
                parts.append("..." + name)
            else:
                parts.append("...{%s}" % ", ".join('"%s": %s' % (k, ref(v)) for k, v in it[2]))
        else:
            raise ValueError(t)
    return flat, " ".join(parts), ctx


def run_e2e(case):
    """-> (fails [(message, bucket)], info dict)"""
    from django.template import Context, Library, Template, engines

    from django_components.node import BaseNode, template_tag

    p = probe_for(case["sig"])
    flat_raw, argtext, ctxd = flatten_items(case["items"])
    info = {"skipped": False}
    flat, in_domain = apply_aggregates(flat_raw)
    for it in case["items"]:
        if it[0] == "dsp" and len({k for k, _ in it[2]}) != len(it[2]):
            in_domain = False  # a dict cannot hold a key twice
    if not in_domain:
        info["skipped"] = True
        return [], info
    exp = python_says(p, flat)
    info["exp"] = exp
    info["special"] = any(k is not None and is_special(k) and not is_agg(k) for k, _ in flat_raw)
    info["agg"] = any(k is not None and is_agg(k) for k, _ in flat_raw)
    info["nontrivial"] = p.kinds >= 2 and (exp.used_default or exp.dup or info["special"] or info["agg"])

    render = p.fn if case["path"] == "code" else _SignatureOnly(p.fn)
    end = case["end"]
    end_tag = "endprobe" if end else None
    lib = Library()
    if case["style"] == "class":
        cls = type("VfProbeNode", (BaseNode,), {"tag": "probe", "end_tag": end_tag, "render": render})
        cls.register(lib)
    else:
        template_tag(lib, tag="probe", end_tag=end_tag)(render)
    sp = " " if argtext else ""
    if end == 0:
        src = "[{%% probe %s%s%%}]" % (argtext, sp)
    elif end == 1:
        src = "[{%% probe %s%s/ %%}]" % (argtext, sp)
    else:
        src = "[{%% probe %s%s%%}body{%% endprobe %%}]" % (argtext, sp)
    info["src"] = src
    engine = engines["django"].engine
    fails = []
    del REC[:]
    engine.template_builtins.append(lib)
    try:
        try:
            tpl = Template(src)
        except Exception as ex:
            del REC[:]
            fails.append(("template %r does not compile: %s: %s" % (src, type(ex).__name__, ex), "e2e-compile:%s" % type(ex).__name__))
            return fails, info
    finally:
        engine.template_builtins.remove(lib)
    context = Context(dict(ctxd))
    try:
        out = tpl.render(context)
    except Exception as ex:
        kind, val, called = "exc", ex, len(REC)
    else:
        called = len(REC)
        kind, val = "ok", None
        if called:
            val = REC[0]
            node = val.pop("self")
            c = val.pop("context")
            if not isinstance(node, BaseNode) or c is not context:
                fails.append(("render() did not receive the node / the context (%r, %r)" % (node, c), "e2e-self-context"))
        if out != "[]":
            fails.append(("output %r, expected '[]'" % (out,), "e2e-output"))
    j = judge(exp, kind, val, called)
    del REC[:]
    if j:
        text = "[e2e/%s/%s] %s  template %s  context %r  (flattened: %s): %s" % (case["style"], case["path"], p.decl, src, ctxd, fmt_call(flat_raw), j[1])
        fails.append((text, j[0] + "|" + tags_for(p, flat_raw, j[0])))
    return fails, info


def e2e_strategy(n_max, focus):
    """Two modes: 'guided' builds a call Python is likely to accept (required parameters supplied, some defaults
    left out, extras only where **kw exists), optionally perturbed by one random item, and then packages runs of
    arguments into single items / list spreads / dict spreads; 'free' draws items independently."""
    from hypothesis import strategies as st

    ids = [i for i, s in enumerate(MASTER) if n_params(s) <= n_max and (focus == "all" or s[0] == 0)]
    scalars = st.one_of(
        st.integers(0, 9).map(lambda n: ["i", n]),
        st.sampled_from(["x", "ab", "", "q r"]).map(lambda s: ["s", s]),
        st.sampled_from([0, 7, "x", "hello", None, True, False, [1, "x"], {"k": 1}]).map(lambda v: ["v", v]),
    )
    forms = st.sampled_from(["var", "lit", "var", "lit", "var", "lit", "var:tuple", "var:deque", "var:keys", "var:proxy", "var:chain", "var:userdict", "var:odict"])
    extra_keys = [UNKNOWN, "yy", NONIDENT, PYKW, "@on", "zz:q", "yy:r", ":x", "my key", ""]

    def package(draw, flat):
        """flat: [(key|None, scalar)] -> items; keys that cannot be written as `key=value` go into dict spreads."""
        items, i = [], 0
        while i < len(flat):
            k, v = flat[i]
            how = draw(st.integers(0, 4))  # 0-2 single, 3-4 spread
            must_spread = k is not None and k in E2E_DICT_ONLY_KEYS
            if how < 3 and not must_spread:
                items.append(["pos", v] if k is None else ["kw", k, v])
                i += 1
                continue
            form = draw(forms)
            size = 1 if must_spread and how < 3 else draw(st.integers(0, 3))
            if k is None:
                vals = []
                while i < len(flat) and len(vals) < size and flat[i][0] is None:
                    vals.append(flat[i][1])
                    i += 1
                items.append(["lsp", form, vals])
            else:
                pairs, seen = [], set()
                while i < len(flat) and len(pairs) < size and flat[i][0] is not None and flat[i][0] not in seen:
                    if form == "lit" and flat[i][0] == "":
                        form = "var"
                    seen.add(flat[i][0])
                    pairs.append([flat[i][0], flat[i][1]])
                    i += 1
                items.append(["dsp", form, pairs])
            if size == 0 and must_spread:
                items.append(["dsp", "var", [[k, v]]])
                i += 1
        return items

    @st.composite
    def cases(draw):
        sig = MASTER[draw(st.sampled_from(ids))]
        k0, k1, va, k2, kw, d, kd, _ = sig
        p = probe_for(sig)
        own = p.names + ([VA] if va else []) + ([KW] if kw else [])
        key = st.sampled_from(own + E2E_KEYS) if not own else st.one_of(st.sampled_from(own), st.sampled_from(E2E_KEYS))
        if draw(st.integers(0, 9)) < 6:
            n_pos = draw(st.integers(0, k0 + k1 + (2 if va else 0)))
            flat = [(None, draw(scalars)) for _ in range(n_pos)]
            kws = []
            for idx, name in enumerate(p.names):
                if idx < k0 or (idx < k0 + k1 and idx < n_pos):
                    continue  # positional-only, or already given positionally
                if name not in p.defaulted or draw(st.booleans()):
                    kws.append((name, draw(scalars)))
            if kw:
                for k in draw(st.lists(st.sampled_from(extra_keys), max_size=2, unique=True)):
                    kws.append((k, draw(scalars)))
            if len(kws) > 1:
                kws = list(draw(st.permutations(kws)))
            flat += kws
            if draw(st.integers(0, 9)) < 3:  # near miss: one more item anywhere
                extra = (None, draw(scalars)) if draw(st.booleans()) else (draw(key), draw(scalars))
                flat.insert(draw(st.integers(0, len(flat))), extra)
            items = package(draw, flat)
        else:
            dkey = st.one_of(key, st.sampled_from(E2E_DICT_ONLY_KEYS))
            pos = scalars.map(lambda v: ["pos", v])
            kwi = st.tuples(key, scalars).map(lambda t: ["kw", t[0], t[1]])
            lsp = st.tuples(forms, st.lists(scalars, max_size=3)).map(lambda t: ["lsp", t[0], t[1]])

            def mk_dsp(t):
                form, pairs = t
                if form == "lit":
                    pairs = [[k, v] for k, v in pairs if k != ""]
                return ["dsp", form, [list(x) for x in pairs]]

            dsp = st.tuples(forms, st.lists(st.tuples(dkey, scalars).map(list), max_size=3, unique_by=lambda kv: kv[0])).map(mk_dsp)
            head = draw(st.lists(st.one_of(pos, pos, lsp), max_size=3))
            tail = draw(st.lists(st.one_of(kwi, kwi, kwi, dsp, dsp, lsp, pos), max_size=4))
            items = head + tail
        return {
            "part": "e2e",
            "sig": list(sig),
            "style": draw(st.sampled_from(["class", "decorator"])),
            "path": draw(st.sampled_from(["code", "signature"])),
            "end": draw(st.sampled_from([0, 1, 2])),
            "items": items,
        }

    return cases()


# ---------------------------------------------------------------------------
# plan / shards


def _sig_cost(sig, L):
    a = n_params(sig) + 5
    return sum((a if l <= 4 else a - 1) ** l for l in range(L + 1))


# coverage-guided stage (atheris drives these Hypothesis shards, see vf/run.py): {tier: {shard kind: (shards, executions)}}
CG = {'quick': {'e2e': (1, 600)}, 'thorough': {'e2e': (6, 20000)}}


def plan(tier, seed, scale=1.0):
    b = BOUNDS[tier]
    ids = [i for i, s in enumerate(MASTER) if n_params(s) <= b["N"]]
    ids.sort(key=lambda i: (-_sig_cost(MASTER[i], b["L"]), i))
    n_sh = 48 if tier == "quick" else 112
    groups = [ids[k::n_sh] for k in range(n_sh)]
    specs = []
    n = max(16, int(b["e2e_examples"] * scale))
    n_e2e = 16
    focus = ["all", "noposonly", "all", "clean"]
    for sh in range(n_e2e):
        specs.append({"kind": "e2e", "n": n // n_e2e, "seed": derive_seed(seed, "e2e", sh), "focus": focus[sh % 4], "N": b["N"], "sample": sh % 4 == 1})
    for k, g in enumerate(groups):
        if g:
            specs.append({"kind": "enum", "sigs": g, "L": b["L"], "sample": k % 12 == 0})
    specs.append({"kind": "builtin", "L": b["L"]})
    return specs


def _record(col, case, msg, bucket, per_bucket):
    col.count("mismatch:" + bucket)
    fid = attribute(case, msg, bucket)
    if fid:
        col.fail(case, msg, bucket, finding=fid)
        return
    if per_bucket.get(bucket, 0) < MAX_FAILS_PER_BUCKET:
        per_bucket[bucket] = per_bucket.get(bucket, 0) + 1
        col.fail(case, msg, bucket)


def run_shard(spec):
    col = Collector()
    kind = spec["kind"]
    if kind == "enum":
        L = spec["L"]
        per_bucket = {}
        for si in spec["sigs"]:
            sig = MASTER[si]
            r = SigRunner(sig, L)
            p = r.p
            ev = r.eval
            seqno = 0
            nt_add = col.nontrivial.add
            n_nt5 = 0
            for ln in range(L + 1):
                # the aggregate symbol (last in the alphabet) is only enumerated in sequences of length <= 4
                for seq in itertools.product(range(p.nsym if ln <= 4 else p.nsym - 1), repeat=ln):
                    seqno += 1
                    fails, nt = ev(seq)
                    if nt:
                        if ln < 5:
                            nt_add((si << 40) | seqno)
                            if spec.get("sample") and not col.nt_samples and seqno % 997 == 0 and ln >= 3:
                                col.nt_samples.append({"decl": p.decl, "call": fmt_call([(p.keys[s], i) for i, s in enumerate(seq)])})
                        else:
                            n_nt5 += 1
                    if fails:
                        flat_raw = [(p.keys[s], i) for i, s in enumerate(seq)]
                        for layer, path, bucket, text in fails:
                            _record(col, r.case_for(seq, layer, path), message(p, flat_raw, layer, path, text), bucket, per_bucket)
            col.evaluations += r.n_eval
            for k, v in r.cnt.items():
                col.count(k, v)
            if n_nt5:
                col.count("nontrivial_len5", n_nt5)
            col.count("signatures")
            for lab, on in (("sig_posonly", sig[0]), ("sig_varargs", sig[2]), ("sig_kwonly", sig[3]), ("sig_varkw", sig[4]), ("sig_slash_after_context", sig[7]), ("sig_with_defaults", sig[5] or sig[6])):
                if on:
                    col.count(lab)
        col.exhaustive = True
        return col

    if kind == "builtin":
        L = min(spec["L"], 4)
        per_bucket = {}
        for cls in builtin_nodes():
            keys = builtin_alphabet(cls)
            for ln in range(L + 1):
                for seq in itertools.product(range(len(keys)), repeat=ln):
                    fails, exp, any_special, ran = run_builtin_seq(cls, keys, seq)
                    if not ran:
                        continue
                    col.evaluations += 1
                    col.count("builtin")
                    col.count("builtin:" + cls.tag)
                    if exp.accept:
                        col.count("builtin_py_accepts")
                    kinds = len({prm.kind for prm in cls._signature.parameters.values()})
                    if kinds >= 2 and (exp.used_default or exp.dup or any_special):
                        col.nontrivial.add(jhash(["builtin", cls.tag, list(seq)]))
                    for path, bucket, text in fails:
                        case = {"part": "builtin", "tag": cls.tag, "seq": [keys[s] for s in seq]}
                        _record(col, case, text, bucket, per_bucket)
        col.exhaustive = True
        return col

    if kind == "e2e":
        focus = spec["focus"]
        strat = e2e_strategy(spec["N"], focus)

        def check(case):
            if focus == "clean" and d2_predicate(probe_for(case["sig"]), flatten_items(case["items"])[0]):
                col.count("e2e_filtered_clean_shard")
                return []
            fails, info = run_e2e(case)
            if info["skipped"]:
                col.count("e2e_skipped_out_of_domain")
                return []
            exp = info["exp"]
            labels = ["e2e", "e2e_style_" + case["style"], "e2e_path_" + case["path"], "e2e_end_%d" % case["end"]]
            labels.append("e2e_py_accepts" if exp.accept else ("e2e_py_rejects_paf" if exp.paf else ("e2e_py_rejects_dup" if exp.dup else "e2e_py_rejects_binding")))
            if exp.used_default:
                labels.append("e2e_uses_default")
            if info["special"]:
                labels.append("e2e_nonidentifier_key")
            if info["agg"]:
                labels.append("e2e_aggregate_key")
            if any(it[0] in ("lsp", "dsp") for it in case["items"]):
                labels.append("e2e_has_spread")
            if probe_for(case["sig"]).k0:
                labels.append("e2e_sig_posonly")
            nt = info["nontrivial"]
            sample = None
            if spec.get("sample") and nt and exp.accept and not col.nt_samples and len(case["items"]) >= 3 and "e2e_has_spread" in labels:
                sample = {"decl": probe_for(case["sig"]).decl, "template": info["src"], "context": {k_: (v_ if type(v_) in (int, str, bool, list, dict, type(None)) else repr(v_)) for k_, v_ in flatten_items(case["items"])[2].items()}, "style": case["style"], "path": case["path"]}
            col.case(case if nt else None, nt, sample=sample, labels=labels)
            return fails

        return hyp_search(strat, check, col, max_examples=spec["n"], seed=spec["seed"], attribute=attribute)
    raise ValueError(kind)


def replay(case):
    part = case["part"]
    if part == "enum":
        p = probe_for(case["sig"])
        keys = case["seq"]
        r = SigRunner(case["sig"], max(1, len(keys)))
        seq = tuple(p.keys.index(k) for k in keys)
        fails, _ = r.eval(seq)
        flat_raw = [(k, i) for i, k in enumerate(keys)]
        return [(message(p, flat_raw, layer, path, text), bucket) for layer, path, bucket, text in fails]
    if part == "builtin":
        cls = {c.tag: c for c in builtin_nodes()}[case["tag"]]
        keys = builtin_alphabet(cls)
        fails, _, _, _ = run_builtin_seq(cls, keys, tuple(keys.index(k) for k in case["seq"]))
        return [(text, bucket) for _, bucket, text in fails]
    if part == "e2e":
        return run_e2e(case)[0]
    raise ValueError(part)
