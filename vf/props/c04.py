"""C04 — exactly the JS/CSS of the rendered components is delivered, once, in order.

PG programs whose component classes carry random subsets of js / css / Media (shared files,
inheritance, dict-form css, non-ASCII class names, unrendered classes); pages with/without
<head>/<body> and {% component_*_dependencies %} placeholders; document and fragment mode; three
entry paths (render_dependencies, middleware, Component.render).  The expected class order /
asset sets come from the reference interpreter's instance list.
"""
import base64
import json
import re
from urllib.parse import quote

from hypothesis import strategies as st

from vf import env
from vf.core import Collector, derive_seed, exc_bucket, hyp_search, jhash, known_active
from vf.gen import pg, pgmin, pgrun, pgstrat

PROP = "C04"
LEVEL = "exploration"
RULE = (
    "PG programs (as C01, no expected-error constructs) whose classes carry random subsets of js / css (incl. whitespace-only) / Media.js / Media.css "
    "(str, list, dict forms; files shared between classes; Media and js/css inherited from a base component class), ASCII and non-ASCII class names, "
    "classes that are registered but never rendered; page skeletons with/without <head>, <body> and each {% component_*_dependencies %} placeholder "
    "(page level, and occasionally inside component templates incl. root position); rendered under both context behaviours; document and fragment; "
    "entry paths render_dependencies(), ComponentDependencyMiddleware (document; response status 200 / 201 / 404 / 422 / 500 as a function of the page), Component.render(type=...) of a wrapping page component and DynamicComponent.render(is=<that component>, type=...). "
    "Oracle: inline <script>/<style> bodies == js/css of the rendered classes in order of first appearance (interpreter's document-order instance list), "
    "each as often as there are insertion points of that kind (1 unless several placeholders are rendered); every Media URL of the rendered classes "
    "exactly once per insertion, nothing from unrendered classes; fragment: decoded loader JSON lists exactly component-endpoint URLs + Media tags, "
    "nothing inlined; no marker comment / placeholder / <template djc-render-id> survives; entry paths agree. "
    "Non-trivial = >=2 rendered classes with assets and (a class rendered twice or nested) and >=1 registered-but-unrendered class with assets; distinct by (program, mode)."
)
ASSUMPTIONS = [
    "reference interpreter decides which classes are rendered and in which document order",
    "relative order between Media files is not asserted (Django's merge contract), only set + multiplicity",
    "document mode without an insertion point inserts nothing (documented): then only marker removal is checked",
]
BOUNDS = {"quick": {"programs": 6400}, "thorough": {"programs": 100000}}
CFG = {"assets": True, "skeleton": True, "deps": True, "elems": True, "errors": False, "isfilled": False, "max_nodes": 4, "only": True, "max_comps": 5, "extra_unrendered": True}

_SCRIPT_RE = re.compile(r"<script([^>]*)>(.*?)</script>", re.S)
_STYLE_RE = re.compile(r"<style[^>]*>(.*?)</style>", re.S)
_LINK_RE = re.compile(r"<link ([^>]*)>")
_ATTR_RE = re.compile(r'([\w\-:]+)(?:="([^"]*)")?')


def attribute(case, message, bucket):
    return None


def _eff(specs, spec, key):
    seen = set()
    while spec is not None and spec["name"] not in seen:
        seen.add(spec["name"])
        if spec.get(key) is not None:
            return spec[key]
        spec = specs.get(spec.get("base"))
    return None


def _media(specs, spec):
    js, css = [], []
    seen = set()
    while spec is not None and spec["name"] not in seen:
        seen.add(spec["name"])
        m = spec.get("media") or {}
        j = m.get("js")
        if isinstance(j, str):
            j = [j]
        js.extend(j or [])
        c = m.get("css")
        if isinstance(c, str):
            c = {"all": [c]}
        elif isinstance(c, list):
            c = {"all": c}
        for medium, files in (c or {}).items():
            for f in [files] if isinstance(files, str) else files:
                css.append((medium, f))
        if m.get("extend") is False:
            break  # Media.extend = False: the bases' Media files are not part of this class's media
        spec = specs.get(spec.get("base"))
    return set(js), set(css)


def parse_assets(html):
    out = {"inline_js": [], "inline_css": [], "src": [], "links": [], "json": None, "json_count": 0}
    for m in _SCRIPT_RE.finditer(html):
        attrs = dict(_ATTR_RE.findall(m.group(1)))
        if "data-djc" in attrs and attrs.get("type") == "application/json":
            out["json_count"] += 1
            try:
                d = json.loads(m.group(2))
                out["json"] = {k: [base64.b64decode(x).decode() for x in v] for k, v in d.items()}
            except Exception as e:  # noqa
                out["json"] = {"error": repr(e)}
        elif "src" in attrs:
            out["src"].append(attrs["src"])
        elif attrs.get("name") == "JS_PLACEHOLDER":
            pass
        else:
            out["inline_js"].append(m.group(2))
    out["inline_css"] = [m.group(1) for m in _STYLE_RE.finditer(html)]
    for m in _LINK_RE.finditer(html):
        attrs = dict(_ATTR_RE.findall(m.group(1)))
        if "href" in attrs:
            out["links"].append((attrs.get("media", ""), attrs["href"]))
    return out


def leftovers(html):
    bad = []
    for pat, what in ((r"<!--\s*_RENDERED", "marker comment"), (r"<template [^>]*djc-render-id", "component placeholder"), (r"CSS_PLACEHOLDER|JS_PLACEHOLDER", "dependency placeholder")):
        if re.search(pat, html):
            bad.append(what)
    return bad


def expectations(prog, it, classes):
    specs = {c["name"]: c for c in prog["comps"]}
    order = []
    for inst in it.instances:
        if inst.spec["name"] not in order:
            order.append(inst.spec["name"])
    js = [(_eff(specs, specs[n], "js") or "").strip() for n in order]
    css = [(_eff(specs, specs[n], "css") or "").strip() for n in order]
    exp = {"order": order, "js": [x for x in js if x], "css": [x for x in css if x]}
    mjs, mcss = set(), set()
    for n in order:
        a, b = _media(specs, specs[n])
        mjs |= a
        mcss |= b
    exp["media_js"] = {"/static/" + f for f in mjs}
    exp["media_css"] = {(m, "/static/" + f) for m, f in mcss}
    exp["js_urls"] = {"/components/cache/%s.js" % quote(classes[n]._class_hash) for n, x in zip(order, js) if x}
    exp["css_urls"] = {"/components/cache/%s.css" % quote(classes[n]._class_hash) for n, x in zip(order, css) if x}
    return exp


def judge_document(tag, html, exp, n_js, n_css):
    """n_js / n_css: number of insertion points (placeholders rendered, else 1 if default location exists, else 0)."""
    fails = []
    a = parse_assets(html)
    bad = leftovers(html)
    if bad:
        fails.append(("%s: %s survived in the output: %r" % (tag, ", ".join(bad), html[:400]), "c04-marker-survives"))
    if a["inline_js"] != exp["js"] * n_js:
        fails.append(("%s: inline <script> bodies %r, expected %r x%d (rendered classes in order %r)" % (tag, a["inline_js"], exp["js"], n_js, exp["order"]), "c04-inline-js"))
    if a["inline_css"] != exp["css"] * n_css:
        fails.append(("%s: inline <style> bodies %r, expected %r x%d (rendered classes in order %r)" % (tag, a["inline_css"], exp["css"], n_css, exp["order"]), "c04-inline-css"))
    src = [s for s in a["src"] if not s.endswith("django_components.min.js")]
    if sorted(src) != sorted(list(exp["media_js"]) * n_js):
        fails.append(("%s: Media script src %r, expected each of %r exactly %d time(s)" % (tag, sorted(src), sorted(exp["media_js"]), n_js), "c04-media-js"))
    css_urls = sorted({u for _, u in exp["media_css"]})
    if sorted(u for _, u in a["links"]) != sorted(css_urls * n_css):
        # every FILE once (a file listed under two media types is still one file)
        fails.append(("%s: Media <link> %r, expected each of %r exactly %d time(s)" % (tag, sorted(a["links"]), css_urls, n_css), "c04-media-css"))
    if n_js and (exp["js"] or exp["css"] or exp["media_js"] or exp["media_css"]):
        j = a["json"] or {}
        if set(j.get("loadedJsUrls", [])) != exp["js_urls"] | exp["media_js"] or set(j.get("loadedCssUrls", [])) != exp["css_urls"] | {u for _, u in exp["media_css"]}:
            fails.append(("%s: loader JSON loaded*Urls %r, expected js %r css %r" % (tag, j, sorted(exp["js_urls"] | exp["media_js"]), sorted(exp["css_urls"] | {u for _, u in exp["media_css"]})), "c04-json-document"))
    return fails


def judge_fragment(tag, html, exp):
    fails = []
    a = parse_assets(html)
    bad = leftovers(html)
    if bad:
        fails.append(("%s: %s survived in the output: %r" % (tag, ", ".join(bad), html[:400]), "c04-marker-survives"))
    if a["inline_js"] or a["inline_css"] or a["src"] or a["links"]:
        fails.append(("%s: fragment output inlines assets: %r" % (tag, {k: a[k] for k in ("inline_js", "inline_css", "src", "links")}), "c04-fragment-inlined"))
    any_assets = exp["js_urls"] or exp["css_urls"] or exp["media_js"] or exp["media_css"]
    j = a["json"]
    if not any_assets:
        if j and (j.get("toLoadJsTags") or j.get("toLoadCssTags")):
            fails.append(("%s: loader JSON declares assets %r but no rendered class has any" % (tag, j), "c04-json-fragment"))
        return fails
    if not j or "error" in j:
        fails.append(("%s: no loader JSON in fragment output although assets %r expected" % (tag, sorted(exp["js_urls"] | exp["media_js"])), "c04-json-missing"))
        return fails
    got_js = [m.group(1) for t in j.get("toLoadJsTags", []) for m in [re.search(r'src="([^"]+)"', t)] if m]
    got_css = [(re.search(r'media="([^"]*)"', t).group(1) if re.search(r'media="([^"]*)"', t) else "", m.group(1)) for t in j.get("toLoadCssTags", []) for m in [re.search(r'href="([^"]+)"', t)] if m]
    want_js = sorted(exp["js_urls"] | exp["media_js"])
    want_css = sorted(exp["css_urls"] | {u for _, u in exp["media_css"]})
    got_css = [u for _, u in got_css]
    if sorted(got_js) != want_js or len(got_js) != len(j.get("toLoadJsTags", [])):
        fails.append(("%s: toLoadJsTags %r, expected exactly %r" % (tag, j.get("toLoadJsTags"), want_js), "c04-json-fragment-js"))
    if sorted(got_css) != want_css or len(got_css) != len(j.get("toLoadCssTags", [])):
        fails.append(("%s: toLoadCssTags %r, expected exactly %r" % (tag, j.get("toLoadCssTags"), want_css), "c04-json-fragment-css"))
    return fails


def _count_d(tree, kind):
    n = 0
    for p in tree:
        if isinstance(p, tuple):
            if p[0] == "D" and p[1] == kind:
                n += 1
            elif p[0] == "E":
                n += _count_d(p[3], kind)
            elif p[0] == "I":
                n += _count_d(p[3], kind)
    return n


def check_program(case, col=None):
    from django.http import HttpResponse
    from django.template import Context, Template

    from django_components import Component, registry, render_dependencies
    from django_components.middleware import ComponentDependencyMiddleware

    prog = case["program"]
    fails = []
    for mode in ("django", "isolated"):
        kind, exp_text, it = pgrun.run_model(prog, mode)
        if kind != "ok":
            if col is not None:
                col.case(None, False, labels=("model:" + kind,))
            continue
        res = pgrun.run_real(prog, mode, budget=20 * len(it.instances) + 50)
        if res.exc is not None:
            fails.append(("[%s] unexpected %r" % (mode, res.exc), "c04-exc:" + exc_bucket(res.exc)))
            continue
        raw = res.out
        exp = expectations(prog, it, res.classes)
        page_src = res.src
        n_dj = _count_d(it.tree, "depjs")
        n_dc = _count_d(it.tree, "depcss")
        flat = pg.flatten(it.tree)
        n_js = n_dj if n_dj else (1 if "</body>" in flat else 0)
        n_css = n_dc if n_dc else (1 if "</head>" in flat else 0)
        with env.components_settings(context_behavior=mode):
            outs = {}
            try:
                outs["render_dependencies/document"] = render_dependencies(raw, "document")
                outs["render_dependencies/fragment"] = render_dependencies(raw, "fragment")
                # the status of the response is a function of the page (component-built error / "created" pages are HTML too)
                status = (200, 200, 404, 422, 201, 500)[len(raw) % 6]
                mw = ComponentDependencyMiddleware(get_response=lambda request: HttpResponse(raw, status=status))
                outs["middleware/document"] = mw(None).content.decode("utf-8")

                class VfPage(Component):
                    template = page_src

                    def get_context_data(self, **kw):
                        return kw

                ctx = dict(prog["page"]["ctx"])
                outs["Component.render/document"] = VfPage.render(kwargs=ctx, type="document")
                outs["Component.render/fragment"] = VfPage.render(kwargs=ctx, type="fragment")
                # the dynamic component as the ROOT of a Python render, `is=` naming the page component
                from django_components.components.dynamic import DynamicComponent

                outs["DynamicComponent.render/fragment"] = DynamicComponent.render(kwargs=dict(ctx, **{"is": VfPage}), type="fragment")
                outs["DynamicComponent.render/document"] = DynamicComponent.render(kwargs=dict(ctx, **{"is": VfPage}), type="document")
            except Exception as e:  # noqa
                fails.append(("[%s] dependency rendering raised %r (rendered classes %r)" % (mode, e, exp["order"]), "c04-exc:" + exc_bucket(e)))
                continue
        for tag, html in outs.items():
            if tag.endswith("document"):
                fails.extend(judge_document("[%s] %s" % (mode, tag), html, exp, n_js, n_css))
            else:
                fails.extend(judge_fragment("[%s] %s" % (mode, tag), html, exp))
        if col is not None:
            specs = {c["name"]: c for c in prog["comps"]}
            with_assets = [n for n in exp["order"] if (_eff(specs, specs[n], "js") or "").strip() or (_eff(specs, specs[n], "css") or "").strip() or any(_media(specs, specs[n]))]
            names = [i.spec["name"] for i in it.instances]
            twice = any(names.count(n) >= 2 for n in exp["order"]) or any(i.parent is not None for i in it.instances)
            unrendered = [c["name"] for c in prog["comps"] if c["name"] not in exp["order"] and (c.get("js") or c.get("css") or c.get("media"))]
            nt = len(with_assets) >= 2 and twice and bool(unrendered)
            labels = ["mode:" + mode, "insertion_js:%d" % min(n_js, 2), "insertion_css:%d" % min(n_css, 2)]
            if any(c.get("clsname") for c in prog["comps"] if c["name"] in exp["order"]):
                labels.append("nonascii_class_rendered")
            if any(c.get("base") for c in prog["comps"] if c["name"] in exp["order"]):
                labels.append("inherited_assets")
            if n_dj or n_dc:
                labels.append("placeholder_rendered")
            if unrendered:
                labels.append("has_unrendered_class_with_assets")
            sample = {"mode": mode, "page": page_src[:300], "rendered_order": exp["order"], "inline_js": exp["js"], "media_js": sorted(exp["media_js"]), "unrendered": unrendered} if nt else None
            col.case(jhash([prog, mode]), nt, sample=sample, labels=labels)
    return fails


# coverage-guided stage (atheris drives these Hypothesis shards, see vf/run.py): {tier: {shard kind: (shards, executions)}}
CG = {'thorough': {'main': (8, 3000)}}


def plan(tier, seed, scale=1.0):
    n = max(16, int(BOUNDS[tier]["programs"] * scale))
    shards = 16 if tier == "quick" else 128
    return [{"kind": "main", "n": n // shards, "seed": derive_seed(seed, "c04", sh)} for sh in range(shards)]


def run_shard(spec):
    col = Collector()
    strat = st.builds(lambda p: {"kind": "main", "program": p}, pgstrat.programs(CFG))
    return hyp_search(strat, lambda case: check_program(case, col), col, max_examples=spec["n"], seed=spec["seed"], shrink=False, attribute=attribute, post_min=lambda c, still: pgmin.minimize(c, still, 300))


def replay(case):
    return check_program(case)
