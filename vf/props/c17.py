"""C17 — static-files finder exposes exactly the allowed, non-forbidden files.

A generated scratch tree (component directories, sibling/parent directories with "secret" files) is combined with a
generated allowed/forbidden configuration.  `ComponentsFileSystemFinder.list([])` and `.find(path[, all=True])` are
compared with an independent predicate model (`str.endswith` for suffix strings, `Pattern.search` for compiled regexes)
evaluated on an `os.walk` of what really is on disk; every lookup path (existing, missing, non-normalised, traversal,
absolute, sibling-prefix) must yield nothing, `SuspiciousFileOperation`, or a model-exposed file whose realpath lies
below a component directory.
"""
import os
import posixpath
import re
from collections import Counter

from vf.core import Collector, derive_seed, exc_bucket, guarded, hyp_search, jhash
from vf.gen import trees

PROP = "C17"
LEVEL = "exploration"
RULE = (
    "Case = (scratch tree, allowed list, forbidden list, setting-name/form variant, extra lookup paths). Trees: 1-2 "
    "component dirs (optionally a configured-but-missing one) with nested sub-dirs (incl. dirs named like files: "
    "`a.js/`, `x.py/`, hidden, `__pycache__`), file names = stem x extension from pools holding multi-dot names, "
    "upper-case and look-alike extensions (x.pyc, x.py.js, x.jsx, xjs, x.tarXgz, x.c), regex metacharacters (a+b.js, "
    "x.c++, x.$$$) plus names derived from the configured suffixes (case-flipped, dot dropped, inner dot replaced, one "
    "char more/less), and files outside the component dirs (project root, parent, sibling-prefix `comp_evil/`). "
    "Config: allowed/forbidden each default(None) / empty / 1-3 entries of suffix strings (plain, multi-dot, "
    "metacharacter) or compiled regexes (matching only inside the last path segment, or via an upper-case token that "
    "cannot occur in directory names); forbidden given under `static_files_forbidden` or the deprecated "
    "`forbidden_static_files`; COMPONENTS as dict or ComponentsSettings. Lookups: for every file on disk (inside or "
    "outside) and every configured root: relative path, `./`-prefixed, `sub/../`-prefixed, trailing slash, out-and-"
    "back-in, absolute; missing names; generated segment soups with `..`. Each with find(p) and find(p, all=True), plus "
    "list([]). Non-trivial = the config contains a multi-dot or metacharacter suffix or a regex AND a component dir "
    "holds >= 1 look-alike of a configured entry (a name the entry does not accept but which differs only by case, a "
    "dropped/replaced dot, one character, or an embedded copy of the suffix); distinct by (config, file list)."
)
ASSUMPTIONS = [
    "suffix strings start with a dot, as documented ('file extensions (including the leading dot)')",
    "compiled regexes are position independent: they give the same answer on the file name, the path relative to the "
    "component dir and the absolute path (the finder applies `search` to the relative path in list() and to the "
    "absolute path in find()); cases where a generated regex is not are skipped and counted",
    "no symlinks, no file names containing newline or NUL; lookups never name a directory",
    "precedence between static_files_forbidden and the deprecated forbidden_static_files when both are set is not tested",
    "the app-level dir django_components/components (INSTALLED_APPS of the harness) is a component dir like any other",
]
BOUNDS = {
    "quick": {"cases": 9600, "max_files": 16, "shards": 32},
    "thorough": {"cases": 200000, "max_files": 24, "shards": 96},
}

# Documented defaults (docs/reference/settings.md, `static_files_allowed` / `static_files_forbidden`) — copied here on
# purpose, so that the model does not read them from the code under test.
DEFAULT_ALLOWED = [
    ".css", ".js", ".jsx", ".ts", ".tsx",
    ".apng", ".png", ".avif", ".gif", ".jpg", ".jpeg", ".jfif", ".pjpeg", ".pjp", ".svg",
    ".webp", ".bmp", ".ico", ".cur", ".tif", ".tiff",
    ".eot", ".ttf", ".woff", ".otf", ".svg",
]  # fmt: skip
DEFAULT_FORBIDDEN = [".html", ".django", ".dj", ".tpl", ".py", ".pyc"]
BACKEND_SUFFIXES = (".py", ".pyc", ".html", ".django", ".dj", ".tpl")

PLAIN_SUFFIXES = [".js", ".css", ".py", ".html", ".txt", ".png", ".ts", ".map", ".gz", ".c", ".h", ".bak", ".JS", ".pyc", ".tpl"]
MULTIDOT_SUFFIXES = [".tar.gz", ".min.js", ".d.ts", ".js.map", ".py.js", ".tpl.js", ".py.bak"]
META_SUFFIXES = [".c++", ".h++", ".$$$", ".js?", ".(bak)", ".a|b", ".x*", ".[1]", ".a(1"]
# names that the *unescaped-regex reading* of a suffix would (wrongly) accept / that are one edit away
NEAR = {
    ".c++": [".c", ".cc", ".c+"], ".h++": [".h", ".hh"], ".js?": [".j", ".js"], ".(bak)": [".bak"],
    ".a|b": [".a", ".ab", "b", ".axx"], ".x*": [".", ".x", ".xx"], ".[1]": [".1"], ".$$$": [".", ".$"],
    ".a(1": [".a1", ".a"], ".tar.gz": [".tarXgz", ".tar-gz", ".targz", ".gz"], ".min.js": [".minXjs", ".minjs", ".js"],
    ".d.ts": [".dXts", ".d-ts", ".ts"], ".js.map": [".jsXmap", ".map"], ".py.js": [".pyXjs", ".js", ".py"],
    ".tpl.js": [".tplXjs", ".tpl"], ".py.bak": [".pyXbak", ".py"],
}  # fmt: skip
# compiled regexes: end-anchored over non-slash characters, or carrying an upper-case token (directory names and the
# scratch root are lower-case), or matching everything.
REGEXES = [
    r"\.m?js$", r"\.(png|jpe?g|svg)$", r"\.min\.[a-z]+$", r"\.d\.ts$", r"(?i)\.js$", r"(?i)\.py[co]?$", r"\.py[^/]*$",
    r"[^/]*\.tar\.gz$", r"~$", r"\.[a-z]+\.bak$", r"\$\$\$$", r"\.[^/.]*$", r"README", r"QZ[0-9]", r"LICEN[SC]E", r"\.PY",
    r".*", r"",
    r"proj", r"^/",  # match only in the absolute location of the component dir, never in a file's name or relative path
]  # fmt: skip
FLAG_SENSITIVE = [r"\.py$", r"\.js$", r"\.html$", r"\.css$", r"\.txt$", r"\.PY", r"README", r"\.m?js$"]
STEMS = ["a", "x", "main", "a+b", "a.b", "A", "__init__", ".hid", "my-comp", "a b", "(1)", "a$", "README", "QZ7", "LICENSE", "é", "x.py", "x.js", "a.tar", "c"]
EXTS = [
    ".js", ".JS", ".jsx", ".mjs", ".j", ".css", ".py", ".pyc", ".pyo", ".PY", ".Py", ".py~", ".py.js", ".js.py", ".py.bak",
    ".html", ".htm", ".HTML", ".django", ".dj", ".tpl", ".tpl.js", ".txt", ".png", ".jpeg", ".svg", ".tar.gz", ".tarXgz",
    ".gz", ".min.js", ".minXjs", ".d.ts", ".dXts", ".ts", ".js.map", ".map", ".c", ".cc", ".c++", ".h", ".h++", ".$$$",
    ".bak", ".(bak)", ".a|b", ".x*", ".[1]", ".1", "js", "py", "", "_py", ".pyjs",
]  # fmt: skip
COMP_DIRS = ["proj/comp", "proj/comp2", "proj/components", "proj/ui/widgets"]
OUTSIDE_BASES = ["", "proj", "proj/comp_evil", "proj/components_old", "proj/ui", "proj/comp.bak"]
SUBDIRS = ["", "", "", "sub", "sub/deep", "a.js", "x.py", ".hid", "a+b", "__pycache__", "lib.min", "card"]
SOUP = ["..", "..", ".", "sub", "comp", "comp2", "comp_evil", "proj", "ui", "widgets", "x.js", "a.py", "secret.py", "a.js"]


# ---------------------------------------------------------------------------
# model


def _rx(e):
    """['r', source] or ['r', source, 'I'] (compiled with re.IGNORECASE: the flag is NOT part of the pattern source)"""
    return re.compile(e[1], re.IGNORECASE) if len(e) > 2 and e[2] == "I" else re.compile(e[1])


def _compile(entries):
    """[['s', suffix] | ['r', source] | ['r', source, 'I']] -> [('s', suffix) | ('r', compiled)]"""
    return [("s", e[1]) if e[0] == "s" else ("r", _rx(e)) for e in entries]


def _accepts(entry, name):
    kind, v = entry
    return name.endswith(v) if kind == "s" else v.search(name) is not None


def model_exposed(name, allowed, forbidden):
    return any(_accepts(e, name) for e in allowed) and not any(_accepts(e, name) for e in forbidden)


def _d1_accepts(entry, name):
    """Diagnostic only: suffix read as the *unescaped* regex `\\<suffix>$` (used to label failures, never to excuse)."""
    kind, v = entry
    if kind == "r":
        return v.search(name) is not None
    try:
        return re.search("\\" + v + "$", name) is not None
    except re.error:
        return None


def _d1_like(name, allowed, forbidden):
    a = [_d1_accepts(e, name) for e in allowed]
    f = [_d1_accepts(e, name) for e in forbidden]
    if None in a or None in f:
        return None
    return any(a) and not any(f)


def is_lookalike(name, entry):
    kind, v = entry
    if _accepts(entry, name):
        return False
    if kind == "s":
        if name.lower().endswith(v.lower()) or (len(v) > 1 and v in name) or (len(v) > 1 and name.endswith(v[1:])):
            return True
        return any(name.endswith(n) for n in NEAR.get(v, ()) if n) or name.endswith(v[:-1]) and len(v) > 2
    for alt in (name.lower(), name.upper(), name[:-1], name + "s", name.replace("X", ".")):
        if alt != name and v.search(alt) is not None:
            return True
    return False


def _special_entry(e):
    kind, v = e
    if kind == "r":
        return True
    return v.count(".") > 1 or any(ch in v[1:] for ch in r".^$*+?{}[]\|()")


# ---------------------------------------------------------------------------
# one case


def _effective(case):
    allowed = _compile(case["allowed"]) if case["allowed"] is not None else [("s", s) for s in DEFAULT_ALLOWED]
    forbidden = _compile(case["forbidden"]) if case["forbidden"] is not None else [("s", s) for s in DEFAULT_FORBIDDEN]
    return allowed, forbidden


def _setting_value(entries):
    if entries is None:
        return None
    return [e[1] if e[0] == "s" else _rx(e) for e in entries]


def _lookups(root, roots, all_files, extra):
    """Lookup strings (deduplicated, ordered) with a coarse class label."""
    out = {}

    def add(p, cls):
        if "\x00" not in p and p not in ("", ".") and p not in out:
            out[p] = cls

    cfg_roots = [r for r in roots if r.startswith(root + "/")]
    for full in all_files:
        for R in cfg_roots:
            rel = posixpath.relpath(full, R)
            inside = not rel.startswith("../")
            cls = "in" if inside else "trav"
            add(rel, cls)
            add("./" + rel, cls)
            add("sub/../" + rel, cls)
            add(rel + "/", cls)
            add(rel.replace("/", "//", 1), cls)
            if inside:
                add("../" + posixpath.basename(R) + "/" + rel, "in-outback")
                add(rel + ".missing", "missing")
                add(posixpath.join(posixpath.dirname(rel), "nope.js"), "missing")
        add(full, "abs")
        add("/" + full, "abs")
    for e in extra:
        add(e.replace("{CASE}", root), "soup")
    return out


def run_case(case, col=None):
    from django.conf import settings
    from django.core.exceptions import SuspiciousFileOperation
    from django.test import override_settings

    import django_components
    from django_components import finders as djc_finders
    from django_components.app_settings import ComponentsSettings

    fails = []
    labels = []
    with trees.scratch_root("c17") as root:
        trees.write_tree(root, case["files"], content="x")
        comp_dirs = [posixpath.join(root, d) for d in case["dirs"]]
        for d in comp_dirs:
            os.makedirs(d, exist_ok=True)
        configured = list(comp_dirs) + [posixpath.join(root, d) for d in case.get("missing_dirs", [])]
        app_root = os.path.join(os.path.dirname(os.path.abspath(django_components.__file__)), "components")
        roots = [d for d in comp_dirs if os.path.isdir(d)]
        if os.path.isdir(app_root):
            roots.append(app_root)

        allowed, forbidden = _effective(case)
        # ---- model: what is on disk below the component dirs, and what of it is exposed
        on_disk = {}  # abs path -> (root, rel, name, exposed)
        for R in roots:
            for rel in trees.walk_files(R):
                name = posixpath.basename(rel)
                on_disk[posixpath.join(R, rel)] = (R, rel, name, model_exposed(name, allowed, forbidden))
        # domain guard: regexes must be position independent on this tree
        for kind, v in allowed + forbidden:
            if kind != "r":
                continue
            for full, (R, rel, name, _) in on_disk.items():
                # (file name vs path relative to the component dir: the two readings of "its name ... matches a pattern" must
                # agree; the ABSOLUTE path - where the project happens to live - is no reading of it and may differ)
                if len({v.search(name) is not None, v.search(rel) is not None}) > 1:
                    if col is not None:
                        col.case(None, False, labels=("skipped_position_dependent_regex",))
                    return []
        expected = {p for p, t in on_disk.items() if t[3]}
        all_files = [posixpath.join(root, r) for r in trees.walk_files(root)] + [p for p in on_disk if not p.startswith(root + "/")]

        # ---- settings
        cur = dict(getattr(settings, "COMPONENTS", {}) or {})
        cur.update(dirs=configured, static_files_allowed=_setting_value(case["allowed"]), static_files_forbidden=None, forbidden_static_files=None)
        cur[case.get("forbidden_key", "static_files_forbidden")] = _setting_value(case["forbidden"])
        value = ComponentsSettings(**cur) if case.get("form") == "object" else cur

        def why(full):
            t = on_disk.get(full)
            if t is None:
                return "not a file below a component dir"
            d1 = _d1_like(t[2], allowed, forbidden)
            return "model exposed=%s%s" % (t[3], " [equals the unescaped-suffix reading]" if d1 is not None and d1 != t[3] else "")

        def tag(full):
            t = on_disk.get(full)
            if t is None:
                return ""
            d1 = _d1_like(t[2], allowed, forbidden)
            return "[unescaped-suffix]" if d1 is not None and d1 != t[3] else ""

        with override_settings(COMPONENTS=value, BASE_DIR=posixpath.join(root, "proj")):
            del djc_finders.searched_locations[:]
            finder, e = guarded(djc_finders.ComponentsFileSystemFinder)
            if e is not None:
                return [("constructing the finder raised %r" % (e,), "init-exc:" + exc_bucket(e))]

            # ---- list([])
            def do_list():
                return [os.path.normpath(os.path.join(str(storage.location), path)) for path, storage in finder.list([])]

            listed, e = guarded(do_list)
            if e is not None:
                fails.append(("list([]) raised %r (config %s)" % (e, _cfg_str(case)), "list-exc:" + type(e).__name__))
            else:
                cnt = Counter(listed)
                for p, n in sorted(cnt.items()):
                    if n > 1:
                        fails.append(("list([]) yields %s %d times" % (_short(p, root), n), "list-duplicate"))
                    if p not in expected:
                        fails.append(("list([]) exposes %s but %s (config %s)" % (_short(p, root), why(p), _cfg_str(case)), "list-extra" + tag(p)))
                    if not any(trees.is_under(p, R) for R in roots):
                        fails.append(("list([]) yields %s outside every component dir" % _short(p, root), "list-outside"))
                for p in sorted(expected - set(cnt)):
                    fails.append(("list([]) omits %s although %s (config %s)" % (_short(p, root), why(p), _cfg_str(case)), "list-missing" + tag(p)))
                if case["allowed"] is None and case["forbidden"] is None:
                    for p in listed:
                        if p.endswith(BACKEND_SUFFIXES):
                            fails.append(("default settings: list([]) exposes backend file %s" % _short(p, root), "default-backend"))

            # ---- find(p) / find(p, all=True)
            lookups = _lookups(root, roots, all_files, case.get("lookups", []))
            n_susp = n_found = n_strict = 0
            for p, cls in lookups.items():
                cands, susp = set(), False
                for R in dict.fromkeys(roots + configured):  # missing dirs are still locations of the finder
                    cand = posixpath.normpath(posixpath.join(R, p))
                    if cand == R or cand.startswith(R + "/"):
                        cands.add(cand)
                    else:
                        susp = True
                if any(os.path.isdir(c) for c in cands):
                    continue  # lookups naming a directory are outside the property ("every file")
                M = cands & expected
                n_strict += not susp
                for all_ in (False, True):
                    r, e = guarded(finder.find, p, all=all_)
                    what = "find(%r%s)" % (_short(p, root), ", all=True" if all_ else "")
                    if e is not None:
                        if isinstance(e, SuspiciousFileOperation) and susp:
                            n_susp += 1
                            continue
                        fails.append(("%s raised %r (config %s)" % (what, e, _cfg_str(case)), "find-exc:" + type(e).__name__))
                        continue
                    got = list(r) if isinstance(r, (list, tuple)) else ([r] if r else [])
                    if all_ and not isinstance(r, list):
                        fails.append(("%s returned %r, not a list" % (what, r), "find-type"))
                    got = [os.path.normpath(g) for g in got]
                    n_found += bool(got)
                    for g in got:
                        if not any(trees.is_under(g, R) for R in roots):
                            fails.append(("%s resolves to %s, outside every component dir" % (what, _short(g, root)), "find-outside"))
                        elif g not in M:
                            fails.append(("%s returned %s but %s (config %s)" % (what, _short(g, root), why(g) if g in cands else "the path does not denote it", _cfg_str(case)), "find-extra" + tag(g)))
                    if len(set(got)) != len(got):
                        fails.append(("%s returned duplicates %r" % (what, got), "find-duplicate"))
                    if not susp:
                        if all_:
                            for m in sorted(M - set(got)):
                                fails.append(("%s omits %s although %s (config %s)" % (what, _short(m, root), why(m), _cfg_str(case)), "find-missing" + tag(m)))
                        elif M and not got:
                            m = sorted(M)[0]
                            fails.append(("%s found nothing although %s: %s (config %s)" % (what, _short(m, root), why(m), _cfg_str(case)), "find-missing" + tag(m)))
                    if case["allowed"] is None and case["forbidden"] is None:
                        for g in got:
                            if g.endswith(BACKEND_SUFFIXES):
                                fails.append(("default settings: %s exposes backend file %s" % (what, _short(g, root)), "default-backend"))
                if len(fails) > 400:  # keep memory bounded; one message per bucket is reported below
                    seen_b = set()
                    fails[:] = [f for f in fails if not (f[1] in seen_b or seen_b.add(f[1]))]
            del djc_finders.searched_locations[:]

        # ---- classification
        if col is not None:
            entries = (_compile(case["allowed"]) if case["allowed"] else []) + (_compile(case["forbidden"]) if case["forbidden"] else [])
            special = any(_special_entry(e) for e in entries)
            own = [t for p, t in on_disk.items() if p.startswith(root + "/")]
            look = any(is_lookalike(t[2], e) for t in own for e in (entries or allowed + forbidden))
            nt = special and look
            labels += ["allowed_" + ("default" if case["allowed"] is None else "empty" if not case["allowed"] else "custom")]
            labels += ["forbidden_" + ("default" if case["forbidden"] is None else "empty" if not case["forbidden"] else "custom")]
            if case.get("forbidden_key") == "forbidden_static_files" and case["forbidden"] is not None:
                labels.append("forbidden_deprecated_name")
            if case.get("form") == "object":
                labels.append("settings_as_object")
            if any(k == "r" for k, _ in entries):
                labels.append("cfg_regex")
            if any(e[0] == "s" and e[1].count(".") > 1 for e in entries):
                labels.append("cfg_multidot_suffix")
            if any(e[0] == "s" and _special_entry((e[0], e[1])) and e[1].count(".") <= 1 for e in entries):
                labels.append("cfg_metachar_suffix")
            if look:
                labels.append("tree_lookalike")
            if len(comp_dirs) > 1:
                labels.append("two_component_dirs")
            if case.get("missing_dirs"):
                labels.append("configured_missing_dir")
            if any(not p.startswith(tuple(R + "/" for R in roots)) for p in all_files):
                labels.append("tree_outside_files")
            labels.append("exposed_some" if any(t[3] for t in own) else "exposed_none")
            if any(t[3] for t in own) and any(not t[3] for t in own):
                labels.append("exposed_mixed")
            if n_susp:
                labels.append("traversal_rejected")
            col.count("lookups_total", 2 * len(lookups))
            col.count("lookups_suspicious_raised", n_susp)
            col.count("lookups_found", n_found)
            col.count("lookups_exact_expectation", 2 * n_strict)
            col.count("files_checked", len(on_disk))
            key = jhash([case["allowed"], case["forbidden"], case.get("forbidden_key"), sorted(case["files"]), case["dirs"]])
            col.case(key, nt, sample=_sample(case) if nt else None, labels=tuple(labels))
    # one message per bucket is enough
    seen, out = set(), []
    for m, b in fails:
        if b not in seen:
            seen.add(b)
            out.append((m, b))
    return out


def _short(p, root):
    return p.replace(root, "{CASE}") if isinstance(p, str) else p


def _cfg_str(case):
    def f(x):
        return "default" if x is None else "[" + ", ".join(("%r" % e[1]) if e[0] == "s" else "re(%r%s)" % (e[1], ", re.I" if len(e) > 2 else "") for e in x) + "]"

    return "allowed=%s %s=%s" % (f(case["allowed"]), case.get("forbidden_key", "static_files_forbidden"), f(case["forbidden"]))


def _sample(case):
    return {"dirs": case["dirs"], "config": _cfg_str(case), "files": case["files"][:12], "lookups": case.get("lookups", [])[:3]}


# ---------------------------------------------------------------------------
# generator


def case_strategy(max_files):
    from hypothesis import strategies as st

    suffix = st.one_of(st.sampled_from(PLAIN_SUFFIXES), st.sampled_from(MULTIDOT_SUFFIXES), st.sampled_from(META_SUFFIXES))
    # flagged regexes share their pattern *source* with unflagged ones and with the regex a plain suffix is turned into
    flagged = st.sampled_from(FLAG_SENSITIVE).flatmap(lambda r: st.sampled_from([["r", r, "I"], ["r", r, "I"], ["r", r]]))
    entry = st.one_of(suffix.map(lambda s: ["s", s]), suffix.map(lambda s: ["s", s]), st.sampled_from(REGEXES).map(lambda r: ["r", r]), flagged)
    custom = st.lists(entry, min_size=1, max_size=3)
    # weights: default 3/12, empty 1/12, custom 8/12
    entries = st.integers(0, 11).flatmap(lambda k: st.none() if k < 3 else st.just([]) if k < 4 else custom)

    def derived_exts(cfg_entries):
        out = []
        for e_ in cfg_entries:
            k, v = e_[0], e_[1]
            if k != "s":
                continue
            out += [v, v.upper(), v.lower(), v + "x", v + "~", v[1:], "X" + v[1:], "." + v[1:].replace(".", "X"), v[:-1], v + ".py", ".py" + v]
            out += NEAR.get(v, [])
        return [e for e in dict.fromkeys(out) if "/" not in e]

    @st.composite
    def build(draw):
        allowed = draw(entries)
        forbidden = draw(entries)
        cfg_entries = (allowed or []) + (forbidden or [])
        if allowed is None:
            cfg_entries = cfg_entries + [["s", ".js"], ["s", ".css"]]
        if forbidden is None:
            cfg_entries = cfg_entries + [["s", ".py"], ["s", ".html"]]
        dirs = draw(st.lists(st.sampled_from(COMP_DIRS), min_size=1, max_size=2, unique=True))
        missing = draw(st.sampled_from([[], [], [], ["proj/nonexistent"]]))
        exts = st.sampled_from(EXTS)
        d = derived_exts(cfg_entries)
        if d:
            exts = st.one_of(exts, st.sampled_from(d), st.sampled_from(d))
        name = st.builds(lambda s, e: s + e, st.sampled_from(STEMS), exts).filter(lambda n: n not in (".", "..") and n != "")
        inside = st.builds(lambda b, s, n: "/".join(x for x in (b, s, n) if x), st.sampled_from(dirs), st.sampled_from(SUBDIRS), name)
        outside = st.builds(lambda b, n: "/".join(x for x in (b, n) if x), st.sampled_from(OUTSIDE_BASES), name)
        files = draw(st.lists(inside, min_size=3, max_size=max_files - 4, unique=True))
        files += [f for f in draw(st.lists(outside, min_size=0, max_size=4, unique=True)) if f not in files]
        soup = st.lists(st.sampled_from(SOUP), min_size=1, max_size=5).map("/".join)
        lookups = draw(st.lists(st.one_of(soup, soup.map(lambda s: "{CASE}/proj/" + s)), max_size=4))
        return {
            "dirs": dirs,
            "missing_dirs": missing,
            "files": files,
            "allowed": allowed,
            "forbidden": forbidden,
            "forbidden_key": draw(st.sampled_from(["static_files_forbidden", "static_files_forbidden", "forbidden_static_files"])),
            "form": draw(st.sampled_from(["dict", "dict", "object"])),
            "lookups": lookups,
        }

    return build()


# ---------------------------------------------------------------------------


# coverage-guided stage (atheris drives these Hypothesis shards, see vf/run.py): {tier: {shard kind: (shards, executions)}}
CG = {'thorough': {'hyp': (6, 6000)}}


def plan(tier, seed, scale=1.0):
    b = BOUNDS[tier]
    n = max(b["shards"], int(b["cases"] * scale))
    return [{"kind": "hyp", "n": n // b["shards"], "max_files": b["max_files"], "seed": derive_seed(seed, "c17", sh)} for sh in range(b["shards"])]


def run_shard(spec):
    col = Collector()

    def check(case):
        return run_case(case, col)

    return hyp_search(case_strategy(spec["max_files"]), check, col, max_examples=spec["n"], seed=spec["seed"], attribute=attribute)


def replay(case):
    return run_case(case, None)


def attribute(case, message, bucket):
    return None  # no known findings are pinned for C17 (D1 is repaired, see notes/C17.md)
