"""C09 — template lexer partitions the source exactly, with right positions and lines.

Code under test: django_components.util.template_parser.parse_template (directly, and as the token source of the
monkeypatched Template.compile_nodelist).

Oracle for the token list of a source `src`:
  (1) spans are contiguous from 0 to len(src), none empty;
  (2) contents == span without the two-character delimiters, stripped (TEXT: the span itself), delimiters fit the type;
  (3) lineno == 1 + src.count("\n", 0, start);
  (4) (type, contents, span) stream == stock django.template.base.DebugLexer when no block tag holds a quote
      character, otherwise == `model_lex(src)`: an independent scanner written from the property text, in which a
      `%}` inside a quoted string of a block tag does not end the tag; verbatim handling as in stock Django;
  (5) TemplateSyntaxError is the only exception, and only where the model finds an unterminated quoted string /
      no `%}` outside quotes in a quoted block tag.
End to end: a well-formed template with one unknown tag must report that tag, on the right line, both in the
message (token.lineno) and in template_debug (token.position).

Generators: Hypothesis source grammar (vf/gen/srcgrammar.py); exhaustive strings over a 14-token syntax alphabet
and over a 13-element alphabet of whole constructs; atheris (thorough tier, optional).
"""
import itertools
import os
import re
import subprocess
import sys

from vf import env
from vf.core import Collector, derive_seed, exc_bucket, hyp_search, jhash, known_active

PROP = "C09"
LEVEL = "exploration"
RULE = (
    "Sources: (a) Hypothesis grammar of text runs, {{ }}, {# #}, {% %} tags with 0..4 arguments (quoted strings of both "
    "kinds with escapes, embedded %} / }} / {% / newlines, key=\"..\", filter args, bare %), newline padding inside tags, "
    "plain/named/quoted-name verbatim blocks with look-alike end tags, unterminated constructs and random token soup, "
    "fed to parse_template directly or through Template(src) (tokens captured at the Parser); (b) every string over the "
    "14-token alphabet MICRO up to the length bound and every sequence over the 13 whole constructs of MACRO up to its "
    "bound; (c) well-formed templates with one unknown tag compiled by a debug engine (reported tag and line); "
    "(d) thorough only: atheris with the same oracle inside the target. "
    "Non-trivial = the model token stream has >= 2 block tags containing a quote, or a quoted block tag after a tag that "
    "spans a newline, or a quoted block tag that itself spans a newline and is followed by a token, or a kept `%}` inside "
    "a quoted string (model stream != stock stream), or a verbatim block whose opening tag contains a quote; "
    "distinct by source string (and, for (c), by the part list)."
)
ASSUMPTIONS = [
    "COMPONENTS.multiline_tags keeps its default True: django.template.base.tag_re is recompiled with re.DOTALL, for the stock lexer as well",
    "a quoted string starts at ' or \" outside a string and ends at the next same quote character not preceded by an escaping backslash; a backslash escapes only inside a string",
    "a block tag that contains a quote and has an unterminated string, or no `%}` outside its strings, must raise TemplateSyntaxError (tests/docs of the repo pin the wording 'Unexpected end of text')",
    "verbatim start/end recognition is stock Django's (contents[:9] in ('verbatim','verbatim ') / contents == 'end'+opening contents); inside a verbatim body the segmentation is stock's (no block tags there)",
    "sources whose verbatim opening tag holds a `%}` inside its quoted name are only checked for clauses (1)-(3): the property does not say whether the end tag of such a block is recognisable",
]
BOUNDS = {
    "quick": {"hyp_examples": 20000, "micro_len": 5, "macro_len": 4, "e2e_examples": 1600, "atheris_runs": 0},
    "thorough": {"hyp_examples": 400000, "micro_len": 6, "macro_len": 5, "e2e_examples": 24000, "atheris_runs": 2000000},
}

MICRO = ["{%", "%}", "{{", "}}", "{#", "#}", '"', "'", "\n", " x", "verbatim ", "endverbatim ", "\\", "%"]
MACRO = [
    '{% t "q" %}',
    "{% m\n'q'\n%}",
    '{% c "a%}b" %}',
    "{% p %}",
    "{{ v }}",
    "\n",
    "{% verbatim %}",
    '{% verbatim "n" %}',
    "{% endverbatim %}",
    '{% endverbatim "n" %}',
    "{% u 5% 'q' %}",
    "{# c\n#}",
    "{% it's",
]

QUOTES = ("'", '"')


# ---------------------------------------------------------------------------
# reference model (written from the property statement, shares nothing with template_parser.py)

_TAG = re.compile(r"\{%.*?%\}|\{\{.*?\}\}|\{#.*?#\}", re.S)
_KIND = {"{%": "BLOCK", "{{": "VAR", "{#": "COMMENT"}


def quote_aware_end(src, i):
    """`i` is just past a `{%`. Index just past the first `%}` outside quoted strings, or None when a string
    or the tag never ends."""
    n = len(src)
    while i < n:
        c = src[i]
        if c in QUOTES:
            j = i + 1
            while j < n and src[j] != c:
                j += 2 if src[j] == "\\" else 1
            if j >= n:
                return None
            i = j + 1
        elif c == "%" and src.startswith("%}", i):
            return i + 2
        else:
            i += 1
    return None


def model_lex(src):
    """-> (tokens | None, info). tokens: list of (type, contents, start, end); None = TemplateSyntaxError expected."""
    out = []
    info = {"quoted": 0, "ambiguous": False, "verbatim": set(), "in_verbatim": set()}
    pos, verb = 0, False
    while True:
        m = _TAG.search(src, pos)
        if m is None:
            break
        s, e = m.span()
        kind = _KIND[src[s : s + 2]]
        if kind == "BLOCK" and not verb:
            inner = src[s + 2 : e - 2]
            if "'" in inner or '"' in inner:
                e = quote_aware_end(src, s + 2)
                if e is None:
                    return None, info
        if s > pos:
            if verb:
                info["in_verbatim"].add(len(out))
            out.append(("TEXT", src[pos:s], pos, s))
        contents = src[s + 2 : e - 2].strip()
        was_verb = verb
        if kind == "BLOCK":
            if verb:
                if contents == verb:
                    verb = False
                else:
                    kind = "TEXT"
            elif contents[:9] in ("verbatim", "verbatim "):
                verb = "end" + contents
                quoted_name = "'" in contents or '"' in contents
                info["verbatim"].add("quoted" if quoted_name else ("named" if contents != "verbatim" else "plain"))
                if quoted_name:
                    info["quoted_verbatim_at"] = len(out)
                if "%}" in contents:
                    info["ambiguous"] = True
        elif verb:
            kind = "TEXT"
        if kind == "TEXT":
            contents = src[s:e]
            if was_verb:
                info["in_verbatim"].add(len(out))
        elif kind == "BLOCK" and ("'" in contents or '"' in contents):
            info["quoted"] += 1
        out.append((kind, contents, s, e))
        pos = e
    if pos < len(src):
        if verb:
            info["in_verbatim"].add(len(out))
        out.append(("TEXT", src[pos:], pos, len(src)))
    return out, info


class HarnessBug(RuntimeError):
    pass


def stock_lex(src):
    from django.template.base import DebugLexer

    return [(t.token_type.name, t.contents, t.position[0], t.position[1]) for t in DebugLexer(src).tokenize()]


def analyse(src):
    """Expected outcome and classification of a source (model + stock; never touches the code under test)."""
    stock = stock_lex(src)
    model, info = model_lex(src)
    stock_quoted = [i for i, t in enumerate(stock) if t[0] == "BLOCK" and ("'" in t[1] or '"' in t[1])]
    # self-check of the model against the trusted base: up to the first quoted block tag both must agree
    if not stock_quoted:
        if model != stock:
            raise HarnessBug("model != stock lexer on a source without quoted block tags: %r\n model %r\n stock %r" % (src, model, stock))
    else:
        k = stock_quoted[0]
        if model is not None and model[:k] != stock[:k]:
            raise HarnessBug("model prefix != stock prefix before the first quoted block tag: %r" % (src,))
    labels = []
    nontrivial = False
    if model is None:
        labels.append("expect_tse")
    else:
        nq = info["quoted"]
        labels.append("quoted_tags=%s" % (nq if nq < 2 else "2+"))
        kept = model != stock
        if kept:
            labels.append("kept_close_in_quote" if not info["verbatim"] else "kept_close_or_verbatim_resegmented")
        else:
            labels.append("equals_stock")
        for v in sorted(info["verbatim"]):
            labels.append("verbatim_" + v)
        if info["ambiguous"]:
            labels.append("ambiguous_verbatim_name")
        multiline_before = False
        ml_then_more = False
        q_after_ml = False
        for i, (tt, c, s, e) in enumerate(model):
            isq = tt == "BLOCK" and ("'" in c or '"' in c)
            spans_nl = tt != "TEXT" and "\n" in src[s:e]
            if isq and multiline_before:
                q_after_ml = True
            if isq and spans_nl and i + 1 < len(model):
                ml_then_more = True
            if spans_nl:
                multiline_before = True
        if multiline_before:
            labels.append("multiline_tag")
        if any(tt == "TEXT" and i not in info["in_verbatim"] and ("{%" in c or "{{" in c or "{#" in c) for i, (tt, c, s, e) in enumerate(model)):
            labels.append("unterminated_opener_as_text")
        if any(tt == "BLOCK" and "\\" in c and ("'" in c or '"' in c) for tt, c, s, e in model):
            labels.append("backslash_in_quoted_tag")
        qv_body = "quoted_verbatim_at" in info and info["quoted_verbatim_at"] + 1 < len(model)
        nontrivial = (not info["ambiguous"]) and (nq >= 2 or q_after_ml or ml_then_more or kept or qv_body)
    return {"stock": stock, "model": model, "info": info, "labels": labels, "nontrivial": nontrivial, "stock_quoted": bool(stock_quoted)}


# ---------------------------------------------------------------------------
# code under test


def _tok(t):
    pos = t.position
    return (t.token_type.name, t.contents, pos[0] if pos else None, pos[1] if pos else None, t.lineno)


def impl_tokens(src, via="direct"):
    """-> ("tokens", [(type, contents, start, end, lineno)]) or ("exc", exception)."""
    from django_components.util.template_parser import parse_template

    try:
        if via == "direct":
            return "tokens", [_tok(t) for t in parse_template(src)]
        return "tokens", [_tok(t) for t in _tokens_via_template(src)]
    except Exception as e:  # noqa - classified by the oracle, never swallowed
        return "exc", e


def _tokens_via_template(src):
    """Tokens the patched Template.compile_nodelist hands to the Parser."""
    from django.template import NodeList, Template

    import django_components.util.django_monkeypatch as mp

    box = {}

    class CapturingParser:
        def __init__(self, tokens, *a, **k):
            box["tokens"] = list(tokens)

        def parse(self):
            return NodeList()

    if not getattr(Template, "_djc_patched", False):
        raise HarnessBug("django.template.Template is not patched by django_components")
    orig = mp.Parser
    mp.Parser = CapturingParser
    try:
        Template(src, engine=_engine(False))
    finally:
        mp.Parser = orig
    if "tokens" not in box:
        raise HarnessBug("Template() did not reach the Parser")
    return box["tokens"]


_engines = {}


def _engine(debug):
    from django.template import Engine

    if debug not in _engines:
        _engines[debug] = Engine(debug=debug, builtins=["vf.vf_tags"])
    return _engines[debug]


# ---------------------------------------------------------------------------
# oracle

_DELIMS = {"BLOCK": ("{%", "%}"), "VAR": ("{{", "}}"), "COMMENT": ("{#", "#}")}


def judge(src, outcome, ana):
    """-> list[(message, bucket)]: every violated clause, one bucket per clause / root-cause class."""
    from django.template.exceptions import TemplateSyntaxError

    fails = []
    kind, val = outcome
    model, info = ana["model"], ana["info"]
    qverb = "quoted" in info["verbatim"]
    if kind == "exc":
        if not isinstance(val, TemplateSyntaxError):
            return [("source %r: raised %r (only TemplateSyntaxError is allowed)" % (src, val), "exc:" + exc_bucket(val))]
        if model is None:
            return []
        what = "tag" if "{% tag" in str(val) else "string"
        exp = "stock lexer" if not ana["stock_quoted"] else "model"
        return [
            (
                "source %r: TemplateSyntaxError(%s) although every quoted string and tag is terminated; %s expects %r" % (src, val, exp, model),
                "unexpected-tse:%s%s" % (what, ":quoted-verbatim" if qverb else ""),
            )
        ]
    toks = val
    n = len(src)
    # (1) partition
    prev = 0
    for i, (tt, c, s, e, ln) in enumerate(toks):
        if s is None or s != prev or e <= s or e > n:
            fails.append(("source %r: token #%d %r has span (%r, %r), expected it to start at %d, be non-empty and end <= %d" % (src, i, (tt, c), s, e, prev, n), "partition"))
            break
        prev = e
    else:
        if prev != n:
            fails.append(("source %r: tokens end at %d, source has %d characters" % (src, prev, n), "partition"))
    if not fails:
        # (2) contents, (3) lineno - only meaningful on a proper partition
        for i, (tt, c, s, e, ln) in enumerate(toks):
            span = src[s:e]
            if tt == "TEXT":
                want = span
            else:
                a, b = _DELIMS[tt]
                if not (len(span) >= 4 and span.startswith(a) and span.endswith(b)):
                    fails.append(("source %r: %s token #%d spans %r which is not %s...%s" % (src, tt, i, span, a, b), "contents-delims"))
                    break
                want = span[2:-2].strip()
            if c != want:
                fails.append(("source %r: %s token #%d contents %r != span without delimiters, stripped %r" % (src, tt, i, c, want), "contents"))
                break
        for i, (tt, c, s, e, ln) in enumerate(toks):
            want = 1 + src.count("\n", 0, s)
            if ln != want:
                fails.append(("source %r: token #%d %r at offset %d has lineno %r, expected %d (1 + newlines before its start)" % (src, i, (tt, c[:40]), s, ln, want), "lineno"))
                break
    # (4)/(5) differential
    if model is None:
        fails.append(("source %r: a quoted block tag has an unterminated string / no closing %%} outside strings, expected TemplateSyntaxError, got %r" % (src, toks), "missing-tse"))
    elif not info["ambiguous"]:
        got = [t[:4] for t in toks]
        if got != model:
            i = next((k for k, (a, b) in enumerate(zip(got, model)) if a != b), min(len(got), len(model)))
            g = got[i] if i < len(got) else None
            m = model[i] if i < len(model) else None
            if i in info["in_verbatim"]:
                bucket = "diff:in-verbatim-body"
            else:
                bucket = "diff:%s->%s" % (m[0] if m else "END", g[0] if g else "END")
            ref = "stock DebugLexer" if not ana["stock_quoted"] else "model (stock stream, %} inside quoted strings kept)"
            fails.append(("source %r: token #%d is %r, %s has %r\n got      %r\n expected %r" % (src, i, g, ref, m, got, model), bucket))
    return fails


def check_source(src, via="direct"):
    """-> (fails, ana)"""
    ana = analyse(src)
    return judge(src, impl_tokens(src, via), ana), ana


# ---------------------------------------------------------------------------
# end to end: the unknown tag of a well-formed template is reported on its line

BAD = "{% c09bad %}"


def check_e2e(parts, bad_at):
    from django.template import Template
    from django.template.exceptions import TemplateSyntaxError

    bad_at = max(0, min(bad_at, len(parts)))
    head = "".join(p[1] for p in parts[:bad_at])
    src = head + BAD + "".join(p[1] for p in parts[bad_at:])
    line = 1 + head.count("\n")
    try:
        Template(src, engine=_engine(True))
    except TemplateSyntaxError as e:
        msg = str(e)
        dbg = getattr(e, "template_debug", None)
        fails = []
        m = re.match(r"Invalid block tag on line (\d+): '([^']*)'", msg)
        if not m or m.group(2) != "c09bad":
            return [("template %r: expected \"Invalid block tag ... 'c09bad'\", got %r" % (src, msg), "e2e-wrong-tag")]
        if int(m.group(1)) != line:
            fails.append(("template %r: unknown tag starts on line %d, message says %r" % (src, line, msg), "e2e-line"))
        if not dbg or dbg.get("during") != BAD or dbg.get("line") != line:
            fails.append(("template %r: template_debug line/during = %r/%r, expected %d/%r" % (src, dbg and dbg.get("line"), dbg and dbg.get("during"), line, BAD), "e2e-debug-position"))
        return fails
    except Exception as e:  # noqa
        return [("template %r: raised %r" % (src, e), "e2e-exc:" + exc_bucket(e))]
    return [("template %r compiled although it holds the unknown tag c09bad" % (src,), "e2e-no-error")]


def _e2e_class(parts, bad_at):
    head = parts[:bad_at]
    q = [p for p in head if p[0] == "echo" and ("'" in p[1] or '"' in p[1])]
    qv = [p for p in head if p[0] == "verbatim" and ("'" in p[1].split("%}")[0] or '"' in p[1].split("%}")[0])]
    ml = [p for p in head if p[0] != "text" and "\n" in p[1]]
    return q, qv, ml


# ---------------------------------------------------------------------------
# known-finding predicates (active only for ids listed in /verif/known_findings.json)


def _bare_percent_in_quoted_tag(src):
    """A block tag (model view) that contains a quote and, outside its strings, a `%` not followed by `}`."""
    model, _ = model_lex(src)
    stock = stock_lex(src)
    spans = [(s, e) for tt, c, s, e in (model or stock) if tt == "BLOCK" and ("'" in c or '"' in c)]
    if model is None:
        spans = [(s, len(src)) for tt, c, s, e in stock if tt == "BLOCK" and ("'" in c or '"' in c)][:1]
    for s, e in spans:
        i, q = s + 2, None
        while i < e:
            ch = src[i]
            if q:
                if ch == "\\":
                    i += 1
                elif ch == q:
                    q = None
            elif ch in QUOTES:
                q = ch
            elif ch == "%" and not src.startswith("%}", i):
                return True
            i += 1
    return False


def attribute(case, message, bucket):
    active = known_active(PROP)
    if not active:
        return None
    if isinstance(case, dict) and "__regress__" in case:
        case = case["case"]
    if case.get("part") == "e2e":
        q, qv, ml = _e2e_class(case["parts"], case["bad_at"])
        if "C09-D1" in active and bucket == "e2e-line" and (qv or len(q) >= 2 or any("\n" in p[1] for p in q)):  # a quoted-name verbatim block = 2 quoted tags
            return "C09-D1"
        if "C09-D2" in active and bucket.startswith("e2e-") and qv:
            return "C09-D2"
        return None
    src = case["src"]
    model, info = model_lex(src)
    if "C09-D1" in active and bucket == "lineno" and model is not None:
        qspans = [src[s:e] for tt, c, s, e in model if tt == "BLOCK" and ("'" in c or '"' in c)]
        if len(qspans) >= 2 or any("\n" in sp for sp in qspans):
            return "C09-D1"
    symptom = bucket.startswith("diff:") or bucket.startswith("unexpected-tse") or bucket in ("lineno", "missing-tse")
    if "C09-D2" in active and symptom and "quoted" in info["verbatim"]:
        return "C09-D2"
    if "C09-D3" in active and symptom and _bare_percent_in_quoted_tag(src):
        return "C09-D3"
    return None


# ---------------------------------------------------------------------------
# plan / shards


# coverage-guided stage (atheris drives these Hypothesis shards, see vf/run.py): {tier: {shard kind: (shards, executions)}}
CG = {'thorough': {'hyp': (4, 20000)}}


def plan(tier, seed, scale=1.0):
    b = BOUNDS[tier]
    specs = []
    for first in range(len(MICRO)):
        specs.append({"kind": "enum", "alphabet": "MICRO", "first": first, "maxlen": b["micro_len"]})
    nh = max(16, int(b["hyp_examples"] * scale))
    for sh in range(16):
        specs.append({"kind": "hyp", "n": nh // 16, "seed": derive_seed(seed, "hyp", sh), "max_parts": 6 if sh % 2 else 10})
    for first in range(len(MACRO)):
        specs.append({"kind": "enum", "alphabet": "MACRO", "first": first, "maxlen": b["macro_len"]})
    ne = max(4, int(b["e2e_examples"] * scale))
    for sh in range(4):
        specs.append({"kind": "e2e", "n": ne // 4, "seed": derive_seed(seed, "e2e", sh)})
    if b["atheris_runs"]:
        na = max(16, int(b["atheris_runs"] * scale))
        for sh in range(16):
            specs.append({"kind": "atheris", "runs": na // 16, "seed": derive_seed(seed, "atheris", sh) % (2**31 - 1) + 1})
    return specs


def _health(col):
    import django.template.base as base

    if not base.tag_re.flags & re.DOTALL:
        col.error("django.template.base.tag_re is not DOTALL: COMPONENTS.multiline_tags default not in effect")
        return False
    return True


MINIMISE_BUDGET = 4000


def _collect_search(strategy, raw_check, col, n, seed, minimise):
    """collect-then-shrink: Hypothesis only generates; every failing clause is recorded under its bucket (smallest
    case seen), the search goes on, and afterwards one witness per bucket is minimised by deterministic delta
    debugging *within that bucket* - so one defect can neither hide nor absorb another."""
    best = {}

    def check(case):
        for message, bucket in raw_check(case):
            fid = attribute(case, message, bucket)
            if fid:
                col.fail(case, message, bucket, finding=fid)
                continue
            col.count("failing:" + bucket)
            size = len(case["src"]) if "src" in case else sum(len(p[1]) for p in case["parts"])
            if bucket not in best or size < best[bucket][0]:
                best[bucket] = (size, case, message)
        return []

    hyp_search(strategy, check, col, max_examples=n, seed=seed, shrink=False)
    for bucket in sorted(best):
        _, case, message = best[bucket]
        case, message = minimise(case, bucket, message)
        col.fail(case, message, bucket)
    return col


def _same_bucket(fails, case, bucket):
    for m, b in fails:
        if b == bucket and not attribute(case, m, b):
            return m
    return None


def minimise_src(case, bucket, message):
    """Greedy chunk deletion on the source string (any string is in the domain), keeping the failure in `bucket`."""
    src, via = case["src"], case.get("via", "direct")
    budget = [MINIMISE_BUDGET]

    def fails(s):
        if budget[0] <= 0:
            return None
        budget[0] -= 1
        c = {"part": "src", "src": s, "via": via}
        return _same_bucket(check_source(s, via)[0], c, bucket)

    n = max(1, len(src) // 2)
    while True:
        i, changed = 0, False
        while i < len(src):
            cand = src[:i] + src[i + n :]
            m = fails(cand)
            if m:
                src, message, changed = cand, m, True
            else:
                i += n
        if n > 1:
            n //= 2
        elif not changed:
            break
    return {"part": "src", "src": src, "via": via}, message


def minimise_e2e(case, bucket, message):
    """Drop whole parts only: every sub-list of well-formed parts is still a well-formed template."""
    parts, bad_at = [list(p) for p in case["parts"]], min(case["bad_at"], len(case["parts"]))
    i = 0
    while i < len(parts):
        cand = parts[:i] + parts[i + 1 :]
        cb = bad_at - 1 if i < bad_at else bad_at
        c = {"part": "e2e", "parts": cand, "bad_at": cb}
        m = _same_bucket(check_e2e(cand, cb), c, bucket)
        if m:
            parts, bad_at, message = cand, cb, m
        else:
            i += 1
    return {"part": "e2e", "parts": parts, "bad_at": bad_at}, message


def run_shard(spec):
    from hypothesis import strategies as st

    col = Collector()
    if not _health(col):
        return col
    kind = spec["kind"]

    if kind == "enum":
        alpha = {"MICRO": MICRO, "MACRO": MACRO}[spec["alphabet"]]
        first, maxlen = spec["first"], spec["maxlen"]
        lab = "enum_" + spec["alphabet"].lower()
        per_bucket = {}

        def one(src):
            fails, ana = check_source(src)
            case = {"part": "src", "src": src, "via": "direct"}
            nt = ana["nontrivial"]
            col.case(jhash(src) if nt else None, nt, sample=case if nt else None, labels=[lab] + ana["labels"])
            for m, bk in fails:
                fid = attribute(case, m, bk)
                if fid:
                    col.fail(case, m, bk, finding=fid)
                    continue
                col.count("failing:" + bk)
                if per_bucket.get(bk, 0) < 1:  # enumeration is by increasing length: the first one is a shortest one
                    per_bucket[bk] = per_bucket.get(bk, 0) + 1
                    col.fail(case, m, bk)

        if first == 0:
            one("")
        for ln in range(1, maxlen + 1):
            for rest in itertools.product(alpha, repeat=ln - 1):
                one(alpha[first] + "".join(rest))
        col.exhaustive = True
        return col

    if kind == "hyp":
        from vf.gen import srcgrammar

        strat = st.fixed_dictionaries({"part": st.just("src"), "src": srcgrammar.sources(spec.get("max_parts", 9)), "via": st.sampled_from(["direct", "direct", "template"])})

        def raw(case):
            fails, ana = check_source(case["src"], case["via"])
            nt = ana["nontrivial"]
            col.case(jhash(case["src"]) if nt else None, nt, sample=case if nt else None, labels=["hyp", "via_" + case["via"]] + ana["labels"])
            return fails

        return _collect_search(strat, raw, col, spec["n"], spec["seed"], minimise_src)

    if kind == "e2e":
        from vf.gen import srcgrammar

        strat = st.fixed_dictionaries({"part": st.just("e2e"), "parts": srcgrammar.wellformed_parts(), "bad_at": st.integers(0, 8)})

        def raw(case):
            parts, bad_at = case["parts"], min(case["bad_at"], len(case["parts"]))
            fails = check_e2e(parts, bad_at)
            q, qv, ml = _e2e_class(parts, bad_at)
            nt = len(q) + len(qv) >= 2 or (q and ml) or bool(qv)
            labels = ["e2e", "e2e_quoted_before=%s" % min(len(q), 2)]
            if qv:
                labels.append("e2e_quoted_verbatim_before")
            if ml:
                labels.append("e2e_multiline_before")
            col.case(("e2e", parts, bad_at) if nt else None, bool(nt), sample=case if nt else None, labels=labels)
            return fails

        return _collect_search(strat, raw, col, spec["n"], spec["seed"], minimise_e2e)

    if kind == "atheris":
        return _run_atheris(spec, col)
    raise ValueError(kind)


def replay(case):
    if case.get("part") == "e2e":
        return check_e2e(case["parts"], min(case["bad_at"], len(case["parts"])))
    return check_source(case["src"], case.get("via", "direct"))[0]


# ---------------------------------------------------------------------------
# atheris stage (thorough tier): the fuzz target /verif/fuzz/c09_atheris.py runs this module's oracle per input

HERE = os.path.dirname(os.path.dirname(os.path.dirname(os.path.abspath(__file__))))
FUZZ_TARGET = os.path.join(HERE, "fuzz", "c09_atheris.py")
DEPS = os.path.join(HERE, ".deps")


def fuzz_bytes_to_src(data):
    return data.decode("latin-1")


def _run_atheris(spec, col):
    if not os.path.exists(FUZZ_TARGET):
        col.notes.append("atheris stage skipped: %s missing" % FUZZ_TARGET)
        return col
    probe = subprocess.run([sys.executable, "-c", "import sys; sys.path.insert(0, %r); import atheris" % DEPS], capture_output=True, text=True)
    if probe.returncode != 0:
        col.notes.append("atheris stage skipped: atheris does not import (%s)" % (probe.stderr.strip().splitlines() or ["?"])[-1][:200])
        return col
    work = os.path.join(env.scratch_base(), "c09_atheris_%d_%d" % (os.getpid(), spec["seed"]))
    os.makedirs(os.path.join(work, "corpus"), exist_ok=True)
    with open(os.path.join(work, "dict"), "w") as f:
        for t in MICRO + ["verbatim", "endverbatim", '"x"', "{% a ", " %}", "\\\"", "\\'"]:
            f.write('"%s"\n' % "".join("\\x%02x" % b for b in t.encode("latin-1")))
    for i, s in enumerate(MACRO + ['{% verbatim "n" %}{{ v }}{% endverbatim "n" %}', "{% a 'b\\' %}' %}\n{% c \"d\" %}\n{{ e }}"]):
        with open(os.path.join(work, "corpus", "seed%02d" % i), "wb") as f:
            f.write(s.encode("latin-1"))
    muted, left, rounds = [], spec["runs"], 0
    while left > 0 and rounds < 6:
        rounds += 1
        stats = os.path.join(work, "stats%d" % rounds)
        cmd = [sys.executable, FUZZ_TARGET, "-runs=%d" % left, "-seed=%d" % spec["seed"], "-max_len=64", "-len_control=0", "-timeout=20", "-print_final_stats=1", "-dict=" + os.path.join(work, "dict"), "-artifact_prefix=" + os.path.join(work, "r%d-" % rounds), os.path.join(work, "corpus")]
        e = dict(os.environ, C09_MUTE="\n".join(muted), C09_STATS=stats, PYTHONHASHSEED="0", VF_SCRATCH=env.scratch_base())
        r = subprocess.run(cmd, capture_output=True, text=True, env=e, cwd=HERE, errors="replace")
        m = re.search(r"stat::number_of_executed_units:\s*(\d+)", r.stderr)
        done = int(m.group(1)) if m else 0
        if os.path.exists(stats):
            with open(stats) as f:
                for line in f:
                    line = line.strip()
                    if len(line) == 16:
                        col.nontrivial.add(line)
        col.evaluations += done
        col.count("atheris_execs", done)
        left -= max(done, 1)
        arts = [p for p in os.listdir(work) if p.startswith("r%d-" % rounds)]
        if not arts:
            if r.returncode != 0 and not m:
                col.error("atheris target failed (rc %d): %s" % (r.returncode, r.stderr[-1500:]))
            break
        for a in sorted(arts):
            with open(os.path.join(work, a), "rb") as f:
                src = fuzz_bytes_to_src(f.read())
            case = {"part": "src", "src": src, "via": "direct"}
            fails = replay(case)
            if not fails and not a.startswith("r%d-crash" % rounds):
                col.notes.append("atheris artifact %s (timeout/oom) not reproduced by the oracle" % a)
            new = False
            for msg, bk in fails:
                fid = attribute(case, msg, bk)
                if fid:
                    col.fail(case, msg, bk, finding=fid)
                elif bk not in muted:
                    small, smsg = minimise_src(case, bk, msg)
                    col.fail(small, "[atheris] " + smsg, bk)
                    muted.append(bk)
                    new = True
            if not new and not fails:
                col.error("atheris crash artifact %s does not fail the oracle on replay: %s" % (a, r.stderr[-800:]))
                left = 0
    col.notes.append("atheris: coverage-guided stage ran (%d exec in this shard, %d round(s))" % (col.counters["atheris_execs"], rounds))
    return col
