"""C13 — `html_attrs` and Python-passed slot content emit exactly the data given, escaped.

Three sub-checks, each with its own generator, labels and failure buckets:

(A) part "attrs":  {% html_attrs %} with attrs/defaults given positionally / as kwargs / as aggregate
    `attrs:k=v` / as dict literal / inside a spread / through a component's aggregate kwargs, plus extra
    keywords (direct, literal, spread, repeated).  Oracle = independent merge model + html.parser round trip.
(B) part "slot":   Component.render(slots={name: content}) for str / SafeString / function / Slot contents,
    re-passed through 0-3 wrapper levels, x escape_slots_content.  Oracle = django.utils.html.escape applied
    exactly once (or not at all for safe / flag-off), compared on the whole output after removing the
    dependency comments and `data-djc-id-*` attributes.
(C) part "asset":  Component.js / Component.css with end-tag look-alikes.  Oracle = own implementation of the
    HTML raw-text end rule (`</script` + one of TAB LF FF CR SPACE / >, ASCII case-insensitive): such content
    must be refused, content without any `</script` must be emitted verbatim in exactly one element and
    nothing may leak outside of it.
"""
import html as _html
import itertools
import re
from html.parser import HTMLParser

from vf import env
from vf.core import Collector, derive_seed, exc_bucket, hyp_search, jhash, known_active

PROP = "C13"
LEVEL = "exploration"
RULE = (
    "attrs: 1-4 lower-case attribute names over [a-z0-9-_.:@#] + non-ASCII lower-case letters (plus a pool of realistic "
    "names such as @click.stop, x-on:click, :class, #ref); per name a generated source pattern (defaults / attrs / 0-3 "
    "extra keywords) and values (hostile unicode strings built from quote, angle-bracket, ampersand, entity, whitespace and "
    "non-ASCII fragments; ints, floats, True/False/None; safe strings); attrs/defaults each passed positionally, as kwarg, "
    "as aggregate `attrs:k=v`, as dict literal, inside a `...spread` or as aggregate kwargs of an enclosing {% component %}; "
    "extra keywords as variables, harmless literals or spread entries in a generated order; rendered in a plain template or "
    "inside a component. Expected (name, value) pairs come from an independent merge model and are compared with "
    "html.parser's view of `<x OUTPUT>`. "
    "slot: content kind (str, SafeString, function returning str/SafeString, Slot, Slot returning SafeString, "
    "Slot(escaped=True)) x escape_slots_content x 0-3 pass-through wrappers (Inner.render(slots=self.input.slots) in Python, "
    "slot-inside-fill in a template, the dynamic component as tag or from Python) x leaf shape; content is hostile text "
    "when it will be escaped and well-formed HTML when it will not. "
    "asset: Component.js / Component.css built from text and `</script` / `</style` look-alikes in every letter case with "
    "tails (>, whitespace, /, other), all 64+32 case variants x tails x positions enumerated, rendered as a document "
    "through Component.render / render_to_response / Template+render_dependencies. "
    "Non-trivial = (attrs) an effective string value contains one of \" ' < > & or one key comes from >=2 of "
    "defaults/attrs/keywords; (slot) the content contains one of \" ' < > &; (asset) the JS/CSS contains `</`. "
    "Distinct by the whole case."
)
ASSUMPTIONS = [
    "attribute names consist of characters valid in HTML attribute names and are lower-case (html.parser lower-cases names)",
    "values that are appended (same key from several sources) are strings; numbers/bools/None only occur un-appended",
    "safe and unsafe hostile strings are not mixed under one key; safe strings that get appended use a harmless alphabet "
    "(SafeString + ' ' + SafeString is a plain str by Django's rules and is escaped again)",
    "safe strings contain no double quote (a safe value is emitted verbatim by contract)",
    "template literals only carry harmless characters (literals are safe strings by Django's rules)",
    "extra keywords written directly in the tag contain no ':' (`a:b=` is the documented aggregate syntax and a leading ':' "
    "is rejected by the tag parser with TemplateSyntaxError) and no '...'; such names are passed through dicts / spreads",
    "unescaped slot content (safe / flag off / Slot(escaped=True)) is well-formed HTML with self-closed void elements, "
    "because root elements of it legitimately receive data-djc-id-* attributes from an HTML rewriter",
    "string values contain no control characters other than TAB and LF; JS/CSS contains no `<!--`",
    "JS/CSS is compared modulo leading/trailing whitespace (the library caches `script.strip()`)",
]
BOUNDS = {
    "quick": {"attrs": 18000, "slot": 6000, "asset": 3000, "asset_enum": "all case variants x 10 tails x 2 positions"},
    "thorough": {"attrs": 360000, "slot": 120000, "asset": 60000, "asset_enum": "all case variants x 10 tails x 2 positions x 3 entries"},
}

SPECIALS = "\"'<>&"

# ---------------------------------------------------------------------------
# shared helpers

_ID_ATTR_RE = re.compile(r' data-djc-id-\w{6}=""')
_DEPS_COMMENT_RE = re.compile(r"<!-- _RENDERED [^<>]*? -->")
_uid = itertools.count(1)


class _P(HTMLParser):
    def __init__(self):
        super().__init__(convert_charrefs=True)
        self.ev = []

    def handle_starttag(self, tag, attrs):
        self.ev.append(("start", tag, attrs))

    def handle_startendtag(self, tag, attrs):
        self.ev.append(("startend", tag, attrs))

    def handle_endtag(self, tag):
        self.ev.append(("end", tag))

    def handle_data(self, d):
        if self.ev and self.ev[-1][0] == "data":
            self.ev[-1] = ("data", self.ev[-1][1] + d)
        else:
            self.ev.append(("data", d))

    def handle_comment(self, d):
        self.ev.append(("comment", d))

    def handle_decl(self, d):
        self.ev.append(("decl", d))

    def handle_pi(self, d):
        self.ev.append(("pi", d))

    def unknown_decl(self, d):
        self.ev.append(("unknown_decl", d))


def html_events(s):
    p = _P()
    p.feed(s)
    p.close()
    return p.ev


def has_special(s):
    return any(c in s for c in SPECIALS)


# ===========================================================================
# (A) html_attrs
# ===========================================================================

ASCII_L = "abcdefghijklmnopqrstuvwxyz"
NONASCII_L = "àéîõüßçñøåæłžščλπφжшя"
NAME_CHARS = ASCII_L + "0123456789" + "-_.:@#" + NONASCII_L
REALISTIC_NAMES = [
    "class", "style", "id", "data-id", "data-x", "@click", "@click.stop", "x-on:click", ":class", ":href", "x-data", "#ref",
    "aria-label", "v-bind:title", "hx-on::after-request", "disabled", "type", "role", "kwargs", "args", "_", "é", "x.y", "-x",
    "9", "::", "a...b", "context", "self", ":xlink:href", ":x-on:click",
]  # fmt: skip
RESERVED_KW = ("attrs", "defaults")
# Python-level parameter names of HtmlAttrsNode.render that are not tag inputs (finding D2 when used as extra keywords)
RENDER_PARAM_NAMES = ("context", "self")

VALUE_FRAGS = [
    '"', "'", "<", ">", "&", '">', "'>", '"><script>alert(1)</script>', "' onmouseover='x", '" x="y', "&amp;", "&quot;", "&#x27;",
    "&lt;", "&gt", "&#34", "--", "/>", "</x>", "=", "`", "\\", "{{ v }}", "{% x %}", "javascript:", " ", "  ", "\t", "\n", " ",
    "　", "é", "日本", "\U0001f600", "a", "b c", "text-red", "x=1&y=2", "<!--", "]]>",
]  # fmt: skip
SAFE_FRAGS = ["&amp;", "&quot;", "&lt;", "&gt;", "&#39;", "&#x27;", "'", "<", ">", "a", "b c", "x-1", " ", ";", "é", "<b>", "=/"]
HARMLESS_CHARS = "abcxyz019-_ "


def direct_ok(name):
    return ":" not in name and "..." not in name and name not in RESERVED_KW


def spread_ok(name):
    # a key with a LEADING colon (`:href`, `:xlink:href`, Vue / Alpine bindings) is never an aggregate, however many colons follow
    return (name.startswith(":") or ":" not in name) and name not in RESERVED_KW


def agg_ok(name):
    return "..." not in name


def _fix_name(name):
    if name in RESERVED_KW or name.startswith("data-djc-"):
        return name + "x"
    return name


def sval(v, safe=False):
    d = {"t": "s", "v": v}
    if safe:
        d["safe"] = True
    return d


def model_value(val):
    """JSON value -> plain Python value (model side, no Django types)."""
    t = val["t"]
    if t == "n":
        return None
    if t == "tpl":  # nested-template string "{{ v }}sfx": denotes the rendered TEXT
        return val["v"] + val["sfx"]
    return val["v"]


def py_value(val):
    """JSON value -> the object handed to the library."""
    from django.utils.safestring import mark_safe

    t = val["t"]
    if t == "n":
        return None
    if t == "s" and val.get("safe"):
        return mark_safe(val["v"])
    return val["v"]


def literal_src(val):
    """Template literal for a harmless value."""
    t = val["t"]
    if t == "s":
        v = val["v"]
        assert all(c in HARMLESS_CHARS for c in v), v
        return '"%s"' % v
    if t == "i":
        assert val["v"] >= 0
        return str(val["v"])
    if t == "b":
        return "True" if val["v"] else "False"
    if t == "n":
        return "None"
    raise ValueError("no literal form for %r" % (val,))


class OutOfDomain(ValueError):
    pass


def attrs_model(case):
    """Independent model: returns (expected {name: value-or-None-for-bare}, verbatim_safe {name: raw}, info)."""
    A = D = None
    kws = []
    info = {"sources": {}}

    def note(name, src):
        info["sources"].setdefault(name, set()).add(src)

    def put(which, items):
        nonlocal A, D
        if which == "attrs":
            if A is None:
                A = []
            A.extend(items)
        else:
            if D is None:
                D = []
            D.extend(items)

    for p in case["params"]:
        k = p["k"]
        if k in ("pos", "kw", "lit"):
            if p.get("items") is not None:
                put(p["what"], [(it[0], it[1]) for it in p["items"]])
        elif k == "agg":
            put(p["what"], [(p["name"], p["val"])])
        elif k == "key":
            kws.append((p["name"], p["val"]))
        elif k == "spread":
            for which in ("attrs", "defaults"):
                if p.get(which) is not None:
                    put(which, [(it[0], it[1]) for it in p[which]])
            for it in p["items"]:
                kws.append((it[0], it[1]))
        else:
            raise OutOfDomain("unknown param kind %r" % k)

    parts = {}  # name -> [(python value, safe?), ...]: the value from defaults/attrs (attrs overrides) followed by every extra keyword
    for n, v in D or []:
        parts[n] = [(model_value(v), bool(v.get("safe")))]
        note(n, "defaults")
    for n, v in A or []:
        parts[n] = [(model_value(v), bool(v.get("safe")))]
        note(n, "attrs")
    for n, v in kws:
        note(n, "kw")
        parts.setdefault(n, []).append((model_value(v), bool(v.get("safe"))))
    appended = set()
    final = {}  # name -> [python value (text for merged values), safe?]
    merged_text = {}
    for n, ps in parts.items():
        if len(ps) == 1:
            final[n] = [ps[0][0], ps[0][1]]
            continue
        appended.add(n)
        # "appending each extra keyword value to the same-named attribute separated by one space; None / False values are
        # omitted": None / False contribute nothing to a merged value. What True means next to other values is not stated.
        live = [(v, sf) for v, sf in ps if v is not None and v is not False]
        if not live:
            final[n] = [None, False]
        elif len(live) == 1:
            final[n] = [live[0][0], live[0][1]]
            if isinstance(live[0][0], str) and live[0][1]:
                merged_text[n] = _html.unescape(live[0][0])
        else:
            if any(v is True for v, _ in live):
                raise OutOfDomain("True appended to / next to another value under %r" % n)
            # every non-safe part is escaped once, a safe part (SafeString, or the rendered text of a nested template) is
            # emitted as it is: the parsed attribute value is the space-joined TEXT of the parts
            merged_text[n] = " ".join(_html.unescape(v) if sf else str(v) for v, sf in live)
            final[n] = [" ".join(str(v) for v, _ in live), all(sf for _, sf in live)]
    expected, verbatim = {}, {}
    for n, (v, safe) in final.items():
        if v is None or v is False:
            continue
        if v is True:
            expected[n] = None
        elif n in merged_text:
            expected[n] = merged_text[n]
        elif isinstance(v, str):
            if safe:
                verbatim[n] = v
                expected[n] = _html.unescape(v)
            else:
                expected[n] = v
        else:
            expected[n] = str(v)
    info["appended"] = appended
    info["final"] = final
    info["kw_names"] = [n for n, _ in kws]
    return expected, verbatim, info


def attrs_build(case):
    """-> (tag source, context dict, component-tag aggregate source or None)."""
    ctx = {"nil": None}
    n = [0]

    def var(val):
        name = "v%d" % n[0]
        n[0] += 1
        ctx[name] = py_value(val)
        return name

    def expr(val, lit):
        if val["t"] == "tpl":  # only ever placed where a template expression is written (direct keyword / aggregate)
            return '"{{ %s }}%s"' % (var(sval(val["v"])), val["sfx"])
        return literal_src(val) if lit else var(val)

    def dictval(items):
        return {it[0]: py_value(it[1]) for it in items}

    bits = []
    fall_bits = None
    nsp = 0
    for p in case["params"]:
        k = p["k"]
        if k in ("pos", "kw"):
            what = p["what"]
            if p.get("fall"):
                vname = "attrs"
                fall_bits = ["attrs:%s=%s" % (it[0], expr(it[1], len(it) > 2 and it[2])) for it in p["items"]]
            elif p.get("items") is None:
                vname = "None" if p.get("nil") == "lit" else "nil"
            else:
                vname = "a_" if what == "attrs" else "d_"
                ctx[vname] = dictval(p["items"])
            bits.append(vname if k == "pos" else "%s=%s" % (what, vname))
        elif k == "lit":
            inner = ", ".join('"%s": %s' % (it[0], expr(it[1], len(it) > 2 and it[2])) for it in p["items"])
            bits.append("%s={%s}" % (p["what"], inner))
        elif k == "agg":
            bits.append("%s:%s=%s" % (p["what"], p["name"], expr(p["val"], p.get("lit"))))
        elif k == "key":
            bits.append("%s=%s" % (p["name"], expr(p["val"], p.get("lit"))))
        elif k == "spread":
            d = {}
            for which in ("attrs", "defaults"):
                if p.get(which) is not None:
                    d[which] = dictval(p[which])
            for it in p["items"]:
                d[it[0]] = py_value(it[1])
            vname = "s%d" % nsp
            nsp += 1
            ctx[vname] = d
            bits.append("..." + vname)
    sep = "\n   " if case.get("ml") else " "
    tag = "{% html_attrs" + "".join(sep + b for b in bits) + (sep if case.get("ml") else " ") + "%}"
    return tag, ctx, fall_bits


def attrs_render(case, built=None):
    """Render through the real library. -> output of the html_attrs tag as parsed [(name, value)], raw output."""
    from django.template import Context, Template

    from django_components import Component, registry

    tag, ctx, fall_bits = built or attrs_build(case)
    host = case.get("host", "page")
    if host == "page":
        out = Template(tag).render(Context(ctx))
        ev = html_events("<x " + out + ">")
        if len(ev) != 1 or ev[0][0] != "start" or ev[0][1] != "x":
            return None, out, ev
        return ev[0][2], out, ev

    env.reset()

    def gcd(self, data, attrs=None):
        d = dict(data)
        if attrs is not None:
            d["attrs"] = attrs
        return d

    cls = type("VfC13Host%d" % next(_uid), (Component,), {"template": "<div " + tag + ">x</div>", "get_context_data": gcd})
    if fall_bits is not None:
        registry.register("vfhost", cls)
        page = "{% component 'vfhost' data=data " + " ".join(fall_bits) + " / %}"
        pctx = dict(ctx)
        pctx["data"] = ctx
        out = Template(page).render(Context(pctx))
    else:
        out = cls.render(kwargs={"data": ctx}, render_dependencies=False)
    ev = html_events(out)
    shape = [e[:2] for e in ev]
    if shape != [("comment", ev[0][1] if ev else None), ("start", "div"), ("data", "x"), ("end", "div")]:
        return None, out, ev
    pairs = [(k, v) for k, v in ev[1][2] if not k.startswith("data-djc-id-")]
    return pairs, out, ev


def _unsafe_twin(case):
    """Copy of the case in which every SafeString value is an ordinary (untrusted) string; None if there is none."""
    import copy

    twin = copy.deepcopy(case)
    n = [0]

    def walk(o):
        if isinstance(o, dict):
            if o.get("safe") is True:
                o["safe"] = False
                n[0] += 1
            for v in o.values():
                walk(v)
        elif isinstance(o, list):
            for v in o:
                walk(v)

    walk(twin)
    return twin if n[0] else None


def attrs_check(case, col=None, _twin=False):
    """-> list[(message, bucket)]; records the case on `col`."""
    fails = _attrs_check(case, col if not _twin else None)
    if not fails and not _twin:
        # history of two renders in one process: the same names/texts first as safe strings, then untrusted. The
        # untrusted render must be escaped no matter what was rendered before (no state may be shared between renders).
        twin = _unsafe_twin(case)
        if twin is not None:
            try:
                tf = _attrs_check(twin, None)
            except OutOfDomain:
                tf = []
            if col is not None:
                col.count("attrs:safe-then-untrusted twin render")
            fails = [("after rendering the same attributes as safe strings, the untrusted twin: " + m, "twin:" + b) for m, b in tf]
    if not fails and not _twin and case.get("host", "page") == "page":
        fails = _second_use_of_defaults(case, col)
    return fails


def _second_use_of_defaults(case, col=None):
    """History of two tags that are handed the SAME `defaults` dict object: first the case as generated, then the same tag
    with an empty `attrs` dict. What the first tag did must not show in the second one (expected = model of the second
    case from pristine data)."""
    import copy

    from django.template import Context, Template

    ps = case["params"]
    has_d = any(p["k"] in ("pos", "kw") and p.get("what") == "defaults" and p.get("items") and not p.get("fall") for p in ps)
    ai = [i for i, p in enumerate(ps) if p["k"] in ("pos", "kw") and p.get("what") == "attrs" and p.get("items") and not p.get("fall")]
    if not has_d or not ai:
        return []
    case2 = copy.deepcopy(case)
    case2["params"][ai[0]]["items"] = []
    try:
        expected2, _v, _i = attrs_model(case2)
        tag1, ctx1, _f1 = attrs_build(case)
        tag2, ctx2, _f2 = attrs_build(case2)
    except OutOfDomain:
        return []
    if "d_" not in ctx1 or "d_" not in ctx2:
        return []
    ctx2["d_"] = ctx1["d_"]  # the caller keeps ONE defaults dict and uses it for both tags
    try:
        Template(tag1).render(Context(ctx1))
        out = Template(tag2).render(Context(ctx2))
    except Exception:  # noqa - judged by the main check
        return []
    ev = html_events("<x " + out + ">")
    if len(ev) != 1 or ev[0][0] != "start":
        return []
    got = dict(ev[0][2])
    if col is not None:
        col.count("attrs:second tag sharing the caller's defaults dict")
    if got != expected2:
        return [("two html_attrs tags given the same `defaults` dict object: the second one (empty attrs) rendered %r, expected %r - attributes of the first tag (%s) show in it | second tag: %s" % (got, expected2, tag1, tag2), "second-use-of-defaults")]
    return []


def _attrs_check(case, col=None):
    try:
        expected, verbatim, info = attrs_model(case)
    except OutOfDomain:
        if col is not None:
            col.case(None, False, labels=("attrs:outside_domain",))
        return []
    labels, nt = attrs_labels(case, info)
    if col is not None:
        col.case(jhash(case) if nt else None, nt, sample=case if nt else None, labels=labels)
    fails = []
    built = attrs_build(case)  # harness-side; errors here are harness errors, not verdicts
    tag = built[0]
    try:
        pairs, out, ev = attrs_render(case, built)
    except OutOfDomain:
        raise
    except Exception as e:  # noqa  - the property allows no exception on this domain
        return [("html_attrs raised %s: %s | tag: %s" % (type(e).__name__, str(e)[:300], tag), "attrs-exc:" + exc_bucket(e))]
    where = " | tag: %s | output: %r" % (tag, out[:400])
    if pairs is None:
        return [("output does not parse back as exactly one start tag (something broke out of an attribute): events %r%s" % (ev[:6], where), "attrs-breakout")]
    names = [k for k, _ in pairs]
    if len(set(names)) != len(names):
        fails.append(("attribute name rendered more than once: %r%s" % (names, where), "attrs-duplicate-name"))
        return fails
    got = dict(pairs)
    if got != expected:
        missing = sorted(set(expected) - set(got))
        extra = sorted(set(got) - set(expected))
        diff = sorted(k for k in set(got) & set(expected) if got[k] != expected[k])
        if missing or extra:
            bucket = "attrs-set-differs"
            msg = "attribute set differs: missing %r, unexpected %r" % (missing, extra)
        else:
            k = diff[0]
            bucket = "attrs-value-differs:" + ("appended" if k in info["appended"] else "single")
            msg = "attribute %r: parsed value %r, model %r" % (k, got[k], expected[k])
        fails.append((msg + where, bucket))
        return fails
    for k, raw in verbatim.items():
        if '%s="%s"' % (k, raw) not in out:
            fails.append(("safe value of %r not emitted verbatim (%r)%s" % (k, raw, where), "attrs-safe-not-verbatim"))
            break
    return fails


def attrs_labels(case, info):
    labels = ["A:host=" + case.get("host", "page")]
    forms = {"attrs": "absent", "defaults": "absent"}
    for p in case["params"]:
        k = p["k"]
        if k in ("pos", "kw", "lit", "agg"):
            f = k
            if p.get("fall"):
                f = "component-aggregate"
            elif k in ("pos", "kw") and p.get("items") is None:
                f = "none-placeholder"
            forms[p["what"]] = f
        elif k == "spread":
            labels.append("A:spread")
            for which in ("attrs", "defaults"):
                if p.get(which) is not None:
                    forms[which] = "in-spread"
        elif k == "key":
            labels.append("A:kw-literal" if p.get("lit") else "A:kw-variable")
    labels.append("A:attrs-form=" + forms["attrs"])
    labels.append("A:defaults-form=" + forms["defaults"])
    if case.get("ml"):
        labels.append("A:multiline-tag")
    kwn = info["kw_names"]
    if len(set(kwn)) != len(kwn):
        labels.append("A:repeated-keyword")
    overlap = False
    nt_value = False
    for n, srcs in info["sources"].items():
        if len(srcs) >= 2:
            overlap = True
            if {"attrs", "defaults"} <= srcs:
                labels.append("A:override(attrs-over-defaults)")
            if "kw" in srcs and "attrs" in srcs:
                labels.append("A:append-on-attrs")
            elif "kw" in srcs and "defaults" in srcs:
                labels.append("A:append-on-defaults")
        if any(c in n for c in "@:.#-"):
            labels.append("A:name-special-char")
        if any(ord(c) > 127 for c in n):
            labels.append("A:name-non-ascii")
    for n, (v, safe) in info["final"].items():
        if v is None or v is False:
            labels.append("A:omitted(None/False)")
        elif v is True:
            labels.append("A:bare(True)")
        elif isinstance(v, str):
            if has_special(v):
                nt_value = True
                labels.append("A:value-safe-special" if safe else "A:value-hostile")
            if safe:
                labels.append("A:value-safe")
            if any(c in v for c in " \t\n 　"):
                labels.append("A:value-whitespace")
            if any(ord(c) > 127 for c in v):
                labels.append("A:value-non-ascii")
            if v == "":
                labels.append("A:value-empty")
        else:
            labels.append("A:value-number")
    if overlap:
        labels.append("A:overlap")
    if any(n in RENDER_PARAM_NAMES for n in kwn):
        labels.append("A:kw-named-context/self")
    nt = overlap or nt_value
    return tuple(sorted(set(labels))), nt


def attrs_strategy():
    from hypothesis import strategies as st

    chars = st.characters(exclude_categories=("Cs", "Cc"))
    name_st = st.one_of(st.sampled_from(REALISTIC_NAMES), st.text(NAME_CHARS, min_size=1, max_size=7), st.text(NAME_CHARS, min_size=1, max_size=3)).map(_fix_name)
    hostile_ne = st.lists(
        st.one_of(st.sampled_from(VALUE_FRAGS), st.sampled_from(VALUE_FRAGS), st.text(chars, min_size=1, max_size=4), st.text("ab c-", min_size=1, max_size=4)), min_size=1, max_size=5
    ).map("".join)
    hostile = st.one_of(hostile_ne, hostile_ne, hostile_ne, hostile_ne, st.just(""))
    safe_txt = st.lists(st.sampled_from(SAFE_FRAGS), min_size=1, max_size=6).map("".join)
    harmless = st.one_of(st.text(HARMLESS_CHARS, min_size=1, max_size=8), st.text(HARMLESS_CHARS, min_size=1, max_size=8), st.just(""))
    number = st.one_of(
        st.integers(-10**6, 10**6).map(lambda i: {"t": "i", "v": i}),
        st.integers(0, 99).map(lambda i: {"t": "i", "v": i}),
        st.floats(allow_nan=False, allow_infinity=False, width=32).map(lambda f: {"t": "f", "v": f}),
        st.sampled_from([0.5, 1.0, 1e16, 1.5e-7, -0.0]).map(lambda f: {"t": "f", "v": f}),
    )
    boolnone = st.sampled_from([{"t": "b", "v": True}, {"t": "b", "v": False}, {"t": "n"}])

    @st.composite
    def strat(draw):
        names = draw(st.lists(name_st, min_size=1, max_size=4, unique=True))
        host = draw(st.sampled_from(["page", "comp", "page"]))
        A, Dd, KW = [], [], []  # items; KW: (name, val) per occurrence
        for name in names:
            kw_capable = direct_ok(name) or spread_ok(name)
            in_d = draw(st.booleans())
            in_a = draw(st.booleans())
            nkw = draw(st.sampled_from([0, 0, 1, 1, 2, 3])) if kw_capable else 0
            if not (in_d or in_a or nkw):
                in_a = True
            safe_key = draw(st.sampled_from([False, False, False, False, False, True]))
            appended = nkw >= 2 or (nkw >= 1 and (in_a or in_d))

            def string_val():
                if safe_key and (not appended or draw(st.integers(0, 2)) > 0):
                    # merged values: safe and untrusted parts under one name (each part keeps its own escaping)
                    return sval(draw(st.one_of(harmless, safe_txt) if appended else safe_txt), safe=True)
                return sval(draw(st.one_of(hostile, hostile, harmless)))

            def str_or_num():
                # appended positions: mostly strings, sometimes a number (data-count=count, tabindex=i), None / False (omitted)
                k_ = draw(st.integers(0, 11))
                if k_ < 2:
                    return draw(number)
                if k_ == 2:
                    return draw(st.sampled_from([{"t": "n"}, {"t": "b", "v": False}]))
                return string_val()

            def any_val():
                kind = draw(st.sampled_from(["s", "s", "s", "num", "bn"]))
                if kind == "s":
                    return string_val()
                return draw(number if kind == "num" else boolnone)

            def free_val():  # a value that never reaches the output (overridden default)
                kind = draw(st.sampled_from(["s", "num", "bn"]))
                if kind == "s":
                    return sval(draw(hostile))
                return draw(number if kind == "num" else boolnone)

            if in_d:
                if in_a:
                    Dd.append([name, free_val()])
                else:
                    Dd.append([name, str_or_num() if appended else any_val()])
            if in_a:
                A.append([name, str_or_num() if appended else any_val()])
            for _ in range(nkw):
                if direct_ok(name) and draw(st.integers(0, 7)) == 0:
                    # value written as a nested template: class="{{ v }} y" (rendered text, escaped by that rendering)
                    KW.append([name, {"t": "tpl", "v": draw(st.one_of(hostile_ne, harmless)), "sfx": draw(st.sampled_from([" y", "", "-z", " b c"]))}])
                else:
                    KW.append([name, str_or_num() if appended else any_val()])

        def is_harmless_lit(val):
            t = val["t"]
            if t == "s":
                return not val.get("safe") and all(c in HARMLESS_CHARS for c in val["v"]) and val["v"].strip() == val["v"] and val["v"] != ""
            if t == "i":
                return 0 <= val["v"] < 10**6
            return t in ("b", "n")

        def with_lit(items):
            out = []
            for n_, v_ in items:
                lit = is_harmless_lit(v_) and draw(st.sampled_from([False, False, True]))
                out.append([n_, v_, True] if lit else [n_, v_])
            return out

        # -------- forms of attrs / defaults
        spreads = [{"k": "spread", "items": []}, {"k": "spread", "items": []}]
        params_pos, params_kw = [], []
        a_forms = ["pos", "kw", "agg", "lit", "spread"] + (["fall"] if host == "comp" else [])
        if A:
            a_form = draw(st.sampled_from(a_forms))
            if a_form in ("agg", "fall") and not all(agg_ok(n_) for n_, _ in A):
                a_form = "kw"
        else:
            a_form = draw(st.sampled_from(["absent", "absent", "nonepos", "emptykw", "fall0" if host == "comp" else "absent"]))
        d_choices = (["pos", "pos"] if a_form in ("pos", "absent", "nonepos", "fall", "fall0") else []) + ["kw", "agg", "lit", "spread"]
        if Dd:
            d_form = draw(st.sampled_from(d_choices))
            if d_form == "agg" and not all(agg_ok(n_) for n_, _ in Dd):
                d_form = "kw"
        else:
            d_form = draw(st.sampled_from(["absent", "absent", "nonepos" if "pos" in d_choices else "absent", "emptykw"]))
        d_is_pos = d_form in ("pos", "nonepos")
        # attrs
        if a_form == "pos":
            params_pos.append({"k": "pos", "what": "attrs", "items": A})
        elif a_form == "kw":
            params_kw.append({"k": "kw", "what": "attrs", "items": A})
        elif a_form == "agg":
            for n_, v_, *l_ in with_lit(A):
                p = {"k": "agg", "what": "attrs", "name": n_, "val": v_}
                if l_:
                    p["lit"] = True
                params_kw.append(p)
        elif a_form == "lit":
            params_kw.append({"k": "lit", "what": "attrs", "items": with_lit(A)})
        elif a_form == "spread":
            spreads[draw(st.integers(0, 1))]["attrs"] = A
        elif a_form in ("fall", "fall0"):
            p = {"k": "pos" if (d_is_pos or draw(st.booleans())) else "kw", "what": "attrs", "items": with_lit(A), "fall": True}
            (params_pos if p["k"] == "pos" else params_kw).append(p)
        elif a_form == "nonepos" or (a_form == "absent" and d_is_pos):
            params_pos.append({"k": "pos", "what": "attrs", "items": None, "nil": draw(st.sampled_from(["var", "lit"]))})
        elif a_form == "emptykw":
            params_kw.append({"k": "kw", "what": "attrs", "items": []})
        # defaults
        if d_form == "pos":
            params_pos.append({"k": "pos", "what": "defaults", "items": Dd})
        elif d_form == "nonepos":
            params_pos.append({"k": "pos", "what": "defaults", "items": None, "nil": draw(st.sampled_from(["var", "lit"]))})
        elif d_form == "kw":
            params_kw.append({"k": "kw", "what": "defaults", "items": Dd})
        elif d_form == "emptykw":
            params_kw.append({"k": "kw", "what": "defaults", "items": []})
        elif d_form == "agg":
            for n_, v_, *l_ in with_lit(Dd):
                p = {"k": "agg", "what": "defaults", "name": n_, "val": v_}
                if l_:
                    p["lit"] = True
                params_kw.append(p)
        elif d_form == "lit":
            params_kw.append({"k": "lit", "what": "defaults", "items": with_lit(Dd)})
        elif d_form == "spread":
            spreads[draw(st.integers(0, 1))]["defaults"] = Dd
        # a positional `defaults` needs a positional first argument
        if d_is_pos and not any(p["what"] == "attrs" for p in params_pos):
            raise AssertionError("generator bug: positional defaults without positional attrs")
        params_pos.sort(key=lambda p: 0 if p["what"] == "attrs" else 1)

        # -------- extra keywords
        for name, val in KW:
            vias = []
            if val["t"] == "tpl":
                params_kw.append({"k": "key", "name": name, "val": val})
                continue
            if direct_ok(name):
                vias += ["var", "var"]
                if is_harmless_lit(val):
                    vias += ["lit"]
            if spread_ok(name):
                vias += [i for i in (0, 1) if all(it[0] != name for it in spreads[i]["items"])]
            if not vias:
                continue  # (only for names with '...' whose two spreads are taken) drop the occurrence
            via = draw(st.sampled_from(vias))
            if via in (0, 1):
                spreads[via]["items"].append([name, val])
                params_kw.append(("sp", via))
            else:
                p = {"k": "key", "name": name, "val": val}
                if via == "lit":
                    p["lit"] = True
                params_kw.append(p)
        used_sp = [i for i in (0, 1) if spreads[i]["items"] or "attrs" in spreads[i] or "defaults" in spreads[i]]
        # a spread appears once, at the position of its first use (or at a drawn position if it only carries dicts)
        seq, seen = [], set()
        for p in params_kw:
            if isinstance(p, tuple):
                if p[1] not in seen:
                    seen.add(p[1])
                    seq.append(spreads[p[1]])
            else:
                seq.append(p)
        for i in used_sp:
            if i not in seen:
                seq.append(spreads[i])
        seq = draw(st.permutations(seq)) if len(seq) > 1 else seq
        case = {"part": "attrs", "host": host, "params": params_pos + list(seq)}
        if draw(st.sampled_from([False, False, False, False, True])):
            case["ml"] = True
        return case

    return strat()


# ===========================================================================
# (B) slot content
# ===========================================================================

SLOT_KINDS = ["str", "safe", "fn", "fn_safe", "slot", "slot_safe", "slot_escaped"]
SAFE_KINDS = ("safe", "fn_safe", "slot_safe", "slot_escaped")
WRAPPERS = ["py", "tpl", "dyn_tag", "py_dyn", "tpl_loop"]
SLOT_NAMES = ["s", "content", "default", "my-slot"]


def slot_expected_content(case):
    from django.utils.html import escape  # the trusted reference for "HTML-escaped"

    c = case["content"]
    if case["kind"] in SAFE_KINDS or not case["flag"]:
        return c
    return str(escape(c))


def slot_expected_output(case, content):
    leaf = ("[%s]" if case.get("shape", "bare") == "bare" else '<div class="leaf">%s</div>') % content
    out = leaf
    for i in reversed(range(len(case["wrappers"]))):
        out = "W%d(%s)" % (i, out)
    return out


def slot_render(case):
    from django.utils.safestring import mark_safe

    from django_components import Component, Slot, registry
    from django_components.components.dynamic import DynamicComponent

    env.reset()
    uid = next(_uid)
    name = case.get("name", "s")
    content = case["content"]
    kind = case["kind"]
    if kind == "str":
        fill = content
    elif kind == "safe":
        fill = mark_safe(content)
    elif kind == "fn":
        fill = lambda ctx, data, ref: content  # noqa: E731
    elif kind == "fn_safe":
        fill = lambda ctx, data, ref: mark_safe(content)  # noqa: E731
    elif kind == "slot":
        fill = Slot(lambda ctx, data, ref: content)
    elif kind == "slot_safe":
        fill = Slot(lambda ctx, data, ref: mark_safe(content))
    elif kind == "slot_escaped":
        fill = Slot(lambda ctx, data, ref: content, escaped=True)
    else:
        raise OutOfDomain(kind)

    dflt = " default" if case.get("default_flag") else ""
    slot_tag = "{%% slot '%s'%s %%}DEFAULT{%% endslot %%}" % (name, dflt)
    leaf_tpl = ("[%s]" if case.get("shape", "bare") == "bare" else '<div class="leaf">%s</div>') % slot_tag
    classes = []
    leaf = type("VfC13Leaf%d" % uid, (Component,), {"template": leaf_tpl})
    registry.register("vfleaf", leaf)
    nxt_cls, nxt_name = leaf, "vfleaf"
    wrappers = case["wrappers"]
    for i in reversed(range(len(wrappers))):
        w = wrappers[i]
        kindw = w["w"]
        flag2 = w.get("flag", True)
        if kindw in ("py", "py_dyn"):

            def gcd(self, _nxt=nxt_cls, _flag2=flag2, _dyn=(kindw == "py_dyn")):
                if _dyn:
                    out = DynamicComponent.render(kwargs={"is": _nxt}, slots=self.input.slots, escape_slots_content=_flag2, render_dependencies=False)
                else:
                    out = _nxt.render(slots=self.input.slots, escape_slots_content=_flag2, render_dependencies=False)
                return {"out": out}

            body = {"template": "W%d({{ out|safe }})" % i, "get_context_data": gcd}
        elif kindw == "tpl":
            body = {"template": "W%d({%% component '%s' %%}{%% fill '%s' %%}{%% slot '%s' / %%}{%% endfill %%}{%% endcomponent %%})" % (i, nxt_name, name, name)}
        elif kindw == "tpl_loop":  # the documented "pass through all the slots" pattern
            body = {
                "template": "W%d({%% component '%s' %%}{%% for slot_name in slots %%}{%% fill name=slot_name %%}{%% slot name=slot_name / %%}{%% endfill %%}{%% endfor %%}{%% endcomponent %%})"
                % (i, nxt_name),
                "get_context_data": lambda self: {"slots": self.input.slots},
            }
        elif kindw == "dyn_tag":
            body = {"template": "W%d({%% component 'dynamic' is='%s' %%}{%% fill '%s' %%}{%% slot '%s' / %%}{%% endfill %%}{%% endcomponent %%})" % (i, nxt_name, name, name)}
        else:
            raise OutOfDomain(kindw)
        cls = type("VfC13Wrap%d_%d" % (uid, i), (Component,), body)
        nxt_name = "vfwrap%d" % i
        registry.register(nxt_name, cls)
        nxt_cls = cls
        classes.append(cls)
    top = nxt_cls
    with env.components_settings(context_behavior=case.get("mode", "django")):
        if case.get("entry") == "dynamic":
            out = DynamicComponent.render(kwargs={"is": top}, slots={name: fill}, escape_slots_content=case["flag"], render_dependencies=False)
        else:
            out = top.render(slots={name: fill}, escape_slots_content=case["flag"], render_dependencies=False)
    return str(out)


def slot_labels(case):
    will_escape = case["kind"] not in SAFE_KINDS and case["flag"]
    labels = [
        "B:kind=" + case["kind"],
        "B:flag=" + ("on" if case["flag"] else "off"),
        "B:depth=%d" % len(case["wrappers"]),
        "B:escaped" if will_escape else "B:verbatim",
        "B:entry=" + case.get("entry", "direct"),
        "B:mode=" + case.get("mode", "django"),
        "B:shape=" + case.get("shape", "bare"),
    ]
    for w in case["wrappers"]:
        labels.append("B:via=" + w["w"])
        if w["w"] in ("py", "py_dyn") and w.get("flag", True) != case["flag"]:
            labels.append("B:inner-flag-differs")
    c = case["content"]
    if "{{" in c or "{%" in c:
        labels.append("B:content-template-syntax")
    if "&" in c and will_escape:
        labels.append("B:content-has-entity-and-escaped")
    return tuple(sorted(set(labels)))


def slot_check(case, col=None):
    from django.utils.html import escape

    nt = has_special(case["content"])
    if col is not None:
        col.case(jhash(case) if nt else None, nt, sample=case if nt else None, labels=slot_labels(case))
    want_c = slot_expected_content(case)
    want = slot_expected_output(case, want_c)
    try:
        out = slot_render(case)
    except OutOfDomain:
        raise
    except Exception as e:  # noqa
        return [("rendering raised %s: %s" % (type(e).__name__, str(e)[:300]), "slot-exc:" + exc_bucket(e))]
    got = _ID_ATTR_RE.sub("", _DEPS_COMMENT_RE.sub("", out))
    if got == want:
        return []
    c = case["content"]
    once = slot_expected_output(case, str(escape(c)))
    twice = slot_expected_output(case, str(escape(str(escape(c)))))
    raw = slot_expected_output(case, c)
    if got == twice and twice != want:
        kind = "escaped-twice"
    elif got == raw and raw != want:
        kind = "not-escaped"
    elif got == once and once != want:
        kind = "escaped-but-should-not"
    else:
        kind = "other"
    return [("slot output %r, expected %r (content %r, kind %s, flag %r, wrappers %r)" % (got[:400], want[:400], c, case["kind"], case["flag"], case["wrappers"]), "slot-mismatch:" + kind)]


def slot_strategy():
    from hypothesis import strategies as st

    chars = st.characters(exclude_categories=("Cs", "Cc"))
    hostile = st.lists(
        st.one_of(st.sampled_from(VALUE_FRAGS + ["<b>", "</b>", "<script>", "</div>", "&amp;amp;", "<br>", "\r\n"]), st.text(chars, min_size=1, max_size=5), st.text("ab c", min_size=1, max_size=4)),
        min_size=0,
        max_size=6,
    ).map("".join)

    # well-formed HTML for content that is emitted verbatim
    text = st.lists(st.sampled_from(["a", "b c", " ", "\n", '"', "'", "&amp;", "&lt;", "&#39;", "&quot;", "é", "日本", "{{ v }}", "x=1", "--", "!"]), max_size=4).map("".join)
    attr = st.sampled_from(["", ' class="a b"', " data-a='1'", ' title="x&amp;y"', " hidden", ' @click="f(\'x\')"', ' title="a>b"'])
    void = st.sampled_from(["<br/>", '<img src="a.png"/>', "<hr />", '<input disabled value="1"/>'])
    tagn = st.sampled_from(["b", "i", "span", "div", "p", "em", "x-y", "SPAN"])

    def elem(children):
        return st.tuples(tagn, attr, st.lists(children, max_size=3).map("".join)).map(lambda t: "<%s%s>%s</%s>" % (t[0], t[1], t[2], t[0]))

    node = st.recursive(st.one_of(text, void), lambda ch: st.one_of(elem(ch), elem(ch), text), max_leaves=6)
    wellformed = st.lists(node, max_size=4).map("".join)

    @st.composite
    def strat(draw):
        will_escape = draw(st.sampled_from([True, False, True]))
        if will_escape:
            kind, flag = draw(st.sampled_from(["str", "fn", "slot"])), True
        else:
            kind, flag = draw(st.sampled_from([(k, f) for k in SLOT_KINDS for f in (False, True) if k in SAFE_KINDS or not f]))
        content = draw(hostile if will_escape else wellformed)
        nw = draw(st.sampled_from([2, 1, 3, 1, 2, 0]))
        wrappers = []
        for _ in range(nw):
            w = {"w": draw(st.sampled_from(WRAPPERS))}
            if w["w"] in ("py", "py_dyn"):
                w["flag"] = draw(st.booleans())
            wrappers.append(w)
        # Python re-passes come first (outermost), template pass-throughs below them: a fill *written in a template* whose body
        # is `{% slot %}` cannot be re-passed from Python with `Inner.render(slots=self.input.slots)` - the inner slot tag then
        # resolves against the wrong component (RecursionError in "django" mode, "SlotNode outside of a Component context"
        # in "isolated" mode). That is a slot-scoping matter (C01/C03), not an escaping one, so the order is not generated.
        wrappers.sort(key=lambda w: w["w"] in ("tpl", "dyn_tag", "tpl_loop"))
        case = {"part": "slot", "kind": kind, "flag": flag, "content": content, "wrappers": wrappers}
        name = draw(st.sampled_from(SLOT_NAMES))
        if name != "s":
            case["name"] = name
        if draw(st.booleans()):
            case["shape"] = "elem"
        if draw(st.sampled_from([False, False, False, True])):
            case["entry"] = "dynamic"
        if draw(st.sampled_from([False, True, False])):
            case["mode"] = "isolated"
        if name == "default" or draw(st.sampled_from([False, False, False, True])):
            case["default_flag"] = True
        return case

    return strat()


# ===========================================================================
# (C) JS / CSS end-tag guard
# ===========================================================================

ASSET_TAILS = [">", " >", "\n>", "\t>", "/>", " x='1'>", "\x0c>", "\r\n>", "", "x>", "-->", "<", ".", "_"]
ENUM_TAILS = [">", " >", "\n>", "\t>", "/>", " x>", "\x0c>", "\r>", "x>", ""]
ASSET_TEXT_CHARS = "abcxyz01 \n\t;(){}=+-*.,:'\"<>/&\\|#@é日"
ASSET_DECOYS = ["</", "<", "</scrip", "</ script>", "< /script>", "<\\/script>", "</sc ript>", "<script>", "<style>", "</styl", "</ style>", "<\\/style>", "&lt;/script&gt;", "</div>", "</body>", "</head>", "//", "/*", "*/"]
DOC_SKELETON = "<!DOCTYPE html><html><head><title>t</title></head><body><div>M</div></body></html>"
PAGE_SKELETON = "<html><head><title>t</title></head><body><div>M</div></body></html>"


def _terminator_re(elem):
    # HTML "script data end tag name" rule: `</` + the element name (ASCII case-insensitive) + TAB/LF/FF/CR/SPACE, `/` or `>`
    return re.compile("</" + elem + "(?=[\t\n\x0c\r />])", re.I)


_TERM = {"script": _terminator_re("script"), "style": _terminator_re("style")}


def terminates(content, elem):
    return bool(content) and _TERM[elem].search(content) is not None


def mentions(content, elem):
    return bool(content) and ("</" + elem) in content.lower()


def raw_text_elements(doc):
    """Split `doc` the way an HTML tokenizer does for <script>/<style>: -> (elements [(name, attrs_src, content)], rest)."""
    start = re.compile(r"<(script|style)\b([^>]*)>", re.I)
    els, rest, pos = [], [], 0
    while True:
        m = start.search(doc, pos)
        if not m:
            rest.append(doc[pos:])
            break
        rest.append(doc[pos : m.start()])
        name = m.group(1).lower()
        t = _TERM[name].search(doc, m.end())
        if not t:
            els.append((name, m.group(2), doc[m.end() :], False))
            break
        close = doc.find(">", t.end())
        if close < 0:
            els.append((name, m.group(2), doc[m.end() : t.start()], False))
            break
        els.append((name, m.group(2), doc[m.end() : t.start()], doc[t.start() : close + 1]))
        pos = close + 1
    return els, "".join(rest)


def asset_render(case):
    from django.template import Context, Template

    from django_components import Component, registry, render_dependencies

    env.reset()
    uid = next(_uid)
    entry = case.get("entry", "render")
    body = {"template": DOC_SKELETON if entry in ("render", "response") else "<div>M</div>"}
    if case.get("js") is not None:
        body["js"] = case["js"]
    if case.get("css") is not None:
        body["css"] = case["css"]
    cls = type("VfC13Asset%d" % uid, (Component,), body)
    registry.register("vfasset", cls)
    if entry == "render":
        return str(cls.render()), DOC_SKELETON
    if entry == "response":
        return cls.render_to_response().content.decode("utf-8"), DOC_SKELETON
    if entry == "template":
        page = "<html><head><title>t</title>{% component_css_dependencies %}</head><body>{% component 'vfasset' / %}{% component_js_dependencies %}</body></html>"
    elif entry == "template_default":
        page = "<html><head><title>t</title></head><body>{% component 'vfasset' / %}</body></html>"
    else:
        raise OutOfDomain(entry)
    out = Template(page).render(Context({}))
    return str(render_dependencies(out)), PAGE_SKELETON


def asset_class(case):
    js, css = case.get("js"), case.get("css")
    must = terminates(js, "script") or terminates(css, "style")
    may = mentions(js, "script") or mentions(css, "style")
    return must, may


def asset_labels(case):
    js, css = case.get("js"), case.get("css")
    must, may = asset_class(case)
    labels = ["C:entry=" + case.get("entry", "render"), "C:must-refuse" if must else ("C:ambiguous-lookalike" if may else "C:must-emit")]
    for nm, content, elem in (("js", js, "script"), ("css", css, "style")):
        if content is None:
            continue
        labels.append("C:has-" + nm)
        if terminates(content, elem):
            m = _TERM[elem].search(content)
            word = content[m.start() + 2 : m.start() + 2 + len(elem)]
            labels.append("C:%s-endtag-%s" % (nm, "lower" if word.islower() else ("upper" if word.isupper() else "mixed-case")))
            tail = content[m.end() : m.end() + 1]
            labels.append("C:%s-endtag-tail=%s" % (nm, {">": "gt", "/": "slash"}.get(tail, "whitespace")))
        elif not content.strip():
            labels.append("C:%s-blank" % nm)
    return tuple(sorted(set(labels)))


def asset_check(case, col=None):
    js, css = case.get("js"), case.get("css")
    must, may = asset_class(case)
    nt = ("</" in (js or "")) or ("</" in (css or ""))
    if col is not None:
        col.case(jhash(case) if nt else None, nt, sample=case if nt else None, labels=asset_labels(case))
    try:
        out, skeleton = asset_render(case)
    except OutOfDomain:
        raise
    except RuntimeError as e:
        if may and "end tag" in str(e):
            return []
        return [("rendering raised RuntimeError %s for js=%r css=%r" % (str(e)[:300], js, css), "asset-spurious-refusal" if "end tag" in str(e) else "asset-exc:" + exc_bucket(e))]
    except Exception as e:  # noqa
        return [("rendering raised %s: %s for js=%r css=%r" % (type(e).__name__, str(e)[:300], js, css), "asset-exc:" + exc_bucket(e))]
    if must:
        which = "js" if terminates(js, "script") else "css"
        content, elem = (js, "script") if which == "js" else (css, "style")
        m = _TERM[elem].search(content)
        word = content[m.start() + 2 : m.start() + 2 + len(elem)]
        cls = "lower" if word.islower() else "non-lower-case"
        return [("Component.%s containing the end tag %r was emitted instead of refused: %r -> ...%s" % (which, content[m.start() : m.end() + 1], content, out[-300:]), "asset-endtag-emitted:%s:%s" % (which, cls))]
    els, rest = raw_text_elements(out)
    fails = []
    for nm, content, elem in (("js", js, "script"), ("css", css, "style")):
        own = [e for e in els if e[0] == elem and e[1].strip() == ""]
        want = (content or "").strip()
        if not want:
            if own:
                fails.append(("blank/absent Component.%s but an attribute-less <%s> element was emitted: %r" % (nm, elem, own), "asset-unexpected-element:" + nm))
            continue
        if len(own) != 1:
            fails.append(("Component.%s=%r: %d attribute-less <%s> elements in the output, expected exactly 1: %r" % (nm, content, len(own), elem, own), "asset-element-count:" + nm))
        elif own[0][2].strip() != want or not own[0][3]:
            fails.append(("Component.%s=%r not emitted verbatim: element content %r (end %r)" % (nm, content, own[0][2], own[0][3]), "asset-not-verbatim:" + nm))
    if not fails:
        rest_n = _ID_ATTR_RE.sub("", rest)
        if rest_n != skeleton:
            fails.append(("text/markup outside the <script>/<style> elements is %r, expected %r (js=%r css=%r)" % (rest_n[:400], skeleton, js, css), "asset-leak-outside-element"))
    return fails


def asset_strategy(which):
    from hypothesis import strategies as st

    elem = "script" if which == "js" else "style"
    other = "style" if which == "js" else "script"

    def casing(word):
        return st.lists(st.booleans(), min_size=len(word), max_size=len(word)).map(lambda bs: "".join(c.upper() if b else c for c, b in zip(word, bs)))

    word = st.one_of(st.just(elem), st.just(elem.upper()), st.just(elem.capitalize()), casing(elem))
    lookalike = st.tuples(word, st.sampled_from(ASSET_TAILS)).map(lambda t: "</" + t[0] + t[1])
    other_tag = st.tuples(st.sampled_from([other, other.upper()]), st.sampled_from([">", " >"])).map(lambda t: "</" + t[0] + t[1])
    txt = st.text(ASSET_TEXT_CHARS, max_size=8)
    piece_clean = st.one_of(txt, txt, st.sampled_from(ASSET_DECOYS), other_tag)
    pad = st.sampled_from(["", "", " ", "\n", "\n  ", "\t"])

    @st.composite
    def strat(draw):
        mode = draw(st.sampled_from(["clean", "clean", "look", "look", "look"]))
        pieces = draw(st.lists(piece_clean, min_size=0, max_size=4))
        if mode == "look":
            k = draw(st.integers(1, 2))
            for _ in range(k):
                pieces.insert(draw(st.integers(0, len(pieces))), draw(lookalike))
        content = draw(pad) + "".join(pieces) + draw(pad)
        # the decoys/text may accidentally complete a look-alike (e.g. "</scrip" + "t>"): classification is by content anyway
        case = {"part": "asset", which: content}
        o = draw(st.sampled_from([None, None, "clean", "blank"]))
        if o == "clean":
            case["css" if which == "js" else "js"] = draw(st.sampled_from(["x{color:red}", "a<b", "/* </ */ .a > .b{}", "var a = 1 < 2;"]))
        elif o == "blank":
            case["css" if which == "js" else "js"] = draw(st.sampled_from(["", " \n "]))
        e = draw(st.sampled_from(["render", "render", "response", "template", "template_default"]))
        if e != "render":
            case["entry"] = e
        return case

    return strat()


def asset_enum(which, entries):
    elem = "script" if which == "js" else "style"
    for bits in itertools.product((False, True), repeat=len(elem)):
        word = "".join(c.upper() if b else c for c, b in zip(elem, bits))
        for tail in ENUM_TAILS:
            for pos in ("mid", "end"):
                content = ("var a=1;" if which == "js" else ".a{}") + "</" + word + tail + ("b();" if pos == "mid" else "")
                for entry in entries:
                    case = {"part": "asset", which: content}
                    if entry != "render":
                        case["entry"] = entry
                    yield case


# ===========================================================================
# harness self-test (independent of the library): the oracles' own round trips
# ===========================================================================


def self_test():
    from django.utils.html import escape

    errs = []
    for v in ['a"b\'c<d>e&f g\th\ni &amp; "><script>', "", " ", "\n", "&#34", "&gt", " 　", "x/", "=", "`", "日本\U0001f600", "&amp;amp;", "</x>"]:
        ev = html_events('<x a="%s" b>' % escape(v))
        if ev != [("start", "x", [("a", v), ("b", None)])]:
            errs.append("html.parser round trip of %r gave %r" % (v, ev))
    for n in REALISTIC_NAMES + ["é@:.-#_9", NONASCII_L]:
        ev = html_events('<x %s="1" %s2>' % (n, n))
        if ev != [("start", "x", [(n, "1"), (n + "2", None)])]:
            errs.append("html.parser name round trip of %r gave %r" % (n, ev))
    for c, want in [("a</script>b", True), ("a</SCRIPT >b", True), ("a</script/>", True), ("a</scriptx>", False), ("a</script", False), ("</ script>", False), ("<\\/script>", False)]:
        if terminates(c, "script") != want:
            errs.append("terminates(%r) != %r" % (c, want))
    els, rest = raw_text_elements("<p><script>a<b</script ><style x>c</STYLE>d</p>")
    if [e[:3] for e in els] != [("script", "", "a<b"), ("style", " x", "c")] or rest != "<p>d</p>":
        errs.append("raw_text_elements self-test: %r %r" % (els, rest))
    return errs


# ===========================================================================
# runner API
# ===========================================================================


# coverage-guided stage (atheris drives these Hypothesis shards, see vf/run.py): {tier: {shard kind: (shards, executions)}}
CG = {'quick': {'attrs': (1, 500)}, 'thorough': {'attrs': (6, 15000), 'slot': (4, 12000), 'asset': (2, 15000)}}


def plan(tier, seed, scale=1.0):
    b = BOUNDS[tier]
    specs = []
    if tier == "quick":
        na, ns, nc = 16, 8, 4
    else:
        na, ns, nc = 144, 72, 24
    n = max(na, int(b["attrs"] * scale))
    for sh in range(na):
        specs.append({"kind": "attrs", "n": -(-n // na), "seed": derive_seed(seed, "attrs", sh), "selftest": sh == 0})
    n = max(ns, int(b["slot"] * scale))
    for sh in range(ns):
        specs.append({"kind": "slot", "n": -(-n // ns), "seed": derive_seed(seed, "slot", sh)})
    n = max(2 * nc, int(b["asset"] * scale))
    for which in ("js", "css"):
        for sh in range(nc):
            specs.append({"kind": "asset", "which": which, "n": -(-n // (2 * nc)), "seed": derive_seed(seed, "asset", which, sh)})
    entries = ["render"] if tier == "quick" else ["render", "template", "response"]
    for which in ("js", "css"):
        for entry in entries:
            specs.append({"kind": "asset_enum", "which": which, "entries": [entry]})
    # interleave the parts (all cores get a mix; the evidence samples come from all parts); enumerations first (longest)
    by_kind = {}
    for sp in specs:
        by_kind.setdefault(sp["kind"], []).append(sp)
    out = by_kind.pop("asset_enum", [])
    queues = [by_kind[k] for k in ("attrs", "slot", "asset") if k in by_kind]
    while any(queues):
        for q in queues:
            if q:
                out.append(q.pop(0))
    return out


def check(case, col=None):
    part = case["part"]
    if part == "attrs":
        return attrs_check(case, col)
    if part == "slot":
        return slot_check(case, col)
    if part == "asset":
        return asset_check(case, col)
    raise ValueError(part)


def run_shard(spec):
    col = Collector()
    kind = spec["kind"]
    if spec.get("selftest"):
        for e in self_test():
            col.error("oracle self-test failed: " + e)
        if col.errors:
            return col
    if kind == "asset_enum":
        nfail = 0
        for case in asset_enum(spec["which"], spec["entries"]):
            for m, bk in asset_check(case, col):
                fid = attribute(case, m, bk)
                col.fail(case, m, bk, finding=fid)
                nfail += 1
            col.count("C:enumerated")
            if nfail > 400:
                break
        col.exhaustive = nfail <= 400
        env.reset()
        col.nt_samples = col.nt_samples[:1]
        return col
    if kind == "attrs":
        strat = attrs_strategy()
    elif kind == "slot":
        strat = slot_strategy()
    elif kind == "asset":
        strat = asset_strategy(spec["which"])
    else:
        raise ValueError(kind)
    hyp_search(strat, lambda case: check(case, col), col, max_examples=spec["n"], seed=spec["seed"], attribute=attribute)
    env.reset()
    # one sample per shard, so that the merged evidence shows samples of every part
    col.nt_samples = col.nt_samples[-1:]
    col.samples = col.samples[:1]
    return col


def replay(case):
    try:
        return check(case, None)
    finally:
        env.reset()


def attribute(case, message, bucket):
    """Known-finding attribution by structural predicate on the case (only ids active in known_findings.json)."""
    active = known_active(PROP)
    if not active:
        return None
    part = case.get("part")
    if "C13-D1" in active and part == "asset" and bucket.startswith("asset-endtag-emitted") and bucket.endswith(":non-lower-case"):
        # end-tag guard of wrap_component_js/css is case-sensitive: applies only when no lower-case look-alike is present
        js, css = case.get("js") or "", case.get("css") or ""
        if "</script" not in js and "</style" not in css:
            return "C13-D1"
    if part == "attrs" and ("C13-D2" in active or "C13-D3" in active):
        try:
            names = attrs_model(case)[2]["kw_names"]
        except OutOfDomain:
            return None
        if "C13-D2" in active and bucket.startswith("attrs-exc:TypeError") and "multiple values for argument" in message:
            # an extra keyword named like a Python parameter of HtmlAttrsNode.render()
            if any(("argument '%s'" % n) in message for n in RENDER_PARAM_NAMES if n in names):
                return "C13-D2"
        if "C13-D3" in active and _d3_pattern(names):
            # merge_repeated_kwargs indexes the output list with input positions: IndexError, a spurious
            # "multiple values" TypeError, or a silently dropped / unmerged keyword
            if bucket.startswith(("attrs-exc:IndexError", "attrs-exc:TypeError", "attrs-set-differs", "attrs-value-differs:appended")):
                return "C13-D3"
    return None


def _d3_pattern(kw_names):
    """True iff some repeated keyword first occurs after a repeat occurrence of another keyword (the only situation in
    which merge_repeated_kwargs uses a stale index)."""
    seen, dropped_before = set(), 0
    first_shifted = set()
    for n in kw_names:
        if n in seen:
            if n in first_shifted:
                return True
            dropped_before += 1
        else:
            seen.add(n)
            if dropped_before:
                first_shifted.add(n)
    return False
