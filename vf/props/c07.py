"""C07 — concurrent renders in different threads do not interfere.

2-3 tasks (PG renders with/without providers, failing renders, first compilation through a small
template cache, first access of a fresh class hierarchy's media, first parse of component tags) run in
real threads under the owned cooperative scheduler (vf/sched.py): pre-emption only at lines of
django-components that touch process-global state, at the points a generated schedule names.
Oracle: every task's result equals its solo result; no residue after join; LRU structure intact.
"""
import copy
import os
import sys

from hypothesis import strategies as st

from vf import env, sched
from vf.core import Collector, derive_seed, exc_bucket, hyp_search, jhash, known_active, normalize_ids
from vf.gen import pg, pgrun, pgstrat

PROP = "C07"
LEVEL = "exploration"
RULE = (
    "Task sets of 2-3 tasks drawn from: PG program render (with providers/inject), PG render with an injected failure, render of a page with asset-carrying components followed by "
    "render_dependencies (document / fragment), first compilation + render of inline "
    "templates through a template cache of size 1-2, first access of .media/.js/.css on a fresh class hierarchy, first compilation of templates with component tags; "
    "schedules = (a) every single pre-emption point k (exhaustive over the baseline's yield points; in the quick tier the longest every-line pair takes every third point, residue chosen by the seed) for fixed task pairs incl. ONE component instance rendered by both threads, (b) Hypothesis-generated lists of <=4 pre-emptions, "
    "(c) PCT-style priority schedules with <=3 priority change points. Yield points = lines of django-components touching process-global state (vf/sched.py: names of module-level mutable objects and `global` declarations found in the syntax tree of the code under test, plus KEYWORDS for attribute-held state, plus all of util/cache.py). "
    "Oracle: each task's normalised result (output / exception type+message) equals its solo result; after join all six registries are empty and the template LRU's linked list agrees with its dict. "
    "Non-trivial = the executed schedule contains >=1 effective switch between two tasks that both visited a common global-state line; distinct by (task set, schedule)."
)
ASSUMPTIONS = [
    "only schedule points inside django-components are used; Django's own caches are lock-protected and not pre-empted",
    "a scheduled run is a deterministic function of (tasks, schedule): one thread runs at a time (baton); checked by repeating failing cases",
    "watchdog aborts (a task blocked on a real lock held by a parked thread) are inconclusive, never violations",
    "context_behavior and template_cache_size are process-wide settings, fixed per case",
]
BOUNDS = {"quick": {"hyp": 480, "single_pairs": 18, "double_pairs": 3}, "thorough": {"hyp": 40000, "single_pairs": 30, "double_pairs": 5}}
CFG = {"provide": True, "inject": True, "errors": False, "isfilled": False, "max_nodes": 3, "max_comps": 2, "max_depth": 2, "provide_weight": 3, "inject_pct": 70, "ticks": True, "hooks": False, "elems": True, "idecho": True}

CFG_ASSETS = {"assets": True, "errors": False, "isfilled": False, "max_nodes": 3, "max_comps": 3, "max_depth": 2, "elems": True}
SRCS = ["A{{ v }}", "B{% if v %}{{ v }}{% endif %}", "C{{ v|upper }}", "D{% for i in v %}{{ i }}{% endfor %}", "E"]


def prefix_program(prog, prefix):
    p = copy.deepcopy(prog)
    ren = {c["name"]: prefix + c["name"] for c in p["comps"]}
    for c in p["comps"]:
        c["name"] = ren[c["name"]]
        if c.get("clsname"):
            c["clsname"] = "%s_%s" % (c["clsname"], prefix)  # two classes with one import path are ONE class for the library
        if c.get("base") in ren:
            c["base"] = ren[c["base"]]
    for n in list(pgstrat.walk(p["page"]["tpl"])) + [n for c in p["comps"] for n in pgstrat.walk(c["tpl"])]:
        if n["t"] == "comp":
            n["name"] = ren.get(n["name"], n["name"])
    return p


class FailAt:
    def __init__(self, at):
        self.n = 0
        self.at = at

    def __call__(self, label):
        self.n += 1
        if self.n == self.at:
            raise ValueError("injected-%d" % self.at)


def build_tasks(case):
    """Register everything (single-threaded) and return one callable per task."""
    from django.template import Context, Template

    from django_components import Component, cached_template, registry

    tasks = []
    built = {}
    for i, t in enumerate(case["tasks"]):
        kind = t["t"]
        if kind in ("render", "fail"):
            prog = prefix_program(t["program"], "t%d" % i)
            rec = pg.Recorder(5000)
            classes, src = pg.build(prog, rec, name_prefix="t%d" % i)
            ctx = dict(prog["page"]["ctx"])
            if kind == "fail":
                rec.tick = FailAt(t["at"])

            def run(src=src, ctx=ctx, rec=rec):
                from vf import vf_tags

                vf_tags.TICK["fn"] = None  # tag/filter ticks are process-global: only gcd/inject ticks are used here
                out = Template(src).render(Context(dict(ctx)))
                return normalize_ids(out)  # ids kept (renamed by first appearance): a lost / foreign data-djc-id attribute is a difference, sorted(map(tuple, rec.injected))

            tasks.append(run)
        elif kind == "sharedinst":
            # ONE component instance rendered by both tasks (what Component.as_view() does with the instance it creates)
            if ("inst",) not in built:

                class Shared(Component):
                    template = '<b data-echo="{{ myid }}">{{ v }}|{{ seen }}|{{ again }}</b>'

                    def get_context_data(self, v=""):
                        return {"v": v, "seen": self.input.kwargs["v"], "myid": self.id}

                    def on_render_before(self, context, template):
                        context["again"] = self.input.kwargs["v"]

                built[("inst",)] = Shared()

            def run(x=t["x"], inst=built[("inst",)]):
                return normalize_ids(inst.render(kwargs={"v": x}, render_dependencies=False))

            tasks.append(run)
        elif kind == "dynexpr":
            # both tasks render ONE cached Template whose component tag has a nested-template argument
            if "vf_dx" not in registry.all():
                registry.register("vf_dx", type("VfDx", (Component,), {"template": "[{{ val }}|{{ n }}]", "get_context_data": lambda self, val="", n=0: {"val": val, "n": n}}))

            def run(x=t["x"]):
                tpl = cached_template('{% component "vf_dx" val="{{ x }}!" n=x|length / %}')
                return normalize_ids(tpl.render(Context({"x": x})))

            tasks.append(run)
        elif kind == "sharedtpl":
            # both tasks render ONE compiled Template (as a cached loader hands it out) whose component tag has a body that
            # reads variables of the caller's context; each thread has its own Context
            if "vf_box" not in registry.all():
                registry.register("vf_box", type("VfBox", (Component,), {"template": "<u>{% slot 's' default %}d{% endslot %}|{{ own }}</u>", "get_context_data": lambda self, own="": {"own": own}}))

            def run(x=t["x"]):
                tpl = cached_template('{% with y=x %}{% component "vf_box" own=x %}{{ x }}-{{ y }}{% endcomponent %}{% endwith %}')
                return normalize_ids(tpl.render(Context({"x": x})))

            tasks.append(run)
        elif kind == "deps":
            # render + dependency post-processing (render_dependencies), components with inline and Media assets
            shared = t.get("shared")
            if shared and ("deps", shared) in built:
                prog, classes, src = built[("deps", shared)]  # the SAME classes in both tasks (first .media access races)
            else:
                prog = prefix_program(t["program"], shared or "t%d" % i)
                rec = pg.Recorder(5000)
                classes, src = pg.build(prog, rec, name_prefix=shared or "t%d" % i)
                if shared:
                    built[("deps", shared)] = (prog, classes, src)
            ctx = dict(prog["page"]["ctx"])

            def run(src=src, ctx=ctx, typ=t.get("type", "document")):
                from django_components import render_dependencies
                from vf import vf_tags

                vf_tags.TICK["fn"] = None
                out = Template("<html><head></head><body>" + src + "</body></html>").render(Context(dict(ctx)))
                return normalize_ids(render_dependencies(out, typ))

            tasks.append(run)
        elif kind == "compile":

            def run(idx=tuple(t["srcs"]), i=i):
                outs = []
                for j in idx:
                    tpl = cached_template(SRCS[j] + "<%d>" % (j % 2))
                    outs.append(tpl.render(Context({"v": "xy"})))
                return outs

            tasks.append(run)
        elif kind == "media":
            shape = t["shape"]

            class A(Component):
                template = "a"
                js = "/*a%d*/" % i

                class Media:
                    js = ["m%d.js" % i, "shared.js"]
                    css = ["s%d.css" % i]

            A.__module__ = "vfgen.t%d" % i
            A.__qualname__ = A.__name__ = "MA%d" % i
            cls = A
            for d in range(shape):
                cls = type("MB%d_%d" % (i, d), (cls,), {"template": "b%d" % d, "Media": type("Media", (), {"js": ["x%d_%d.js" % (i, d)], "css": {"print": ["p%d.css" % d]}})})

            def run(cls=cls):
                m = cls.media
                return [list(m._js), sorted((k, tuple(v)) for k, v in m._css.items()), cls.js, cls().media._js == m._js]

            tasks.append(run)
        elif kind == "filecomp":
            # a component whose template / js / css come from files; the SAME class is used by every filecomp task
            # of the case (first resolution of a shared class from several threads)
            name = "fc_shared"
            try:
                cls = registry.get(name)
            except Exception:
                env.write_file("fc_shared/fc.html", "<div>{{ v }}-file</div>", kind="components")
                env.write_file("fc_shared/fc.js", "console.log('fc')", kind="components")
                env.write_file("fc_shared/fc.css", ".fc{}", kind="components")

                class FC(Component):
                    template_file = "fc_shared/fc.html"
                    js_file = "fc_shared/fc.js"
                    css_file = "fc_shared/fc.css"

                    def get_context_data(self, v=None):
                        return {"v": v}

                FC.__module__ = "vfgen.shared"
                if "vfgen.shared" not in sys.modules:
                    # the media resolution looks the class's module up; a file-less module means "paths relative to COMPONENTS.dirs"
                    import types as _types

                    _m = _types.ModuleType("vfgen.shared")
                    _m.__file__ = None
                    sys.modules["vfgen.shared"] = _m
                registry.register(name, FC)
                cls = FC

            def run(i=i, how=t.get("how", 0), cls=cls):
                if how == 0:
                    out = Template("{% component 'fc_shared' v='x' / %}").render(Context({}))
                elif how == 1:
                    out = cls.render(kwargs={"v": "x"}, render_dependencies=False)
                else:
                    return [cls.js, cls.css, cls.template is not None, list(cls.media._js)]
                return normalize_ids(out)  # ids kept (renamed by first appearance): a lost / foreign data-djc-id attribute is a difference

            tasks.append(run)
        elif kind == "parsetag":

            class P(Component):
                template = "<p>{{ v }}{% slot 's' default %}d{% endslot %}</p>"

                def get_context_data(self, v=None):
                    return {"v": v}

            P.__module__ = "vfgen.t%d" % i
            P.__qualname__ = P.__name__ = "PT%d" % i
            registry.register("pt%d" % i, P)

            def run(i=i, n=t.get("n", 2)):
                outs = []
                for j in range(n):
                    tpl = Template("{%% component 'pt%d' v='%d' %%}f%d{%% endcomponent %%}{%% component 'pt%d' / %%}" % (i, j, j, i))
                    outs.append(normalize_ids(tpl.render(Context({}))))
                return outs

            tasks.append(run)
        else:
            raise ValueError(kind)
    return tasks


def norm_result(r):
    if r is None:
        return ("none",)
    if r[0] == "ok":
        return ("ok", repr(r[1]))
    e = r[1]
    import re

    return ("exc", type(e).__name__, re.sub(r"\ba[0-9a-z]{5}\b", "ID", str(e))[:300])


def lru_errors():
    import django_components.cache as djc_cache

    c = djc_cache.template_cache
    if c is None:
        return []
    fwd, node, guard = [], c.head.next, 0
    while node is not None and node is not c.tail and guard < 1000:
        fwd.append(node.key)
        node = node.next
        guard += 1
    errs = []
    if node is not c.tail:
        errs.append("template LRU: forward walk does not reach the tail (cycle / broken link) after %d nodes" % guard)
    elif set(map(repr, fwd)) != set(map(repr, c.cache.keys())) or len(fwd) != len(c.cache):
        errs.append("template LRU: list has %d nodes, dict has %d keys" % (len(fwd), len(c.cache)))
    if c.maxsize is not None and len(c.cache) > c.maxsize:
        errs.append("template LRU: %d entries > maxsize %r" % (len(c.cache), c.maxsize))
    return errs


class _real_ids:
    """For cases with "realids": the library's own id generator runs (the harness normally replaces it by a counter), fed
    by a deterministic byte source instead of os.urandom so that a run stays a function of the case and the schedule."""

    def __init__(self, case):
        self.on = bool(case.get("realids"))

    def __enter__(self):
        if self.on:
            import hashlib
            import itertools

            import django_components.util.nanoid as nanoid

            counter = itertools.count(1)
            self._orig = nanoid.urandom
            nanoid.urandom = lambda n: (hashlib.sha256(b"%d" % next(counter)).digest() * (n // 32 + 1))[:n]
            env.patch_ids(False)

    def __exit__(self, *a):
        if self.on:
            import django_components.util.nanoid as nanoid

            nanoid.urandom = self._orig
            env.patch_ids(True)
        return False


def run_case(case, schedule, points, keep_trace=False):
    """Returns (results, scheduler) of one scheduled run from a fresh library state."""
    env.reset()
    with _real_ids(case), env.components_settings(context_behavior=case["mode"], template_cache_size=case.get("cache_size", 2)), sched.coop_locks():
        tasks = build_tasks(case)
        s = sched.Scheduler(tasks, schedule, points)
        s.keep_trace = keep_trace
        results = s.run()
        residue = {k: v for k, v in env.registry_sizes().items() if v}
        lru = lru_errors()
    return [norm_result(r) for r in results], s, residue, lru


MUST_SUCCEED_ALONE = {"filecomp", "deps", "media", "parsetag", "dynexpr", "sharedinst", "sharedtpl"}


def solo_results(case):
    out = []
    for i in range(len(case["tasks"])):
        env.reset()
        with _real_ids(case), env.components_settings(context_behavior=case["mode"], template_cache_size=case.get("cache_size", 2)):
            tasks = build_tasks(case)
            try:
                r = ("ok", tasks[i]())
            except Exception as e:  # noqa
                r = ("exc", e)
                if case["tasks"][i]["t"] in MUST_SUCCEED_ALONE:
                    # these hand-built task kinds render fine alone; an exception here means the HARNESS is broken and the pair
                    # would compare two identical failures (that is how the file-based pairs once were vacuous): exit 2
                    raise RuntimeError("harness: solo run of task kind %r raised %r" % (case["tasks"][i]["t"], e))
        out.append(norm_result(r))
    env.reset()
    return out


def judge(case, schedule, solos, points, col=None, label="hyp"):
    results, s, residue, lru = run_case(case, schedule, points)
    fails = []
    if s.deadlock:
        if col is not None:
            col.case(None, False, labels=("inconclusive:watchdog",))
        return fails, s
    for i, (got, want) in enumerate(zip(results, solos)):
        if got != want:
            kind = case["tasks"][i]["t"]
            other = [t["t"] for j, t in enumerate(case["tasks"]) if j != i]
            what = "exc:" + got[1] if got[0] == "exc" else "output"
            fails.append(("task #%d (%s) under schedule %r with %r:\n solo:      %r\n scheduled: %r\n switches: %r" % (i, kind, schedule, other, want, got, s.switches[:6]), "c07-differs:%s:%s" % (kind, what)))
    if residue:
        fails.append(("registries not empty after all tasks finished under schedule %r: %r" % (schedule, residue), "c07-residue:" + ",".join(sorted(residue))))
    for e in lru:
        fails.append((e + " under schedule %r" % (schedule,), "c07-lru-corrupt"))
    if col is not None:
        eff = [(a, b) for (_k, a, b, _w) in s.switches]
        nt = any(s.touched[a] & s.touched[b] for a, b in eff)
        labels = [label, "tasks:" + "+".join(sorted(t["t"] for t in case["tasks"])), "switches:%d" % min(len(eff), 4)]
        col.case(jhash([case, schedule]), nt, sample={"tasks": [t["t"] for t in case["tasks"]], "mode": case["mode"], "schedule": schedule, "switches": s.switches[:5], "yield_points": s.k} if nt and len(eff) >= 1 and s.k % 5 == 0 else None, labels=labels)
    return fails, s


def _points(case=None):
    if case is not None and case.get("yield") == "all":
        return sched.all_lines(env.SRC, case.get("yield_files"))
    return sched.yield_points(env.SRC)


def attribute(case, message, bucket):
    return None


# ---------------------------------------------------------------------------


def check_hyp(case, col=None):
    points = _points()
    solos = solo_results(case)
    # baseline: number of yield points without pre-emption
    _r, s0, _res, _l = run_case(case, {"kind": "preempt", "points": []}, points)
    K = max(1, s0.k)
    sch = case["schedule"]
    if sch["kind"] == "preempt":
        schedule = {"kind": "preempt", "points": sorted([[1 + (f * (K - 1)) // 9999, t] for f, t in sch["points"]])}
    else:
        schedule = {"kind": "prio", "prios": sch["prios"], "changes": sorted([[1 + (f * (K - 1)) // 9999, t] for f, t in sch["changes"]])}
    fails, _s = judge(case, schedule, solos, points, col, label="hyp:" + sch["kind"])
    return fails


def check_single(case, col=None):
    """Exhaustive single pre-emption: for every yield point k of the baseline, switch to the other task at k."""
    points = _points(case)
    solos = solo_results(case)
    _r, s0, _res, _l = run_case(case, {"kind": "preempt", "points": []}, points)
    K = s0.k
    fails = []
    lo, hi = case.get("k_range", [1, K])
    stride, offset = case.get("k_stride", [1, 0])
    n_enum = 0
    for k in range(lo, min(hi, K) + 1):
        if k % stride != offset:
            continue
        n_enum += 1
        for t in range(1, len(case["tasks"])):
            f, _s = judge(case, {"kind": "preempt", "points": [[k, t]]}, solos, points, col, label="single")
            for m, b in f:
                if b not in [x[1] for x in fails]:
                    fails.append((m, b))
    if col is not None:
        col.count("single_preemption_points_enumerated", n_enum)
    return fails


def check_double(case, col=None):
    """Two pre-emptions (task 0 -> task 1 -> task 0), both at yield points inside the files named by case["focus"],
    enumerated exhaustively: k1 over task 0's focus yields, k2 over task 1's focus yields."""
    points = _points()
    solos = solo_results(case)
    _r, s0, _res, _l = run_case(case, {"kind": "preempt", "points": []}, points, keep_trace=True)
    focus = tuple(case.get("focus") or ["provide.py"])
    y0 = [k for k, (tid, w) in enumerate(s0.trace, 1) if tid == 0 and w.startswith(focus)]
    K0 = sum(1 for tid, _w in s0.trace if tid == 0)
    y1 = [k - K0 for k, (tid, w) in enumerate(s0.trace, 1) if tid == 1 and w.startswith(focus)]
    lo, hi = case.get("k_range", [0, len(y0)])
    fails = []
    n = 0
    for k1 in y0[lo:hi]:
        for j in y1:
            n += 1
            f, _s = judge(case, {"kind": "preempt", "points": [[k1, 1], [k1 + j, 0]]}, solos, points, col, label="double")
            for m, b in f:
                if b not in [x[1] for x in fails]:
                    fails.append((m, b))
    if col is not None:
        col.count("double_preemption_schedules_enumerated", n)
    return fails


@st.composite
def task(draw):
    r = draw(st.integers(0, 9))
    if r < 1:
        return {"t": "deps", "program": draw(pgstrat.programs(CFG_ASSETS)), "type": draw(st.sampled_from(["document", "fragment"]))}
    if r < 4:
        return {"t": "render", "program": draw(pgstrat.programs(CFG))}
    if r < 6:
        return {"t": "fail", "program": draw(pgstrat.programs(CFG)), "at": draw(st.integers(1, 4))}
    if r < 8:
        return {"t": "compile", "srcs": draw(st.lists(st.integers(0, draw(st.integers(1, len(SRCS) - 1))), min_size=2, max_size=6))}
    if r < 9:
        if draw(st.booleans()):
            return {"t": "filecomp", "how": draw(st.integers(0, 2))}
        return {"t": "media", "shape": draw(st.integers(0, 2))}
    return {"t": "parsetag", "n": draw(st.integers(1, 2))}


@st.composite
def hyp_cases(draw):
    tasks = draw(st.lists(task(), min_size=2, max_size=3))
    n = len(tasks)
    if draw(st.integers(0, 9)) < 7:
        sch = {"kind": "preempt", "points": draw(st.lists(st.tuples(st.integers(0, 9999), st.integers(0, n - 1)).map(list), min_size=1, max_size=4))}
    else:
        sch = {"kind": "prio", "prios": draw(st.permutations(list(range(1, n + 1)))), "changes": draw(st.lists(st.tuples(st.integers(0, 9999), st.integers(0, n - 1)).map(list), min_size=0, max_size=3))}
    return {"kind": "hyp", "tasks": tasks, "mode": draw(st.sampled_from(["django", "isolated"])), "cache_size": draw(st.sampled_from([1, 2])), "schedule": sch}


T = lambda s: {"t": "text", "s": s}  # noqa: E731
_PROV = {
    "comps": [
        {"name": "c0", "params": [], "data": [["j1", ["inject", "pk1", "f1", "dfl"]]], "tpl": [T("A"), {"t": "var", "n": "j1"}, {"t": "comp", "name": "c1", "kwargs": {}, "only": False, "body": None}]},
        {"name": "c1", "params": [], "data": [["j2", ["inject", "pk1", "f1", None]]], "tpl": [T("B"), {"t": "var", "n": "j2"}]},
    ],
    "page": {"ctx": {"g": "q"}, "tpl": [{"t": "provide", "key": "pk1", "kwargs": {"f1": {"var": "g"}}, "c": [{"t": "comp", "name": "c0", "kwargs": {}, "only": False, "body": None}, {"t": "comp", "name": "c1", "kwargs": {}, "only": False, "body": None}]}]},
}
_PROV2 = {
    "comps": [
        {"name": "c0", "params": [], "data": [], "tpl": [T("W"), {"t": "provide", "key": "pk1", "kwargs": {"f1": {"lit": "in"}}, "c": [{"t": "comp", "name": "c1", "kwargs": {}, "only": False, "body": None}, {"t": "comp", "name": "c1", "kwargs": {}, "only": False, "body": None}]}]},
        {"name": "c1", "params": [], "data": [["j2", ["inject", "pk1", "f1", None]]], "tpl": [T("B"), {"t": "var", "n": "j2"}, {"t": "comp", "name": "c2", "kwargs": {}, "only": False, "body": None}]},
        {"name": "c2", "params": [], "data": [["j3", ["inject", "pk1", "f1", None]]], "tpl": [T("C"), {"t": "var", "n": "j3"}]},
    ],
    "page": {"ctx": {"g": "q"}, "tpl": [{"t": "comp", "name": "c0", "kwargs": {}, "only": False, "body": None}]},
}
E = lambda tag, m, c: {"t": "elem", "tag": tag, "m": m, "c": c, "idvar": "myid"}  # noqa: E731  (echoes Component.id as read in get_context_data)
_ID = [["myid", ["id"]]]
C = lambda name: {"t": "comp", "name": name, "kwargs": {}, "only": False, "body": None}  # noqa: E731
# root component whose root-level children are components (ids are handed from parent to child through a side table)
_ELEM = {
    "comps": [
        {"name": "c0", "params": [], "data": _ID, "tpl": [C("c1"), E("div", "e1", [T("r")]), C("c2"), C("c1")]},
        {"name": "c1", "params": [], "data": _ID, "tpl": [E("span", "e2", [T("x")]), C("c2")]},
        {"name": "c2", "params": [], "data": _ID, "tpl": [E("b", "e3", [T("y")])]},
    ],
    "page": {"ctx": {}, "tpl": [C("c0"), C("c2")]},
}
A_ = lambda name, tpl, **kw: dict({"name": name, "params": [], "data": [], "tpl": tpl}, **kw)  # noqa: E731
# two pages with different sets of asset-carrying components
_ASSETS1 = {
    "comps": [
        A_("c0", [T("A"), C("c1")], js="/*js_a0*/", css="/*css_a0*/", media={"js": ["a0.js", "shared.js"], "css": {"all": ["a0.css"]}}),
        A_("c1", [T("B")], js="/*js_a1*/", css=None, media={"js": ["a1.js"], "css": None}),
    ],
    "page": {"ctx": {}, "tpl": [C("c0"), C("c1")]},
}
_ASSETS2 = {
    "comps": [
        A_("c0", [T("X")], js=None, css="/*css_b0*/", media={"js": None, "css": {"print": ["b0.css"]}}),
        A_("c1", [T("Y"), C("c0")], js="/*js_b1*/", css="/*css_b1*/", media={"js": ["b1.js", "shared.js"], "css": None}),
        A_("c2", [T("Z")], js="/*js_b2*/", css=None, media=None),
    ],
    "page": {"ctx": {}, "tpl": [C("c2"), C("c1")]},
}
F = lambda name, c: {"t": "fill", "name": {"lit": name}, "c": c}  # noqa: E731
S = lambda name, c: {"t": "slot", "name": name, "data": {}, "c": c}  # noqa: E731


def _slots_prog(tag):
    """Fills and slot defaults whose texts name the task, so that content rendered for the other task shows."""
    return {
        "comps": [{"name": "c0", "params": [], "data": [], "tpl": [T("<"), S("a", [T("DA" + tag)]), T("|"), S("b", [T("DB" + tag)]), T(">")]}],
        "page": {
            "ctx": {"g": tag},
            "tpl": [
                {"t": "comp", "name": "c0", "kwargs": {}, "only": False, "body": {"kind": "fills", "c": [F("a", [T("FA" + tag), {"t": "var", "n": "g"}])]}},
                {"t": "comp", "name": "c0", "kwargs": {}, "only": False, "body": {"kind": "implicit", "c": [T("IMPL" + tag)]}},
                C("c0"),
            ],
        },
    }


# a class hierarchy with inherited Media, used by BOTH tasks of a pair (first access of .media happens concurrently)
_ASSETS_INH = {
    "comps": [
        A_("c0", [T("B")], js="/*js_i0*/", css="/*css_i0*/", media={"js": ["base.js"], "css": {"all": ["base.css"]}}),
        A_("c1", [T("S"), C("c0")], js="/*js_i1*/", css=None, media={"js": ["sub.js"], "css": {"print": ["sub.css"]}}, base="c0"),
        A_("c2", [T("L")], js=None, css="/*css_i2*/", media={"js": ["leaf.js"], "css": None}, base="c1"),
    ],
    "page": {"ctx": {}, "tpl": [C("c2"), C("c1")]},
}
DOUBLE_PAIRS = [
    {"tasks": [{"t": "fail", "program": _PROV2, "at": 3}, {"t": "render", "program": _PROV2}], "mode": "django", "cache_size": 2, "focus": ["provide.py"]},
    {"tasks": [{"t": "render", "program": _PROV2}, {"t": "fail", "program": _PROV2, "at": 2}], "mode": "isolated", "cache_size": 2, "focus": ["provide.py"]},
    {"tasks": [{"t": "sharedinst", "x": "A"}, {"t": "sharedinst", "x": "B"}], "mode": "django", "cache_size": 2, "focus": ["component.py"]},
    # thorough tier only (the quick tier takes the first three pairs)
    {"tasks": [{"t": "fail", "program": _PROV, "at": 2}, {"t": "render", "program": _PROV}], "mode": "django", "cache_size": 2, "focus": ["provide.py"]},
    {"tasks": [{"t": "render", "program": _PROV2}, {"t": "render", "program": _PROV}], "mode": "django", "cache_size": 2, "focus": ["provide.py", "component.py"]},
]
FIXED_PAIRS = [
    {"tasks": [{"t": "filecomp", "how": 0}, {"t": "filecomp", "how": 1}], "mode": "django", "cache_size": 2},
    {"tasks": [{"t": "deps", "program": _ASSETS1, "type": "document"}, {"t": "deps", "program": _ASSETS2, "type": "document"}], "mode": "django", "cache_size": 2},
    {"tasks": [{"t": "deps", "program": _ASSETS2, "type": "fragment"}, {"t": "deps", "program": _ASSETS1, "type": "document"}], "mode": "isolated", "cache_size": 2},
    # pre-emption before EVERY executed line of the named library files ("yield": "all") for three small pairs
    {"tasks": [{"t": "render", "program": _slots_prog("1")}, {"t": "render", "program": _slots_prog("2")}], "mode": "django", "cache_size": 2, "yield": "all", "yield_files": ["slots.py", "template.py"]},
    {"tasks": [{"t": "deps", "program": _ASSETS_INH, "shared": "sh", "type": "document"}, {"t": "deps", "program": _ASSETS_INH, "shared": "sh", "type": "document"}], "mode": "django", "cache_size": 2, "yield": "all", "yield_files": ["component_media.py"]},
    {"tasks": [{"t": "dynexpr", "x": "Aa"}, {"t": "dynexpr", "x": "B"}], "mode": "django", "cache_size": 2, "yield": "all", "yield_files": ["util/tag_parser.py", "expression.py", "util/template_tag.py"]},
    {"tasks": [{"t": "sharedinst", "x": "A"}, {"t": "sharedinst", "x": "B"}], "mode": "django", "cache_size": 2, "yield": "all", "yield_files": ["component.py"]},
    {"tasks": [{"t": "sharedtpl", "x": "A"}, {"t": "sharedtpl", "x": "B"}], "mode": "isolated", "cache_size": 2, "yield": "all", "yield_files": ["component.py"]},
    # the library's OWN id generator (normally replaced by a counter): a pre-emption before every executed line of it
    {"tasks": [{"t": "render", "program": _ELEM}, {"t": "render", "program": _ELEM}], "mode": "django", "cache_size": 2, "realids": True, "yield": "all", "yield_files": ["util/nanoid.py"]},
    # first use of ONE file-based class (template_file / js_file / css_file) by both threads, every line of the media resolution
    {"tasks": [{"t": "filecomp", "how": 0}, {"t": "filecomp", "how": 1}], "mode": "django", "cache_size": 2, "yield": "all", "yield_files": ["component_media.py"]},
    {"tasks": [{"t": "render", "program": _ELEM}, {"t": "render", "program": _ELEM}], "mode": "django", "cache_size": 2},
    {"tasks": [{"t": "render", "program": _ELEM}, {"t": "fail", "program": _ELEM, "at": 3}], "mode": "isolated", "cache_size": 2},
    {"tasks": [{"t": "compile", "srcs": [0, 0, 0, 0]}, {"t": "compile", "srcs": [1, 2, 1, 3]}], "mode": "django", "cache_size": 1},
    {"tasks": [{"t": "compile", "srcs": [0, 1, 0, 1, 0]}, {"t": "compile", "srcs": [2, 3, 2]}], "mode": "django", "cache_size": 2},
    {"tasks": [{"t": "filecomp", "how": 2}, {"t": "filecomp", "how": 0}], "mode": "isolated", "cache_size": 2},
    {"tasks": [{"t": "render", "program": _PROV}, {"t": "render", "program": _PROV}], "mode": "django", "cache_size": 2},
    {"tasks": [{"t": "render", "program": _PROV}, {"t": "fail", "program": _PROV, "at": 2}], "mode": "isolated", "cache_size": 2},
    {"tasks": [{"t": "compile", "srcs": [0, 1, 2, 0]}, {"t": "compile", "srcs": [2, 0, 3, 1]}], "mode": "django", "cache_size": 1},
    {"tasks": [{"t": "compile", "srcs": [0, 1, 0]}, {"t": "render", "program": _PROV}], "mode": "django", "cache_size": 2},
    {"tasks": [{"t": "media", "shape": 2}, {"t": "media", "shape": 1}], "mode": "django", "cache_size": 2},
    {"tasks": [{"t": "parsetag", "n": 2}, {"t": "parsetag", "n": 2}], "mode": "django", "cache_size": 2},
    {"tasks": [{"t": "fail", "program": _PROV, "at": 1}, {"t": "fail", "program": _PROV, "at": 3}], "mode": "django", "cache_size": 2},
    {"tasks": [{"t": "render", "program": _PROV}, {"t": "parsetag", "n": 1}], "mode": "isolated", "cache_size": 1},
    {"tasks": [{"t": "compile", "srcs": [0, 1, 2, 3, 4]}, {"t": "compile", "srcs": [4, 3, 2, 1, 0]}], "mode": "django", "cache_size": 2},
    {"tasks": [{"t": "render", "program": _PROV}, {"t": "media", "shape": 2}], "mode": "django", "cache_size": 2},
    {"tasks": [{"t": "fail", "program": _PROV, "at": 2}, {"t": "compile", "srcs": [0, 1, 0, 2]}], "mode": "isolated", "cache_size": 1},
    {"tasks": [{"t": "render", "program": _PROV}, {"t": "render", "program": _PROV}], "mode": "isolated", "cache_size": 1},
    # thorough tier only: the three small pairs again with a pre-emption before every executed line of EVERY library file
    {"tasks": [{"t": "render", "program": _slots_prog("1")}, {"t": "render", "program": _slots_prog("2")}], "mode": "isolated", "cache_size": 2, "yield": "all"},
    {"tasks": [{"t": "deps", "program": _ASSETS_INH, "shared": "sh", "type": "document"}, {"t": "deps", "program": _ASSETS_INH, "shared": "sh", "type": "fragment"}], "mode": "django", "cache_size": 2, "yield": "all"},
    {"tasks": [{"t": "dynexpr", "x": "Aa"}, {"t": "dynexpr", "x": "B"}], "mode": "django", "cache_size": 1, "yield": "all"},
]


QUICK_STRIDES = {5: 3}  # index in FIXED_PAIRS -> stride of the every-line enumeration in the quick tier (dynexpr, file-based class)


def plan(tier, seed, scale=1.0):
    b = BOUNDS[tier]
    specs = []
    for pi in range(b["single_pairs"]):
        # split the k range of each pair over 4 shards (16 when every line is a yield point)
        parts = 16 if FIXED_PAIRS[pi].get("yield") == "all" else 4
        # quick tier: the longest every-line pair (nested-template arguments, ~8000 points) takes every third point, the
        # residue class chosen by the seed; the thorough tier takes them all
        stride = QUICK_STRIDES.get(pi, 1) if tier == "quick" else 1
        for part in range(parts):
            specs.append({"kind": "single", "pair": pi, "part": part, "parts": parts, "stride": stride, "offset": seed % stride})
    for pi in range(b.get("double_pairs", 2)):
        for part in range(4):
            specs.append({"kind": "double", "pair": pi, "part": part, "parts": 4})
    n = max(16, int(b["hyp"] * scale))
    shards = 16 if tier == "quick" else 48
    for sh in range(shards):
        specs.append({"kind": "hyp", "n": max(1, n // shards), "seed": derive_seed(seed, "c07", sh)})
    return specs


def run_shard(spec):
    col = Collector()
    if spec["kind"] == "single":
        case = dict(FIXED_PAIRS[spec["pair"]], kind="single")
        points = _points(case)
        _r, s0, _res, _l = run_case(case, {"kind": "preempt", "points": []}, points)
        K = s0.k
        per = (K + spec["parts"] - 1) // spec["parts"]
        lo = 1 + spec["part"] * per
        hi = min(K, lo + per - 1)
        case["k_range"] = [lo, hi]
        if spec.get("stride", 1) > 1:
            case["k_stride"] = [spec["stride"], spec.get("offset", 0)]
        for m, bk in check_single(case, col):
            col.fail(case, m, bk)
        col.exhaustive = spec.get("stride", 1) == 1
        return col
    if spec["kind"] == "double":
        case = dict(DOUBLE_PAIRS[spec["pair"]], kind="double")
        points = _points()
        _r, s0, _res, _l = run_case(case, {"kind": "preempt", "points": []}, points, keep_trace=True)
        focus = tuple(case["focus"])
        n0 = sum(1 for tid, w in s0.trace if tid == 0 and w.startswith(focus))
        per = (n0 + spec["parts"] - 1) // spec["parts"]
        case["k_range"] = [spec["part"] * per, min(n0, (spec["part"] + 1) * per)]
        for m, bk in check_double(case, col):
            col.fail(case, m, bk)
        col.exhaustive = True
        return col
    return hyp_search(hyp_cases(), lambda case: check_hyp(case, col), col, max_examples=spec["n"], seed=spec["seed"], shrink=False, attribute=attribute)


def replay(case):
    if case.get("kind") == "single":
        return check_single(case)
    if case.get("kind") == "double":
        return check_double(case)
    return check_hyp(case)
