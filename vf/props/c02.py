"""C02 -- tag arguments reach Python with exactly the values they denote.

Cases are TG argument ASTs (vf/gen/tagargs.py) + a generated context + layout tapes.  Every AST is printed
in 8 layouts (tight, single-spaced, 6 generated) and handed to three receivers:

  comp   {% component "probe" ... %}   registered Component, default formatter (split_contents + re-join)
  short  {% sprobe ... %}             Component on a registry with component_shorthand_formatter
  node   {% tgprobe ... %}            @template_tag(*args, **kwargs) BaseNode (direct parse_tag)

Oracle: recorded (args, kwargs, flags) == value computed by the TG evaluator (leaves through the stock
FilterExpression, containers/spreads by Python semantics, aggregates by a single split) for every layout and
receiver (=> layouts agree, receivers agree); documented-invalid constructs => TemplateSyntaxError when the
template is compiled.
"""
import re

from vf import env
from vf.core import Collector, derive_seed, exc_bucket, hyp_search, jhash, known_active
from vf.gen import tagargs as tg

PROP = "C02"
LEVEL = "exploration"
RULE = (
    "Hypothesis-generated argument ASTs of the documented grammar (positional / keyword / flag / top-level `...` "
    "spread; leaves: int, float, strings in both quote styles incl. embedded/escaped quotes, variables with "
    "attribute/index/callable lookups, filter chains with arguments, `_()` translation strings, nested-template "
    "strings with {{ }} / {% %} / {# #} parts; lists with `*` and dicts with `**` spreads of variables and literals, "
    "nested <= 4; aggregate `prefix:key=` and special-character keys) x generated context x 8 layouts (tight, "
    "single-spaced, 6 generated tapes choosing whitespace runs of space/tab/newline at every insignificant "
    "position, quote flips, trailing commas, self-closing slash vs end tag) x 3 receivers (component tag and BaseNode "
    "tag on all 8 layouts, shorthand-formatter component tag on 4 of them). A second class injects "
    "exactly one documented-invalid construct and expects TemplateSyntaxError at compile time in every layout. "
    "Non-trivial = AST contains a container, spread, filter with argument or nested-template string AND its layouts "
    "give >= 2 different texts outside quotes; distinct by hash of the AST."
)
ASSUMPTIONS = [
    "no keyword collisions between spreads, explicit kwargs and aggregate prefixes (docs say right-most wins, code follows Python; C11 owns it)",
    "positional values and list spreads precede keywords / dict spreads (Python call rule, enforced by the library)",
    "top-level `...[literal]` / `...{literal}` not generated (docstring contradicts itself)",
    "no newline / backslash / own-quote inside nested-template strings; nested-template strings carry no filter and are not filter arguments or translation strings",
    "whitespace inside quotes is never changed; quote style flipped only when the content has no quote or backslash",
    "single-node nested-template strings pass the raw object, multi-node ones the rendered string (comments and empty text are no nodes)",
    "no keyword with a leading colon; dicts spread at top level have no ':' in their keys",
    "whitespace alphabet is space/tab/newline; no whitespace around `=` or after `...`",
    "dict keys in literals are hashable scalars without filter arguments (documented: `:` ends the key)",
    "if the stock FilterExpression itself raises for a leaf (e.g. missing variable as filter argument) every layout/receiver must raise the same exception type at render time",
    "context_behavior=django, default autoescape; flag vocabulary common to all receivers is {only}",
]
BOUNDS = {
    "quick": {"valid_asts": 3000, "invalid_asts": 600, "layouts_per_ast": 8, "receivers": 3, "max_depth": 4, "shrink_cap": 150},
    "thorough": {"valid_asts": 150000, "invalid_asts": 30000, "layouts_per_ast": 8, "receivers": 3, "max_depth": 4, "shrink_cap": 1000},
}

RECEIVERS = [
    ("comp", 'component "probe"', "endcomponent"),
    ("short", "sprobe", "endsprobe"),
    ("node", "tgprobe", "endtgprobe"),
]
COMPONENT_PATH = {"comp", "short"}
HEADS = {r[0]: (r[1], r[2]) for r in RECEIVERS}
SHORT_LAYOUTS = {0, 1, 3, 6}  # layouts on which the shorthand-formatter receiver runs as well

_state = {}
REC = []


def _setup():
    """Register the receivers once per process (idempotent)."""
    from django_components import Component, ComponentRegistry, RegistrySettings, registry
    from django_components.node import template_tag

    if _state.get("ready") and "probe" in registry.all():
        return
    env.reset()
    lib = tg.install_library()

    class TgProbe(Component):
        template = "[{{ tg_outer }}]"

        def get_context_data(self, *args, **kwargs):
            REC.append((args, kwargs, None))
            return {}

    class TgProbeShort(TgProbe):
        pass

    registry.register("probe", TgProbe)
    if "reg2" not in _state:
        reg2 = ComponentRegistry(
            library=lib,
            settings=RegistrySettings(tag_formatter="django_components.component_shorthand_formatter"),
        )
        reg2.register("sprobe", TgProbeShort)
        _state["reg2"] = reg2

        @template_tag(lib, tag="tgprobe", end_tag="endtgprobe", allowed_flags=list(tg.FLAGS))
        def tgprobe(node, context, *args, **kwargs):
            REC.append((args, kwargs, {k for k, v in node.flags.items() if v}))
            return ""

    _state["parser"] = tg.make_parser()
    from django.template import Template

    _state["blank"] = Template("")
    _state["ready"] = True


_OUT_RE = re.compile(r"\[(OUT)?\]")


def perturbed_ctx(j):
    """The same context with every string leaf changed (types, shapes, keys and numbers kept)."""
    if isinstance(j, str):
        return j + "Z"
    if isinstance(j, list):
        return [perturbed_ctx(v) for v in j]
    if isinstance(j, dict):
        return {k: perturbed_ctx(v) for k, v in j.items()}
    return j


def run_source(src, ctx_json, then_ctx=None):
    """Compile + render one tag; -> outcome tuple. then_ctx: render the SAME compiled template a second time with that
    context and return the outcome of the second render (a node must not remember what it resolved before)."""
    from django.template import Context, Template, TemplateSyntaxError

    del REC[:]
    try:
        tpl = Template(src)
    except TemplateSyntaxError as e:
        return ("compile-TSE", str(e)[:200])
    except (KeyboardInterrupt, SystemExit):
        raise
    except BaseException as e:  # noqa
        return ("compile-exc", type(e).__name__, exc_bucket(e), repr(e)[:200])
    try:
        out = tpl.render(Context(tg.build_context(ctx_json)))
        if then_ctx is not None:
            del REC[:]
            out = tpl.render(Context(tg.build_context(then_ctx)))
    except (KeyboardInterrupt, SystemExit):
        raise
    except BaseException as e:  # noqa
        return ("render-exc", type(e).__name__, exc_bucket(e), repr(e)[:300])
    if len(REC) != 1:
        return ("records", len(REC))
    args, kwargs, flags = REC[0]
    if flags is None:  # component: the `only` flag shows as isolation from the outer context
        m = _OUT_RE.search(out)
        if not m:
            return ("no-marker", out[:100])
        flags = set() if m.group(1) else {"only"}
    return ("ok", tg.canon_call(args, kwargs, flags))


def expected_outcome(case):
    from django.template import Context

    parser = _state["parser"]
    ctx = Context(tg.build_context(case["ctx"]))
    try:
        # a bound template is what gives stock lookups their `string_if_invalid`
        with ctx.bind_template(_state["blank"]):
            pos, kw, flags = tg.evaluate(case["ast"], parser, ctx)
    except (KeyboardInterrupt, SystemExit):
        raise
    except Exception as e:  # stock Django itself raises for one of the leaves
        if isinstance(e, ValueError) and "outside the domain" in str(e):
            raise
        return ("raises", type(e).__name__)
    return ("ok", tg.canon_call(pos, kw, flags))


def _matches(exp, got):
    if exp[0] == "ok":
        return got == exp
    return got[0] == "render-exc" and got[1] == exp[1]


def _brief(o):
    s = repr(o)
    return s if len(s) < 700 else s[:700] + "..."


def _variant_ok(case, ast2, tape, rname, tight=False):
    """Does a repaired variant of the case (same context, same layout tape, same receiver) meet ITS expectation?
    Used only to decide which defect class a failure belongs to."""
    case2 = dict(case, ast=ast2)
    invalid = tg.invalid_reasons(ast2)
    r = tg.render_args(ast2, tape, tight_spread_literal=tight)
    head, endtag = HEADS[rname]
    src = "{% " + head + r["text"] + "%}" + ("" if r["slash"] else "{% " + endtag + " %}")
    got = run_source(src, case["ctx"])
    if invalid:
        return got[0] == "compile-TSE"
    return _matches(expected_outcome(case2), got)


CLASS_BUCKET = {
    "D1": "D1:ws-spread-literal",
    "D3": "D3:top-level-spread-with-filter",
    "D4": "D4:string-ends-in-escaped-backslash",
}
CLASS_HINT = {
    "D1": "passes without the whitespace between `*`/`**` and the literal list/dict",
    "D3": "passes without the filter on the top-level `...` spread",
    "D4": "passes once the string no longer ends in an escaped backslash",
}


def _defect_class(case, ast, tape, rname, got, notes, d3, d4):
    """Which known defect class explains this failing (layout, receiver)?  A class applies when its structural
    predicate holds AND the case repaired for that class (same context / tape / receiver) meets its own
    expectation; if several predicates hold and only the jointly repaired case passes, the first one is named."""
    cands = []
    if d4:
        cands.append("D4")
    if d3:
        cands.append("D3")
    if "ws_between_spread_and_literal" in notes:  # usually a compile-time TSE, sometimes a mis-parse that fails later
        cands.append("D1")
    if not cands:
        return None

    def repaired(classes):
        a = ast
        if "D4" in classes:
            a = tg.with_padded_backslash_strings(a)
        if "D3" in classes:
            a = tg.without_top_spread_filters(a)
        return _variant_ok(case, a, tape, rname, tight="D1" in classes)

    for c in cands:
        if repaired([c]):
            return c, CLASS_HINT[c]
    if len(cands) > 1 and repaired(cands):
        return cands[0], "together with %s: passes only when all of them are avoided" % "+".join(cands[1:])
    return None


def check_case(case):
    """-> (general failures, predicate-class failures, info). Each failure is (message, bucket)."""
    _setup()
    if case.get("kind") == "texts":
        return _check_texts(case)
    ast = case["ast"]
    invalid = tg.invalid_reasons(ast)
    if (case.get("kind") == "invalid") != bool(invalid):
        raise RuntimeError("case kind %r but invalid_reasons=%r" % (case.get("kind"), invalid))
    exp = None if invalid else expected_outcome(case)
    general, special = [], []
    skeletons = set()
    notes = set()
    results = {}
    contents = {}  # what Token.contents holds for the start tag
    layouts = []
    tapes = tg.all_tapes(case)
    d3 = tg.has_top_spread_filter(ast)
    d4 = tg.has_str_ending_in_escaped_backslash(ast)
    # a keyword named like render()'s own parameters (context=..., self=...) is an ordinary input of a component; on a tag
    # defined with @template_tag / BaseNode it collides with the function's parameters as in Python (C11 owns that)
    render_param_kw = any(a.get("t") == "kw" and a.get("k") in tg.RENDER_PARAM_KEYS for a in ast.get("attrs", []))
    for li, tape in enumerate(tapes):
        r = tg.render_args(ast, tape)
        layouts.append(r)
        skeletons.add(r["skeleton"])
        notes |= r["notes"]
        for rname, head, endtag in RECEIVERS:
            if rname == "short" and li not in SHORT_LAYOUTS:
                continue  # same code path as `comp` apart from the formatter: half of the layouts is enough
            if render_param_kw and rname not in COMPONENT_PATH:
                continue
            src = "{% " + head + r["text"] + "%}"
            if not r["slash"]:
                src += "{% " + endtag + " %}"
            contents[(li, rname)] = (head + r["text"]).strip()
            results[(li, rname)] = (src, run_source(src, case["ctx"]))
    for (li, rname), (src, got) in results.items():
        r = layouts[li]
        if invalid:
            if got[0] == "compile-TSE":
                continue
            if got[0] == "compile-exc" and got[1] == "StopIteration" and rname in COMPONENT_PATH and tg.split_contents_breaks(contents[(li, rname)]):
                special.append(("D2 %s: %r raised StopIteration from split_contents" % (rname, src), "D2:split-contents-translation"))
                continue
            dc = _defect_class(case, ast, tapes[li], rname, got, r["notes"], d3, d4)
            if dc:
                special.append(("%s %s: documented-invalid %r -> %s (%s)" % (dc[0], rname, src, _brief(got), dc[1]), CLASS_BUCKET[dc[0]]))
                continue
            general.append(
                (
                    "documented-invalid (%s) accepted or wrong error on %s: %r -> %s" % (",".join(invalid), rname, src, _brief(got)),
                    "invalid-not-TSE:%s:%s" % (invalid[0], got[0]),
                )
            )
            continue
        if _matches(exp, got):
            continue
        # --- classify: known defect classes by structural predicate of the case / layout ------------
        if got[0] == "compile-exc" and got[1] == "StopIteration" and rname in COMPONENT_PATH and tg.split_contents_breaks(contents[(li, rname)]):
            special.append(
                ("D2 %s: %r raised StopIteration from split_contents; node receiver: %s" % (rname, src, _brief(results.get((li, "node"), ("", "-"))[1])), "D2:split-contents-translation")
            )
            continue
        dc = _defect_class(case, ast, tapes[li], rname, got, r["notes"], d3, d4)
        if dc:
            special.append(("%s %s: %r -> %s, expected %s (%s)" % (dc[0], rname, src, _brief(got), _brief(exp), dc[1]), CLASS_BUCKET[dc[0]]))
            continue
        kind = got[0] if got[0] == "ok" else "%s:%s" % (got[0], got[2] if len(got) > 2 and got[0].endswith("exc") else "")
        if _matches(exp, results[(0, rname)][1]):
            bucket = "layout-variance:%s:%s" % (rname if rname == "node" else "component-path", kind)
            msg = "layout changes the result on %s: %r -> %s but tight layout %r -> expected %s" % (rname, src, _brief(got), results[(0, rname)][0], _brief(exp))
        elif (li, "node") in results and _matches(exp, results[(li, "node")][1]):
            bucket = "receiver-disagree:%s" % kind
            msg = "%s receiver differs from BaseNode receiver: %r -> %s, expected (and node got) %s" % (rname, src, _brief(got), _brief(exp))
        else:
            bucket = "value-mismatch:%s" % kind
            msg = "%s: %r -> %s, expected %s" % (rname, src, _brief(got), _brief(exp))
        general.append((msg, bucket))
    # one compiled template, two renders with different contexts: the second call must get the second context's values
    if not invalid and exp[0] == "ok" and not general and not special:
        ctx2 = perturbed_ctx(case["ctx"])
        if ctx2 != case["ctx"]:
            try:
                exp2 = expected_outcome(dict(case, ctx=ctx2))
            except ValueError:
                exp2 = None  # the perturbed context leaves the evaluator's domain: not judged
            if exp2 is not None and exp2[0] == "ok":
                for rname in ("comp", "node"):
                    if (0, rname) not in results:
                        continue
                    src = results[(0, rname)][0]
                    got2 = run_source(src, case["ctx"], then_ctx=ctx2)
                    if not _matches(exp2, got2):
                        general.append(("%s: second render of the same compiled template %r with another context -> %s, expected %s (first render was right)" % (rname, src, _brief(got2), _brief(exp2)), "second-render-mismatch:%s" % got2[0]))
    info = {
        "invalid": invalid,
        "skeletons": len(skeletons),
        "notes": notes,
        "exp_kind": exp[0] if exp else "TSE",
        "src0": results[(0, "comp")][0],
        "src_other": results.get((len(layouts) - 1, "node"), results[(len(layouts) - 1, "comp")])[0],
        "exp": exp,
    }
    return general, special, info


def _check_texts(case):
    """Readable regression form: argument texts that are spellings of ONE call; all of them must give the same
    recording on all receivers.  `bucket` names the defect class the witness was saved for."""
    fails = []
    ref = None
    bucket = case.get("bucket") or "texts"
    for text in case["texts"]:
        for rname, head, endtag in RECEIVERS:
            src = "{% " + head + " " + text + " %}{% " + endtag + " %}"
            got = run_source(src, case.get("ctx", {}))
            if ref is None and got[0] == "ok":
                ref = (src, got)
            elif ref is None or got != ref[1]:
                fails.append(("%s: %r -> %s, but %s" % (rname, src, _brief(got), "%r -> %s" % (ref[0], _brief(ref[1])) if ref else "no reference spelling worked"), bucket))
    return fails, [], {"invalid": [], "skeletons": len(case["texts"]), "notes": set(), "exp_kind": "ok", "src0": "", "src_other": "", "exp": None}


# ---------------------------------------------------------------------------


def attribute(case, message, bucket):
    known = known_active(PROP)
    if not known or not bucket:
        return None
    if bucket.startswith("D1:") and "C02-D1" in known:
        return "C02-D1"
    if bucket.startswith("D2:") and "C02-D2" in known:
        return "C02-D2"
    if bucket.startswith("D3:") and "C02-D3" in known:
        return "C02-D3"
    if bucket.startswith("D4:") and "C02-D4" in known:
        return "C02-D4"
    return None


# coverage-guided stage (atheris drives these Hypothesis shards, see vf/run.py): {tier: {shard kind: (shards, executions)}}
CG = {'thorough': {'valid': (8, 2000), 'invalid': (4, 3000)}}


def plan(tier, seed, scale=1.0):
    b = BOUNDS[tier]
    nv = max(24, int(b["valid_asts"] * scale))
    ni = max(8, int(b["invalid_asts"] * scale))
    specs = []
    k = 1 if tier == "quick" else 4  # more, smaller Hypothesis shards in the thorough tier (bounded memory per shard)
    for sh in range(24 * k):
        specs.append({"kind": "valid", "n": -(-nv // (24 * k)), "seed": derive_seed(seed, "valid", sh), "depth": (2, 3, 3)[sh % 3], "shrink_cap": b["shrink_cap"]})
    for sh in range(8 * k):
        focus = ("value", "value", "kw", "top", None, "value", "kw", None)[sh % 8]
        specs.append({"kind": "invalid", "n": -(-ni // (8 * k)), "seed": derive_seed(seed, "invalid", sh), "focus": focus, "shrink_cap": b["shrink_cap"]})
    return specs


def _case_size(case):
    import json

    return len(json.dumps(case, default=repr))


def run_shard(spec):
    _setup()
    col = Collector()
    invalid = spec["kind"] == "invalid"
    strat = tg.case_strategy(invalid=invalid, depth=spec.get("depth", 3), focus=spec.get("focus"))
    best_special = {}

    # Shrinking is capped (DESIGN 1.6): after the first unattributed failure at most `shrink_cap` further
    # cases are evaluated; later ones are answered "pass" without running (verdicts already given are
    # repeated from a cache, so Hypothesis' final replay of its best example stays consistent).
    cap = spec.get("shrink_cap", 150)
    shrink = {"on": False, "steps": 0}
    verdicts = {}

    def check(case):
        if shrink["on"]:
            h = jhash(case)
            if h in verdicts:
                return verdicts[h]
            shrink["steps"] += 1
            if shrink["steps"] > cap:
                return []
        general = _check(case)
        if general:
            shrink["on"] = True
            verdicts[jhash(case)] = general
        return general

    def _check(case):
        general, special, info = check_case(case)
        ast = case["ast"]
        feats = tg.features(ast)
        nt = bool(feats & {"container", "spread", "filter_arg", "tpl"}) and info["skeletons"] >= 2
        labels = ["class:" + case["kind"], "expected:" + info["exp_kind"]]
        labels += ["ast:" + f for f in sorted(feats)]
        labels += ["layout:" + n for n in sorted(info["notes"])]
        labels += ["invalid:" + r for r in sorted(set(info["invalid"]))]
        sample = None
        if nt and len(col.nt_samples) < 6:
            sample = {"tight": info["src0"], "other_layout": info["src_other"], "expected": _brief(info["exp"]) if info["exp"] else "TemplateSyntaxError"}
        col.case(jhash(ast), nt, sample=sample, labels=labels)
        done = set()
        for message, bucket in special:
            if bucket in done:
                continue
            done.add(bucket)  # one attribution per defect class and generated case
            fid = attribute(case, message, bucket)
            if fid:
                col.fail(case, message, bucket, finding=fid)
                continue
            col.count("defect-class-hit:" + bucket)
            cur = best_special.get(bucket)
            size = _case_size(case)
            if cur is None or size < cur[0]:
                best_special[bucket] = (size, case, message)
        return general

    hyp_search(strat, check, col, max_examples=spec["n"], seed=spec["seed"], attribute=attribute)
    for bucket, (_, case, message) in sorted(best_special.items()):
        col.fail(case, message, bucket)
    return col


def replay(case):
    general, special, _ = check_case(case)
    seen = set()
    out = []
    for message, bucket in general + special:
        if bucket in seen:
            continue
        seen.add(bucket)
        out.append((message, bucket))
    return out
