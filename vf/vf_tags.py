"""Template library available to generated templates as {% load vf_tags %}."""
from django import template

register = template.Library()

# global tick hook (C06 fault injection); set by the harness
TICK = {"fn": None}


def tick(label):
    fn = TICK["fn"]
    if fn is not None:
        fn(label)


@register.filter
def vf_tick(value, label="f"):
    tick("filter:%s" % label)
    return value


@register.simple_tag
def vf_ticktag(label="t"):
    tick("tag:%s" % label)
    return ""


@register.filter
def vf_wrap(value, arg="x"):
    return "%s<%s>" % (arg, value)


@register.simple_tag
def vf_echo(*args, **kwargs):
    return "E(%s|%s)" % (",".join(map(str, args)), ",".join("%s=%s" % kv for kv in sorted(kwargs.items())))


@register.simple_tag(takes_context=True)
def vf_ctxget(context, name):
    return str(context.get(name, ""))
