"""Shared machinery: per-shard collector, Hypothesis driver, failure records."""
import hashlib
import json
import os
import traceback
from collections import Counter

MAX_SAMPLES = 6


def jhash(obj):
    try:
        s = json.dumps(obj, sort_keys=True, default=repr, ensure_ascii=True)
    except Exception:
        s = repr(obj)
    return hashlib.md5(s.encode("utf-8", "backslashreplace")).hexdigest()[:16]


class Failure(dict):
    """A failing case: {'case':…, 'message':…, 'bucket':…, 'finding': id or None}."""


class Collector:
    def __init__(self):
        self.evaluations = 0
        self.nontrivial = set()
        self.samples = []
        self.nt_samples = []
        self.counters = Counter()
        self.failures = []  # list[Failure] not attributed to a known finding
        self.known_hits = Counter()  # finding id -> number of generated cases attributed
        self.known_examples = {}
        self.notes = []
        self.exhaustive = None
        self.errors = []  # harness errors (exit 2)

    # -- recording -----------------------------------------------------
    def case(self, key, nontrivial, sample=None, labels=()):
        self.evaluations += 1
        for lb in labels:
            self.counters[lb] += 1
        if nontrivial:
            h = key if isinstance(key, str) and len(key) == 16 else jhash(key)
            if h not in self.nontrivial:
                self.nontrivial.add(h)
                if sample is not None and len(self.nt_samples) < MAX_SAMPLES:
                    self.nt_samples.append(sample)
        elif sample is not None and len(self.samples) < 2:
            self.samples.append(sample)

    def count(self, label, n=1):
        self.counters[label] += n

    def fail(self, case, message, bucket=None, finding=None):
        if finding:
            self.known_hits[finding] += 1
            self.known_examples.setdefault(finding, {"case": case, "message": message[:600]})
            return
        self.failures.append(Failure(case=case, message=message, bucket=bucket or message[:80]))

    def error(self, msg):
        self.errors.append(msg)

    # -- merging -------------------------------------------------------
    def merge(self, other):
        self.evaluations += other.evaluations
        self.nontrivial |= other.nontrivial
        for s in other.samples:
            if len(self.samples) < 2:
                self.samples.append(s)
        for s in other.nt_samples:
            if len(self.nt_samples) < MAX_SAMPLES:
                self.nt_samples.append(s)
        self.counters.update(other.counters)
        self.failures.extend(other.failures)
        self.known_hits.update(other.known_hits)
        for k, v in other.known_examples.items():
            self.known_examples.setdefault(k, v)
        self.notes.extend(n for n in other.notes if n not in self.notes)
        self.errors.extend(other.errors)
        if other.exhaustive is not None:
            self.exhaustive = other.exhaustive if self.exhaustive is None else (self.exhaustive and other.exhaustive)
        return self


class Violation(AssertionError):
    pass


def derive_seed(seed, *parts):
    h = hashlib.md5(("%s|%s" % (seed, "|".join(map(str, parts)))).encode()).hexdigest()
    return int(h[:12], 16)


def hyp_search(strategy, check, col, *, max_examples, seed, shrink=True, attribute=None, stateful_steps=None, post_min=None):
    """Drive `check(case) -> list[(message, bucket)]` with Hypothesis.

    Failures attributed to a known finding (attribute(case, message, bucket) -> id) are counted
    and the search continues; the first unattributed failure is shrunk (if `shrink`) and recorded.
    `check` is responsible for calling col.case(...).
    """
    import hypothesis
    from hypothesis import HealthCheck, Phase, given, settings

    phases = [Phase.generate, Phase.target]
    if shrink:
        phases.append(Phase.shrink)
    last = {}

    @hypothesis.seed(seed)
    @settings(
        max_examples=max_examples,
        database=None,
        deadline=None,
        derandomize=False,
        report_multiple_bugs=False,
        phases=phases,
        suppress_health_check=[HealthCheck.too_slow, HealthCheck.data_too_large],
        print_blob=False,
    )
    @given(strategy)
    def t(case):
        last["case"] = case
        fails = check(case) or []
        for message, bucket in fails:
            fid = attribute(case, message, bucket) if attribute else None
            if fid:
                col.fail(case, message, bucket, finding=fid)
                continue
            last["f"] = (case, message, bucket)
            raise Violation(message)

    if CG and not CG.get("used"):  # one coverage-guided search per process (libFuzzer's driver cannot be re-entered)
        CG["used"] = True
        return _cg_drive(t, last, col, check, attribute, post_min)
    try:
        t()
    except Violation:
        case, message, bucket = last["f"]
        if post_min is not None:
            # bounded structural minimisation: keep the reduced case only if it still fails in the same bucket
            def still(c, _b=bucket):
                return any(b == _b and not (attribute and attribute(c, m, b)) for m, b in (check(c) or []))

            try:
                small = post_min(case, still)
                msgs = [(m, b) for m, b in (check(small) or []) if b == bucket]
                if msgs:
                    case, message = small, msgs[0][0]
            except Exception:
                pass
        col.fail(case, message, bucket)
    except hypothesis.errors.Flaky as e:  # non-deterministic oracle: harness problem, not a verdict
        if "f" in last:
            case, message, bucket = last["f"]
            col.fail(case, "FLAKY(under shrinking) " + message, bucket)
        else:
            col.error("hypothesis flaky: %r" % (e,))
    except hypothesis.errors.FailedHealthCheck as e:
        col.error("hypothesis health check: %s" % (e,))
    except Exception:
        tb = traceback.format_exc()
        # keep the END of the traceback (exception type) and the case that was being checked
        where = ""
        try:
            import json, os, tempfile

            d = os.path.join(os.environ.get("VF_ERRDIR") or os.path.join(os.path.dirname(os.path.dirname(os.path.abspath(__file__))), "replays", "_harness_errors"))
            os.makedirs(d, exist_ok=True)
            fd, path = tempfile.mkstemp(prefix="case_", suffix=".json", dir=d)
            with os.fdopen(fd, "w") as fh:
                json.dump({"case": last.get("case"), "traceback": tb[-6000:]}, fh, default=repr)
            where = " [case saved: %s]" % path
        except Exception:  # noqa
            pass
        col.error("harness exception%s: ...%s" % (where, tb[-2500:]))
    return col


CG = None  # set by fuzz/cg_shard.py: {"runs", "seed", "max_len", "workdir"} -> hyp_search is driven by atheris


def _patch_bytestring_provider():
    """Hypothesis 6.168's BytestringProvider.draw_integer draws `bits` bits and rejects until the RAW value lies in
    [min_value, max_value] - it never adds min_value, so integers(2, 3) (one bit: 0 or 1) can never be produced and every
    buffer overruns. The harness replaces the method by the offset form (same byte consumption)."""
    from hypothesis.internal.conjecture.providers import BytestringProvider

    if getattr(BytestringProvider, "_vf_patched", False):
        return

    def draw_integer(self, min_value=None, max_value=None, *, weights=None, shrink_towards=0):
        if min_value is None and max_value is None:
            min_value, max_value = -(2**127), 2**127 - 1
        elif min_value is None:
            min_value = max_value - 2**64
        elif max_value is None:
            max_value = min_value + 2**64
        if min_value == max_value:
            return min_value
        bits = (max_value - min_value).bit_length()
        value = min_value + self._draw_bits(bits)
        while value > max_value:
            value = min_value + self._draw_bits(bits)
        return value

    BytestringProvider.draw_integer = draw_integer
    BytestringProvider._vf_patched = True


def _cg_drive(t, last, col, check, attribute, post_min):
    """Coverage-guided variant of the search: libFuzzer (atheris) supplies the byte strings from which Hypothesis
    builds the cases (`fuzz_one_input`), keeping those that reach new coverage in the instrumented library.
    A failing case is recorded once per bucket and the search continues."""
    import sys
    import threading
    import time

    cfg = CG
    _patch_bytestring_provider()
    fuzz_one = t.hypothesis.fuzz_one_input
    runs = cfg["runs"]
    state = {"n": 0, "valid": 0, "err": None}
    muted = set()
    done = threading.Event()
    evals0 = col.evaluations

    def one(data):
        if done.is_set():
            while True:
                time.sleep(3600)
        state["n"] += 1
        before = col.evaluations
        try:
            fuzz_one(data)
        except Violation:
            case, message, bucket = last["f"]
            if bucket not in muted:
                muted.add(bucket)
                if post_min is not None:
                    try:
                        small = post_min(case, lambda c, _b=bucket: any(b == _b and not (attribute and attribute(c, m, b)) for m, b in (check(c) or [])))
                        msgs = [(m, b) for m, b in (check(small) or []) if b == bucket]
                        if msgs:
                            case, message = small, msgs[0][0]
                    except Exception:
                        pass
                col.fail(case, "[coverage-guided] " + message, bucket)
        except BaseException:  # noqa - harness problem, never a verdict
            if state["err"] is None:
                state["err"] = traceback.format_exc()[-2500:]
                col.error("coverage-guided stage: harness exception: ...%s" % state["err"])
            done.set()
            return
        if col.evaluations > before:
            state["valid"] += 1
        if state["n"] >= runs:
            done.set()

    corpus = os.path.join(cfg["workdir"], "corpus")
    os.makedirs(corpus, exist_ok=True)
    # starting corpus: the empty input plus a few pseudo-random byte strings derived from the shard seed (so that the first
    # generated cases are not all minimal); everything after that is libFuzzer's mutation of what reached new coverage
    for i in range(cfg.get("seeds", 12)):
        blob, want = b"", (48, 128, 320, 800)[i % 4]
        k = 0
        while len(blob) < want:
            blob += hashlib.sha256(("%s|%s|%s" % (cfg["seed"], i, k)).encode()).digest()
            k += 1
        with open(os.path.join(corpus, "seed%02d" % i), "wb") as fh:
            fh.write(blob[:want])
    argv = [sys.argv[0], "-runs=-1", "-seed=%d" % cfg["seed"], "-max_len=%d" % cfg["max_len"], "-len_control=0", "-timeout=600", "-rss_limit_mb=0",
            "-artifact_prefix=" + os.path.join(cfg["workdir"], "art-"), corpus]

    # libFuzzer's driver installs signal handlers and never returns: it runs in the MAIN thread (fuzz/cg_shard.py), this
    # function runs in the shard thread and waits until the last execution has been made
    cfg["handoff"].put((argv, one))
    done.wait()
    col.count("cg_execs", state["n"])
    col.count("cg_execs_reaching_the_oracle", state["valid"])
    col.count("cg_corpus_entries", len(os.listdir(corpus)))
    col.notes.append("coverage-guided stage (atheris/libFuzzer driving the check's Hypothesis strategy through fuzz_one_input, library byte-code instrumented) ran")
    return col


def guarded(fn, *args, **kw):
    """Run fn; return (value, None) or (None, exc)."""
    try:
        return fn(*args, **kw), None
    except BaseException as e:  # noqa
        if isinstance(e, (KeyboardInterrupt, SystemExit)):
            raise
        return None, e


def exc_bucket(e):
    """(type, innermost django_components frame) bucketing key."""
    tb = e.__traceback__
    frame = None
    while tb is not None:
        fn = tb.tb_frame.f_code.co_filename
        if "django_components" in fn:
            frame = "%s:%s" % (os.path.basename(fn), tb.tb_frame.f_code.co_name)
        tb = tb.tb_next
    return "%s@%s" % (type(e).__name__, frame)


import re as _re

_ID_RE = _re.compile(r'(data-djc-id-|djc-render-id="|_RENDERED [^,>]*,|data-echo=")(\w{6})(?![\w])')


def normalize_ids(s):
    """Rename render ids by order of first appearance (outputs never depend on concrete ids)."""
    mapping = {}

    def sub(m):
        i = m.group(2)
        if i not in mapping:
            mapping[i] = "ID%03d" % (len(mapping) + 1)
        return m.group(1) + mapping[i]

    return _ID_RE.sub(sub, s)


_known_cache = {}


def known_active(prop):
    """ids of findings listed (status 'known') for `prop` in /verif/known_findings.json (read-only)."""
    if prop not in _known_cache:
        path = os.path.join(os.path.dirname(os.path.dirname(os.path.abspath(__file__))), "known_findings.json")
        try:
            with open(path) as f:
                data = json.load(f)
        except Exception:
            data = {}
        _known_cache[prop] = {f["id"] for f in data.get("findings", []) if f.get("property") == prop and f.get("status", "known") == "known"}
    return _known_cache[prop]
