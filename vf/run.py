"""CLI:  python -m vf.run --prop C18 --tier quick [--replay FILE]

exit 0 = property held on everything explored (KNOWN-FINDING lines possible)
exit 1 = >=1 line `VIOLATION property=<id> replay=<path>`
exit 2 = harness error (never reported as a violation)
"""
import argparse
import glob
import importlib
import json
import multiprocessing
import os
import shutil
import sys
import time
import traceback

HERE = os.path.dirname(os.path.dirname(os.path.abspath(__file__)))


def _reexec_if_needed():
    if os.environ.get("PYTHONHASHSEED") != "0":
        env = dict(os.environ)
        env["PYTHONHASHSEED"] = "0"
        os.execve(sys.executable, [sys.executable, "-m", "vf.run"] + sys.argv[1:], env)


def load_known():
    path = os.path.join(HERE, "known_findings.json")
    if not os.path.exists(path):
        return {"findings": [], "fixed": []}
    with open(path) as f:
        return json.load(f)


_mod = None


def _init_worker(modname, needs_django):
    global _mod
    sys.path.insert(0, HERE) if HERE not in sys.path else None
    # keep workers quiet and deterministic
    import warnings

    warnings.filterwarnings("ignore")
    if needs_django:
        from vf import env

        env.setup()
    _mod = importlib.import_module(modname)


def _run_spec(spec):
    from vf.core import Collector

    try:
        if spec.get("kind") == "__regress__":
            col = Collector()
            for p in spec["paths"]:
                with open(p) as f:
                    rec = json.load(f)
                fails = _mod.replay(rec["case"]) or []
                col.count("regress_cases")
                for message, bucket in fails:
                    fid = None
                    if hasattr(_mod, "attribute"):
                        fid = _mod.attribute(rec["case"], message, bucket)
                    col.fail({"__regress__": os.path.relpath(p, HERE), "case": rec["case"]}, message, bucket, finding=fid)
            return col
        if spec.get("cg"):
            return _run_cg(spec)
        return _mod.run_shard(spec)
    except BaseException:  # noqa
        col = Collector()
        col.error("shard %r crashed:\n%s" % (spec.get("kind"), traceback.format_exc()))
        return col


def _run_cg(spec):
    """Coverage-guided variant of an ordinary Hypothesis shard (spec["cg"] = number of executions): fuzz/cg_shard.py in a
    subprocess (atheris instruments the library at import time and libFuzzer's driver never returns)."""
    import pickle
    import re
    import subprocess

    from vf import env
    from vf.core import Collector

    col = Collector()
    target = os.path.join(HERE, "fuzz", "cg_shard.py")
    deps = os.path.join(HERE, ".deps")
    probe = subprocess.run([sys.executable, "-c", "import sys; sys.path.insert(0, %r); import atheris" % deps], capture_output=True, text=True)
    if probe.returncode != 0 or not os.path.exists(target):
        col.notes.append("coverage-guided stage skipped: atheris does not import (%s)" % ((probe.stderr.strip().splitlines() or ["?"])[-1][:200]))
        return col
    work = os.path.join(env.scratch_base(), "cg_%d_%s" % (os.getpid(), spec.get("seed")))
    os.makedirs(work, exist_ok=True)
    try:
        with open(os.path.join(work, "spec.json"), "w") as f:
            json.dump(spec, f)
        out = os.path.join(work, "result.pickle")
        e = dict(os.environ, PYTHONHASHSEED="0", VF_SCRATCH=env.scratch_base())
        with open(os.path.join(work, "stderr"), "w") as errf:
            try:
                r = subprocess.run([sys.executable, target, _mod.__name__, os.path.join(work, "spec.json"), out], stdout=subprocess.DEVNULL, stderr=errf, env=e, cwd=HERE, timeout=spec.get("cg_timeout", 5400))
                rc = r.returncode
            except subprocess.TimeoutExpired:
                rc = "timeout"
        with open(os.path.join(work, "stderr"), errors="replace") as errf:
            err = errf.read()
        if not os.path.exists(out):
            col.error("coverage-guided shard %r produced no result (rc %s): ...%s" % (spec.get("kind"), rc, err[-1500:]))
            return col
        with open(out, "rb") as f:
            col = pickle.load(f)
        m = re.findall(r"cov: (\d+) ft: (\d+)", err)
        if m:
            col.count("cg_shards")
            col.count("cg_library_edges_covered_sum_over_shards", int(m[-1][0]))
            col.count("cg_libfuzzer_features_sum_over_shards", int(m[-1][1]))
        return col
    finally:
        shutil.rmtree(work, ignore_errors=True)


def main(argv=None):
    ap = argparse.ArgumentParser()
    ap.add_argument("--prop", required=True)
    ap.add_argument("--tier", default=os.environ.get("VERIF_TIER", "quick"), choices=["quick", "thorough"])
    ap.add_argument("--replay")
    ap.add_argument("--jobs", type=int, default=int(os.environ.get("VF_JOBS", "0")) or min(16, os.cpu_count() or 1))
    ap.add_argument("--scale", type=float, default=float(os.environ.get("VF_SCALE", "1")))
    args = ap.parse_args(argv)
    _reexec_if_needed()
    if HERE not in sys.path:
        sys.path.insert(0, HERE)
    os.chdir(HERE)
    try:
        seed = int(os.environ.get("VERIF_SEED", "1"))
    except ValueError:
        seed = 1
    prop = args.prop.upper()
    modname = "vf.props.%s" % prop.lower()
    t0 = time.time()

    from vf import env
    from vf.core import Collector

    base = env.scratch_base()
    try:
        try:
            mod = importlib.import_module(modname) if not getattr(sys.modules.get(modname), "PROP", None) else sys.modules[modname]
        except Exception:
            traceback.print_exc()
            print("HARNESS-ERROR cannot import %s" % modname)
            return 2
        needs_django = getattr(mod, "NEEDS_DJANGO", True)

        # ---------------- replay -----------------
        if args.replay:
            _init_worker(modname, needs_django)
            with open(args.replay) as f:
                rec = json.load(f)
            fails = _mod.replay(rec["case"]) or []
            bad = 0
            for message, bucket in fails:
                fid = _mod.attribute(rec["case"], message, bucket) if hasattr(_mod, "attribute") else None
                if fid:
                    print("KNOWN-FINDING: property=%s %s (%s)" % (prop, fid, message[:200]))
                else:
                    bad += 1
                    print("FAIL %s" % message)
            if bad:
                print("VIOLATION property=%s replay=%s" % (prop, args.replay))
                return 1
            print("OK replay held")
            return 0

        # ---------------- plan -------------------
        specs = list(mod.plan(args.tier, seed, args.scale))
        # coverage-guided stage: mod.CG = {tier: {spec kind: (shards, executions per shard)}} clones ordinary Hypothesis
        # shards of that kind; they run under atheris (see _run_cg / fuzz/cg_shard.py). VF_CG=0 switches the stage off.
        if os.environ.get("VF_CG", "1") != "0":
            from vf.core import derive_seed

            for kind, (nsh, execs) in sorted(getattr(mod, "CG", {}).get(args.tier, {}).items()):
                bases = [sp for sp in specs if sp.get("kind") == kind and not sp.get("cg")]
                for sh in range(nsh if bases else 0):
                    sp = dict(bases[sh % len(bases)])
                    sp.update(seed=derive_seed(seed, "cg", kind, sh), cg=max(50, int(execs * args.scale)))
                    specs.insert(0, sp)
        reg = sorted(glob.glob(os.path.join(HERE, "regress", prop, "*.json")))
        if reg:
            specs.insert(0, {"kind": "__regress__", "paths": reg})
        total = Collector()
        budget = getattr(mod, "WATCHDOG_S", {"quick": 1500, "thorough": 6 * 3600})[args.tier]
        jobs = max(1, min(args.jobs, len(specs)))
        ctx = multiprocessing.get_context("fork")
        pool = ctx.Pool(jobs, initializer=_init_worker, initargs=(modname, needs_django))
        try:
            it = pool.imap_unordered(_run_spec, specs, chunksize=1)
            done = 0
            while done < len(specs):
                left = budget - (time.time() - t0)
                try:
                    col = it.next(timeout=max(1.0, left))
                except multiprocessing.TimeoutError:
                    total.error("watchdog: %d of %d shards unfinished after %ds (inconclusive)" % (len(specs) - done, len(specs), budget))
                    break
                except StopIteration:
                    break
                except Exception as e:  # a shard's result could not be delivered (e.g. unpicklable sample): harness error, never a verdict
                    total.error("shard result lost: %r" % (e,))
                    done += 1
                    continue
                total.merge(col)
                done += 1
        finally:
            pool.terminate()
            pool.join()

        # ---------------- verdict ----------------
        known = load_known()
        known_desc = {f["id"]: f for f in known.get("findings", []) if f.get("property") == prop}
        for fid, n in sorted(total.known_hits.items()):
            what = known_desc.get(fid, {}).get("what", fid)
            print("KNOWN-FINDING: property=%s %s: %s [%d generated cases attributed]" % (prop, fid, what, n))

        viol = []
        seen = set()
        # runs against a scratch copy of the sources (VF_REPO: mutants) never overwrite the registered evidence / replays
        outdir = os.path.join(os.environ["VF_REPO"], "vf_out") if os.environ.get("VF_REPO") else HERE
        rdir = os.path.join(outdir, "replays", prop)
        for f in total.failures:
            if f["bucket"] in seen:
                continue
            seen.add(f["bucket"])
            case = f["case"]
            if isinstance(case, dict) and "__regress__" in case:
                path = os.path.join(HERE, case["__regress__"])
            else:
                os.makedirs(rdir, exist_ok=True)
                from vf.core import jhash

                path = os.path.join(rdir, "%s_%s.json" % (prop, jhash([case, f["bucket"]])))
                with open(path, "w") as fh:
                    json.dump({"property": prop, "seed": seed, "tier": args.tier, "bucket": f["bucket"], "message": f["message"], "case": case}, fh, indent=1, default=repr)
            viol.append(path)
            print("FAIL[%s] %s" % (f["bucket"], f["message"][:1500]))
            print("VIOLATION property=%s replay=%s" % (prop, path))

        wall = time.time() - t0
        samples = (total.nt_samples + total.samples)[:8] or ["<no sample recorded>"]
        cov = {
            "evaluations": total.evaluations,
            "distinct_nontrivial": len(total.nontrivial),
            "rule": getattr(mod, "RULE", ""),
            "samples": samples,
            "distribution": dict(sorted(total.counters.items())),
            "shards": len(specs),
            "known_findings_hit": {k: {"cases": v, "example": total.known_examples.get(k)} for k, v in total.known_hits.items()},
            "distinct_violation_buckets": len(viol),
        }
        if total.exhaustive is not None:
            cov["exhaustive"] = bool(total.exhaustive)
        if total.notes:
            cov["notes"] = total.notes
        if hasattr(mod, "BOUNDS"):
            cov["bounds"] = mod.BOUNDS.get(args.tier) if isinstance(mod.BOUNDS, dict) else mod.BOUNDS
        ev = {
            "property_id": prop,
            "tier": args.tier,
            "seed": seed,
            "level": getattr(mod, "LEVEL", "exploration"),
            "coverage": cov,
            "assumptions": list(getattr(mod, "ASSUMPTIONS", [])),
            "wall_s": round(wall, 2),
            "violations": len(viol),
        }
        if total.errors:
            ev["coverage"]["harness_errors"] = [e[:2000] for e in total.errors[:5]]
        os.makedirs(os.path.join(outdir, "evidence"), exist_ok=True)
        with open(os.path.join(outdir, "evidence", "%s.json" % prop), "w") as fh:
            json.dump(ev, fh, indent=1, default=repr, ensure_ascii=True)
            fh.write("\n")
        print(
            "%s %s seed=%d: %d evaluations, %d distinct non-trivial, %d violation bucket(s), %.1fs"
            % (prop, args.tier, seed, total.evaluations, len(total.nontrivial), len(viol), wall)
        )
        if viol:
            return 1
        if total.errors:
            for e in total.errors[:5]:
                print("HARNESS-ERROR %s" % e[:3000])
            return 2
        return 0
    finally:
        shutil.rmtree(base, ignore_errors=True)


if __name__ == "__main__":
    try:
        rc = main()
    except SystemExit:
        raise
    except BaseException:  # noqa  - an escaping harness exception must never look like a verdict (exit 1)
        traceback.print_exc()
        print("HARNESS-ERROR uncaught exception in the runner")
        rc = 2
    sys.exit(rc)
