"""TG -- tag-argument grammar (DESIGN 2.2): AST strategy, layout renderer, expected-value evaluator.

Everything is JSON: an *AST* of one tag's arguments, a *context* description, and *tapes* (lists of small
ints) that drive the layout renderer.  Nothing in here imports django_components; the evaluator only uses
stock Django primitives (FilterExpression, render_value_in_context, conditional_escape).

AST
---
args   := {"attrs": [attr...], "flag": null | "only", "flag_pos": "mid" | "end"}
attr   := {"t":"pos","v":value} | {"t":"kw","k":key,"v":value} | {"t":"sp","tok":"...","v":leaf}
value  := leaf | {"t":"list","items":[value | sp...]} | {"t":"dict","items":[pair | sp...]}
pair   := {"t":"pair","k":leaf | sp,"v":value | sp}
sp     := {"t":"sp","tok":"*"|"**"|"...","v":value}          (valid: `*` as list item, `**` as dict item,
                                                                  `...` + non-literal as top-level attribute)
leaf   := {"t":"leaf","b":base,"f":[{"n":name,"a":base|null,("sp":tok)}...]}
base   := {"t":"int","v":5} | {"t":"float","v":"1.5"} | {"t":"str","v":src,"q":'"'} | {"t":"var","p":"o.a.0"}
        | {"t":"trans","v":src,"q":'"'} | {"t":"tpl","q":'"',"parts":[part...]}
part   := {"t":"text","v":s} | {"t":"expr","e":leaf,"pad":" "} | {"t":"raw","e":leaf} | {"t":"cat","a":leaf,"b":leaf}
        | {"t":"if","c":path,"a":s,"b":s|null} | {"t":"cmt","v":s}

`src` of a string is its *source* form (escapes included); it never contains its own quote char unescaped.
"""
import re

# ---------------------------------------------------------------------------
# vocabulary (fixed context *shape*, generated contents)

SCALAR_PATHS = [
    "n", "m", "fl", "s", "t", "u", "b", "nn", "l.0", "l.1", "ls.0", "d.a", "d.b", "o.a", "o.b", "o.o.a",
    "o.c.0", "o.d.p", "f", "zz", "o.zz", "ll.0.0", "o.g",
]  # fmt: skip
STR_PATHS = ["s", "t", "u", "o.b"]  # always strings
KEY_PATHS = ["n", "m", "s", "t", "u", "o.a", "o.b", "b", "nn", "zz", "fl"]  # always hashable
LIST_PATHS = ["l", "ls", "ll", "o.c", "e"]
DICT_PATHS = ["d", "dx", "o.d", "ed", "dv", "dm"]  # pairwise disjoint key sets; only dv has ':' in keys: LEADING-colon keys
# (`:href`, `:xlink:href`, Vue/Alpine bindings), which the library states it never splits into aggregates
INNER_DICT_PATHS = DICT_PATHS + ["dc"]  # dc has ':' keys; only spread inside dict literals
OTHER_PATHS = ["o", "o.o", "ll.0"]
ANY_PATHS = SCALAR_PATHS + LIST_PATHS + INNER_DICT_PATHS + OTHER_PATHS

D_KEYS = ["a", "b", "c"]
DX_KEYS = ["a-b", "@c", "x y", "1", "#h.i"]
OD_KEYS = ["p", "q"]
DC_KEYS = ["x:y", "attrs:z", ":w"]
DV_KEYS = [":href", ":xlink:href", ":a:b:c"]
DM_KEYS = ["ma", "mb"]  # dm is a Mapping that is NOT a dict (mappingproxy / ChainMap / UserDict): `...dm` still gives keyword arguments

PLAIN_KEYS = ["k", "k2", "key", "data", "class", "title", "a_b", "_x", "K9", "context"]
# keyword name that is a parameter of every tag's own render(self, context, ...): for a COMPONENT it is an ordinary keyword input
# (`self=` is not: it cannot be delivered to a method such as get_context_data(self, **kwargs) in Python either)
RENDER_PARAM_KEYS = {"context"}
SPECIAL_KEYS = ["my-date", "@click.native", "#some_id", "data-id", "x.y", "@a-b_c.d#e", "-z", ".dot", "_"]
AGG_PREFIXES = ["attrs", "props", "v-on", "@agg"]
AGG_INNER = ["class", "@click", "data-id", "my_key:two", "x.y", "#id", "a", "click.stop", "b:c:d"]

FILTERS_NOARG = ["upper", "lower", "title", "capfirst", "length", "safe", "escape", "force_escape"]
FILTERS_ARG = ["default", "default_if_none", "add", "cut", "join", "yesno", "slice", "stringformat", "ljust"]

FLAGS = ["only"]
RESERVED_CTX = "tg_outer"

WS_OPT = ["", " ", "  ", "\t", "\n", " \n  ", "\t ", "\n\n\t"]
WS_REQ = [" ", "  ", "   ", "\t", "\n", " \n  ", "\t ", "\n\n\t"]

_FORBIDDEN_DIGRAPHS = ("{{", "{%", "{#", "}}", "%}", "#}")


def other_quote(q):
    return "'" if q == '"' else '"'


def sanitize_plain(s):
    """Plain (non-template) string content must not contain template-syntax digraphs."""
    changed = True
    while changed:
        changed = False
        for d in _FORBIDDEN_DIGRAPHS:
            if d in s:
                s = s.replace(d, d[0] + " " + d[1])
                changed = True
    return s


# ---------------------------------------------------------------------------
# context


class Obj:
    """Object with attributes (JSON: {"$obj": {...}})."""

    def __init__(self, **kw):
        self.__dict__.update(kw)

    def __eq__(self, other):
        return isinstance(other, Obj) and self.__dict__ == other.__dict__

    __hash__ = None

    def __repr__(self):
        return "Obj(%s)" % ", ".join("%s=%r" % kv for kv in sorted(self.__dict__.items()))


class Call:
    """Callable returning a fixed value (JSON: {"$call": value}); Django calls it during lookup."""

    def __init__(self, value):
        self.value = value

    def __call__(self):
        return self.value

    def __repr__(self):
        return "Call(%r)" % (self.value,)


def build_value(j):
    if isinstance(j, dict):
        if "$obj" in j and len(j) == 1:
            return Obj(**{k: build_value(v) for k, v in j["$obj"].items()})
        if "$call" in j and len(j) == 1:
            return Call(build_value(j["$call"]))
        if "$map" in j and len(j) == 1:
            import collections
            import types

            kind, items = j["$map"]
            d = {k: build_value(v) for k, v in items.items()}
            return (types.MappingProxyType(d), collections.ChainMap(d), collections.UserDict(d))[kind % 3]
        return {k: build_value(v) for k, v in j.items()}
    if isinstance(j, list):
        return [build_value(v) for v in j]
    return j


def build_context(ctx_json):
    d = {k: build_value(v) for k, v in ctx_json.items()}
    d[RESERVED_CTX] = "OUT"
    return d


# ---------------------------------------------------------------------------
# canonical form for deep, type-strict comparison


from collections.abc import Mapping as _Mapping  # noqa: E402


def canon(x):
    from django.utils.functional import Promise

    if isinstance(x, bool):
        return ("bool", x)
    if isinstance(x, int):
        return ("int", x)
    if isinstance(x, float):
        return ("float", repr(x))
    if isinstance(x, Promise):
        return ("lazy", str(x))
    if isinstance(x, str):  # SafeString-ness ignored
        return ("str", str(x))
    if x is None:
        return ("none",)
    if isinstance(x, (list, tuple)):
        return ("list" if isinstance(x, list) else "tuple", [canon(v) for v in x])
    if isinstance(x, dict):
        items = [(canon(k), canon(v)) for k, v in x.items()]
        items.sort(key=lambda kv: repr(kv[0]))
        return ("dict", items)
    if isinstance(x, _Mapping):  # mappingproxy / ChainMap / UserDict passed on as a value
        return ("mapping", type(x).__name__, canon(dict(x)))
    if isinstance(x, Obj):
        return ("obj", canon(x.__dict__))
    if isinstance(x, Call):
        return ("call", canon(x.value))
    return ("other", type(x).__name__, repr(x))


def canon_call(args, kwargs, flags):
    return {"args": [canon(a) for a in args], "kwargs": canon(dict(kwargs)), "flags": sorted(flags)}


# ---------------------------------------------------------------------------
# canonical (whitespace-free) text of leaves: what the stock FilterExpression gets


def base_text(b):
    t = b["t"]
    if t == "int":
        return str(b["v"])
    if t in ("float",):
        return b["v"]
    if t == "var":
        return b["p"]
    if t == "str":
        return b["q"] + b["v"] + b["q"]
    if t == "trans":
        return "_(" + b["q"] + b["v"] + b["q"] + ")"
    if t == "tpl":
        return b["q"] + tpl_content(b) + b["q"]
    raise ValueError(t)


def leaf_text(leaf):
    s = base_text(leaf["b"])
    for f in [] if leaf.get("hide_f") else leaf["f"]:
        s += "|" + f.get("sp", "") + f["n"]
        if f.get("a") is not None:
            s += ":" + base_text(f["a"])
    return s


def part_text(p):
    t = p["t"]
    if t == "text":
        return p["v"]
    if t == "expr":
        return "{{" + p["pad"] + leaf_text(p["e"]) + p["pad"] + "}}"
    if t == "raw":
        return "{% tg_raw " + leaf_text(p["e"]) + " %}"
    if t == "cat":
        return "{% tg_cat " + leaf_text(p["a"]) + " " + leaf_text(p["b"]) + " %}"
    if t == "if":
        s = "{% if " + p["c"] + " %}" + p["a"]
        if p.get("b") is not None:
            s += "{% else %}" + p["b"]
        return s + "{% endif %}"
    if t == "cmt":
        return "{# " + p["v"] + " #}"
    raise ValueError(t)


def tpl_content(b):
    return "".join(part_text(p) for p in b["parts"])


def flippable(content):
    return "'" not in content and '"' not in content and "\\" not in content


# ---------------------------------------------------------------------------
# layout renderer


class Layout:
    def __init__(self, tape, tight_spread_literal=False):
        self.tape = [int(v) for v in tape] or [0]
        self.tight_spread_literal = tight_spread_literal
        self.i = 0
        self.out = []
        self.sk = []  # skeleton: same text with every quoted string replaced by Q
        self.notes = set()

    def nxt(self):
        v = self.tape[self.i % len(self.tape)]
        self.i += 1
        return v

    def emit(self, s):
        self.out.append(s)
        self.sk.append(s)

    def emit_q(self, s):
        self.out.append(s)
        self.sk.append("Q")

    def opt(self):
        s = WS_OPT[self.nxt() % len(WS_OPT)]
        self.emit(s)
        return s

    def req(self):
        s = WS_REQ[self.nxt() % len(WS_REQ)]
        self.emit(s)
        return s

    def coin(self):
        return self.nxt() % 2 == 1


def _r_quoted(L, content, q):
    if flippable(content) and L.coin():
        q = other_quote(q)
        L.notes.add("quote_flipped")
    L.emit_q(q + content + q)


def _r_base(L, b):
    t = b["t"]
    if t == "str":
        _r_quoted(L, b["v"], b["q"])
    elif t == "tpl":
        _r_quoted(L, tpl_content(b), b["q"])
    elif t == "trans":
        L.emit("_(")
        L.opt()
        _r_quoted(L, b["v"], b["q"])
        L.opt()
        L.emit(")")
    else:
        L.emit(base_text(b))


def _r_leaf(L, leaf):
    _r_base(L, leaf["b"])
    if leaf.get("hide_f"):
        # variant used for defect classification: the filters are not printed, but they consume the
        # same tape values, so the rest of the layout stays exactly as it was
        n_out, n_sk = len(L.out), len(L.sk)
        _r_filters(L, leaf)
        del L.out[n_out:], L.sk[n_sk:]
    else:
        _r_filters(L, leaf)


def _r_filters(L, leaf):
    for f in leaf["f"]:
        L.opt()
        L.emit("|")
        L.opt()
        L.emit(f.get("sp", "") + f["n"])
        if f.get("a") is not None:
            L.opt()
            L.emit(":")
            L.opt()
            _r_base(L, f["a"])


def _r_sp(L, sp, allow_ws):
    L.emit(sp["tok"])
    if allow_ws and sp["tok"] != "...":
        if sp["v"]["t"] in ("list", "dict"):
            w = WS_OPT[L.nxt() % len(WS_OPT)]
            if w and not L.tight_spread_literal:
                L.emit(w)
                L.notes.add("ws_between_spread_and_literal")
        else:
            L.opt()
    _r_value(L, sp["v"])


def _r_value(L, v):
    t = v["t"]
    if t == "leaf":
        _r_leaf(L, v)
    elif t == "sp":
        _r_sp(L, v, True)
    elif t == "list":
        L.emit("[")
        L.opt()
        n = len(v["items"])
        for i, it in enumerate(v["items"]):
            _r_value(L, it)
            L.opt()
            if i < n - 1:
                L.emit(",")
                L.opt()
        if n and L.coin():
            L.emit(",")
            L.opt()
            L.notes.add("trailing_comma")
        L.emit("]")
    elif t == "dict":
        L.emit("{")
        L.opt()
        n = len(v["items"])
        for i, it in enumerate(v["items"]):
            if it["t"] == "pair":
                _r_value(L, it["k"])
                L.opt()
                L.emit(":")
                L.opt()
                _r_value(L, it["v"])
            else:
                _r_value(L, it)
            L.opt()
            if i < n - 1:
                L.emit(",")
                L.opt()
        if n and L.coin():
            L.emit(",")
            L.opt()
            L.notes.add("trailing_comma")
        L.emit("}")
    else:
        raise ValueError(t)


def ordered_attrs(args):
    """Attributes plus the flag word at its place: list of ('attr', a) / ('flag', word)."""
    attrs = [("attr", a) for a in args["attrs"]]
    if args.get("flag"):
        if args.get("flag_pos") == "mid":
            i = 0
            while i < len(attrs) and _is_positional(attrs[i][1]):
                i += 1
            attrs.insert(i, ("flag", args["flag"]))
        else:
            attrs.append(("flag", args["flag"]))
    return attrs


def _is_positional(a):
    if a["t"] == "pos":
        return True
    if a["t"] == "sp" and a["v"]["t"] == "leaf" and a["v"]["b"]["t"] == "var":
        return a["v"]["b"]["p"] in LIST_PATHS
    return False


def render_args(args, tape, tight_spread_literal=False):
    """-> dict(text=…, skeleton=…, slash=bool, notes=set). `text` starts and ends so that
    "{% " + head + text + "%}" is the complete start tag.  With tight_spread_literal the same layout is
    produced except that nothing is put between `*`/`**` and a literal list/dict."""
    L = Layout(tape, tight_spread_literal)
    for kind, a in ordered_attrs(args):
        L.req()
        if kind == "flag":
            L.emit(a)
        elif a["t"] == "pos":
            _r_value(L, a["v"])
        elif a["t"] == "kw":
            L.emit(a["k"] + "=")
            _r_value(L, a["v"])
        elif a["t"] == "sp":
            _r_sp(L, a, False)
        else:
            raise ValueError(a["t"])
    slash = not L.coin()  # canonical tape [0] -> self-closing
    if slash:
        L.req()
        L.emit("/")
        L.opt()
    else:
        L.req()
    return {"text": "".join(L.out), "skeleton": "".join(L.sk), "slash": slash, "notes": L.notes}


# ---------------------------------------------------------------------------
# structure queries


def walk(node):
    """Yield every dict node of an args AST / value (pre-order)."""
    if isinstance(node, dict):
        yield node
        for v in node.values():
            if isinstance(v, (dict, list)):
                yield from walk(v)
    elif isinstance(node, list):
        for v in node:
            yield from walk(v)


def _value_depth(v):
    if v["t"] in ("list", "dict"):
        d = 0
        for it in v["items"]:
            if it["t"] == "pair":
                d = max(d, _value_depth(it["k"]), _value_depth(it["v"]))
            else:
                d = max(d, _value_depth(it))
        return d + 1
    if v["t"] == "sp":
        return _value_depth(v["v"])
    return 0


def features(args):
    f = set()
    depth = 0
    for a in args["attrs"]:
        depth = max(depth, _value_depth(a["v"]))
        if a["t"] == "kw":
            k = a["k"]
            if ":" in k:
                f.add("agg_key")
            elif not k.isidentifier() or k == "class":
                f.add("special_key")
        if a["t"] == "sp":
            f.add("top_spread")
    for n in walk(args["attrs"]):
        t = n.get("t")
        if t in ("list", "dict"):
            f.add("container")
            f.add(t)
        elif t == "sp":
            f.add("spread")
            if n["v"]["t"] in ("list", "dict"):
                f.add("spread_literal")
            elif n["v"]["t"] == "leaf" and n["v"]["f"]:
                f.add("spread_filtered")
        elif t == "leaf":
            if n["f"]:
                f.add("filter")
            if any(x.get("a") is not None for x in n["f"]):
                f.add("filter_arg")
        elif t == "tpl":
            f.add("tpl")
            eff = [p for p in n["parts"] if p["t"] != "cmt" and not (p["t"] == "text" and p["v"] == "")]
            f.add("tpl_single" if len(eff) == 1 else "tpl_multi")
        elif t == "trans":
            f.add("trans")
        elif t == "pair":
            if n["k"]["t"] == "leaf" and n["k"]["f"]:
                f.add("dict_key_filter")
        elif t == "str" and not flippable(n["v"]):
            f.add("str_with_quote_or_backslash")
    if args.get("flag"):
        f.add("flag")
    f.add("depth%d" % min(depth, 4))
    return f


_ESC_BS_END = re.compile(r"(?<!\\)(\\\\)+$")


def has_top_spread_filter(args):
    """A top-level `...value|filter` attribute."""
    return any(a["t"] == "sp" and a["tok"] == "..." and a["v"]["t"] == "leaf" and a["v"]["f"] for a in args["attrs"])


def has_str_ending_in_escaped_backslash(args):
    """A quoted string (plain or translation) whose source ends with an escaped backslash: "abc\\"."""
    return any(n.get("t") in ("str", "trans") and _ESC_BS_END.search(n["v"]) for n in walk(args["attrs"]))


def without_top_spread_filters(args):
    """Copy of the AST in which the filters of top-level `...value|filter` attributes are hidden (not printed,
    not evaluated, but still consuming layout-tape values so that the rest of the layout is unchanged)."""
    import copy

    a2 = copy.deepcopy(args)
    for a in a2["attrs"]:
        if a["t"] == "sp" and a["tok"] == "..." and a["v"]["t"] == "leaf" and a["v"]["f"]:
            a["v"]["hide_f"] = True
    return a2


def with_padded_backslash_strings(args):
    """Copy of the AST in which every string ending in an escaped backslash gets an `x` appended."""
    import copy

    a2 = copy.deepcopy(args)
    for n in walk(a2["attrs"]):
        if n.get("t") in ("str", "trans") and _ESC_BS_END.search(n["v"]):
            n["v"] += "x"
    return a2


def is_nontrivial_ast(args):
    f = features(args)
    return bool(f & {"container", "spread", "filter_arg", "tpl"})


def invalid_reasons(args):
    """Documented-invalid constructs present in the AST (empty list => valid)."""
    out = []

    def leaf(lf):
        for x in lf["f"]:
            if x.get("sp"):
                out.append("spread-in-filter")

    def value(v, where):
        t = v["t"]
        if t == "leaf":
            leaf(v)
        elif t == "sp":
            tok = v["tok"]
            if where == "list":
                if tok != "*":
                    out.append("wrong-token-in-list")
            elif where == "dict":
                if tok != "**":
                    out.append("wrong-token-in-dict")
            elif where == "dkey":
                out.append("spread-as-dict-key")
            elif where == "dval":
                out.append("spread-as-dict-value")
            elif where == "kwval":
                out.append("spread-onto-key" if tok == "..." else "wrong-token-after-key")
            elif where == "top":
                if tok != "...":
                    out.append("wrong-token-top-level")
            value(v["v"], "spv")
        elif t == "list":
            for it in v["items"]:
                value(it, "list")
        elif t == "dict":
            for it in v["items"]:
                if it["t"] == "pair":
                    value(it["k"], "dkey")
                    value(it["v"], "dval")
                else:
                    value(it, "dict")

    for a in args["attrs"]:
        if a["t"] == "sp":
            value(a, "top")
        elif a["t"] == "kw":
            value(a["v"], "kwval")
        else:
            value(a["v"], "posval")
    # a bare spread as a positional value cannot be written (it *is* a top-level spread)
    return out


# ---------------------------------------------------------------------------
# helper tags used inside nested-template strings + stock parser


_lib = None


def library():
    """Run-time Library with the helper tags of the grammar; append it to engine.template_builtins."""
    global _lib
    if _lib is not None:
        return _lib
    from django.template import Library, Node

    lib = Library()

    class RawNode(Node):
        def __init__(self, fe):
            self.fe = fe

        def render(self, context):
            return self.fe.resolve(context)

    @lib.tag("tg_raw")
    def tg_raw(parser, token):
        bits = token.split_contents()
        return RawNode(parser.compile_filter(bits[1]))

    @lib.simple_tag
    def tg_cat(a, b):
        return "%s~%s" % (a, b)

    _lib = lib
    return lib


def install_library():
    from django.template import engines

    engine = engines["django"].engine
    lib = library()
    if lib not in engine.template_builtins:
        engine.template_builtins.append(lib)
    return lib


def make_parser():
    from django.template import engines
    from django.template.base import Parser

    engine = engines["django"].engine
    install_library()
    return Parser([], engine.template_libraries, engine.template_builtins)


# ---------------------------------------------------------------------------
# expected-value evaluator


def _resolve_text(text, parser, context):
    from django.template.base import FilterExpression

    return FilterExpression(text, parser).resolve(context)


def eval_tpl(b, parser, context):
    from django.template.base import render_value_in_context
    from django.utils.html import conditional_escape

    # Comments produce no node; empty text produces no token.  Two text parts next to each other are one
    # node for the lexer, but text is a string either way, so only the count of non-text nodes matters.
    merged = [p for p in b["parts"] if p["t"] != "cmt" and not (p["t"] == "text" and p["v"] == "")]
    if merged and all(p["t"] == "text" for p in merged):
        return "".join(p["v"] for p in merged)

    def raw(p):
        t = p["t"]
        if t == "text":
            return p["v"]
        if t in ("expr", "raw"):
            return _resolve_text(leaf_text(p["e"]), parser, context)
        if t == "cat":
            a = _resolve_text(leaf_text(p["a"]), parser, context)
            c = _resolve_text(leaf_text(p["b"]), parser, context)
            out = "%s~%s" % (a, c)
            return conditional_escape(out) if context.autoescape else out
        if t == "if":
            from django.template.base import FilterExpression

            try:
                cond = FilterExpression(p["c"], parser).resolve(context, ignore_failures=True)
            except Exception:
                cond = None
            return p["a"] if cond else (p["b"] if p.get("b") is not None else "")
        raise ValueError(t)

    if len(merged) == 1:
        return raw(merged[0])  # documented: single tag, no extra text -> original value
    out = []
    for p in merged:
        v = raw(p)
        if p["t"] == "expr":
            v = render_value_in_context(v, context)
        out.append(str(v))
    return "".join(out)


def eval_leaf(leaf, parser, context):
    if leaf["b"]["t"] == "tpl":
        if leaf["f"]:
            raise ValueError("tpl strings with filters are outside the domain")
        return eval_tpl(leaf["b"], parser, context)
    return _resolve_text(leaf_text(leaf), parser, context)


def eval_value(v, parser, context):
    t = v["t"]
    if t == "leaf":
        return eval_leaf(v, parser, context)
    if t == "list":
        out = []
        for it in v["items"]:
            if it["t"] == "sp":
                out.extend([*eval_value(it["v"], parser, context)])
            else:
                out.append(eval_value(it, parser, context))
        return out
    if t == "dict":
        out = {}
        for it in v["items"]:
            if it["t"] == "sp":
                out.update({**eval_value(it["v"], parser, context)})
            else:
                k = eval_value(it["k"], parser, context)
                out[k] = eval_value(it["v"], parser, context)
        return out
    raise ValueError(t)


def evaluate(args, parser, context):
    """-> (args list, kwargs dict, flags set) the receiver must get (valid ASTs only)."""
    from collections.abc import Mapping

    pos, kw = [], {}
    agg = {}
    for a in args["attrs"]:
        if a["t"] == "pos":
            pos.append(eval_value(a["v"], parser, context))
        elif a["t"] == "sp":
            val = eval_value(a["v"], parser, context)
            if isinstance(val, Mapping):
                for k, v in val.items():
                    if k in kw:
                        raise ValueError("keyword collision %r (outside the domain)" % (k,))
                    kw[k] = v
            else:
                pos.extend([*val])
        else:
            k = a["k"]
            val = eval_value(a["v"], parser, context)
            if ":" in k and not k.startswith(":"):
                prefix, inner = k.split(":", 1)  # documented: single split
                agg.setdefault(prefix, {})[inner] = val
            else:
                if k in kw:
                    raise ValueError("keyword collision %r (outside the domain)" % (k,))
                kw[k] = val
    for prefix, d in agg.items():
        if prefix in kw:
            raise ValueError("aggregate/plain collision %r (outside the domain)" % (prefix,))
        kw[prefix] = d
    flags = {args["flag"]} if args.get("flag") else set()
    return pos, kw, flags


# ---------------------------------------------------------------------------
# Hypothesis strategies

_strat_cache = {}


def _st():
    from hypothesis import strategies as st

    return st


def context_strategy():
    st = _st()
    if "ctx" in _strat_cache:
        return _strat_cache["ctx"]
    text = st.lists(
        st.sampled_from(
            ["a", "B", "7", " ", "  ", '"', "'", "<", "&", ">", "é", "日本", "😀", "{{ n }}", "%}", "\n", "\\", ",", ":", "|", "x y", "{% a %}", "ß"]  # fmt: skip
        ),
        max_size=5,
    ).map("".join)
    ints = st.integers(-50, 1000)
    scalar = st.one_of(ints, text, st.none(), st.booleans())
    int_list = st.lists(ints, max_size=3)

    def subset_dict(keys, vals):
        return st.lists(st.tuples(st.sampled_from(keys), vals), max_size=len(keys)).map(dict)

    strat = st.fixed_dictionaries(
        {
            "n": ints,
            "m": ints,
            "fl": st.sampled_from([0.5, -1.25, 3.0]),
            "s": text,
            "t": text,
            "u": st.sampled_from(["", "x", "Hello World", "<b>bold</b>", 'q"uo\'te']),
            "b": st.booleans(),
            "nn": st.none(),
            "only": text,  # a variable that happens to be named like a flag of the tag
            "l": int_list,
            "ls": st.lists(text, max_size=3),
            "ll": st.lists(int_list, max_size=2),
            "e": st.just([]),
            "d": subset_dict(D_KEYS, scalar),
            "dx": subset_dict(DX_KEYS, scalar),
            "dc": subset_dict(DC_KEYS, scalar),
            "dv": subset_dict(DV_KEYS, scalar),
            "dm": st.tuples(st.integers(0, 2), subset_dict(DM_KEYS, scalar)).map(lambda t: {"$map": [t[0], t[1]]}),
            "ed": st.just({}),
            "o": st.fixed_dictionaries(
                {
                    "a": ints,
                    "b": text,
                    "c": int_list,
                    "d": subset_dict(OD_KEYS, scalar),
                    "o": st.fixed_dictionaries({"a": ints}).map(lambda d: {"$obj": d}),
                    "g": text.map(lambda v: {"$call": v}),
                }
            ).map(lambda d: {"$obj": d}),
            "f": text.map(lambda v: {"$call": v}),
        }
    )
    _strat_cache["ctx"] = strat
    return strat


_SAFE_ATOMS = ["a", "b", "X", "0", "9", " ", "  ", ",", ":", "|", "=", "[", "]", "*", "**", "...", "/", "-", "_", "@",
               ".", "(", ")", "<", "&", ">", "!", "é", "日本", "key=val", "|upper", ": 1", "_(", "only"]  # fmt: skip
_PLAIN_ATOMS = _SAFE_ATOMS + ["{", "}", "%", "#", "\t", "😀", "{ x }", "ß"]


def _bases():
    """(str_lit, inner-safe str_lit factory, int, float, trans, scalar var) strategies."""
    st = _st()
    if "bases" in _strat_cache:
        return _strat_cache["bases"]
    safe = st.lists(st.sampled_from(_SAFE_ATOMS), max_size=5).map("".join)
    plain = st.lists(st.sampled_from(_PLAIN_ATOMS), max_size=6).map("".join).map(sanitize_plain)

    def with_quotes(content_and_style):
        c, style, pos, nl = content_and_style
        pos = pos % (len(c) + 1)
        if nl:
            c = c[:pos] + "\n" + c[pos:]
        if style == 0:  # no quote inside: either quote style, flippable
            return {"t": "str", "v": c, "q": '"'}
        if style == 1:
            return {"t": "str", "v": c, "q": "'"}
        if style == 2:  # contains a double quote -> single-quoted
            return {"t": "str", "v": c[:pos] + '"' + c[pos:], "q": "'"}
        if style == 3:
            return {"t": "str", "v": c[:pos] + "'" + c[pos:], "q": '"'}
        if style == 4:  # both kinds, own quote escaped
            return {"t": "str", "v": c[:pos] + "\\\"'" + c[pos:], "q": '"'}
        if style == 5:
            return {"t": "str", "v": c[:pos] + "\\'\"" + c[pos:], "q": "'"}
        if style == 6:  # escaped backslash / backslash + letter
            return {"t": "str", "v": c[:pos] + "\\\\" + c[pos:], "q": '"'}
        return {"t": "str", "v": c[:pos] + "\\n" + c[pos:], "q": "'"}

    str_lit = st.tuples(
        plain,
        st.sampled_from([0, 0, 0, 1, 1, 2, 3, 4, 5, 6, 7]),
        st.integers(0, 12),
        st.sampled_from([False] * 9 + [True]),
    ).map(with_quotes)
    int_lit = st.one_of(st.integers(-99, 9999), st.sampled_from([0, 1, -1, 20])).map(lambda v: {"t": "int", "v": v})
    float_lit = st.sampled_from(["1.5", "-0.25", "10.0", "0.5"]).map(lambda v: {"t": "float", "v": v})
    trans = st.tuples(safe, st.sampled_from(['"', "'"])).map(lambda cq: {"t": "trans", "v": cq[0] or "tr", "q": cq[1]})
    svar = st.sampled_from(SCALAR_PATHS).map(lambda p: {"t": "var", "p": p})
    res = dict(safe=safe, plain=plain, str_lit=str_lit, int_lit=int_lit, float_lit=float_lit, trans=trans, svar=svar)
    _strat_cache["bases"] = res
    return res


def _filters(inner_quote=None):
    """List of 0-2 filters. With inner_quote set, string arguments are safe strings in that quote."""
    st = _st()
    key = ("filters", inner_quote)
    if key in _strat_cache:
        return _strat_cache[key]
    B = _bases()
    if inner_quote:
        s_arg = B["safe"].map(lambda c: {"t": "str", "v": c.replace("}", ""), "q": inner_quote})
        arg_general = st.one_of(B["int_lit"], s_arg, B["svar"])
    else:
        s_arg = B["str_lit"]
        arg_general = st.one_of(B["int_lit"], s_arg, B["svar"], B["trans"], B["float_lit"])
    q = inner_quote or '"'

    def lit(s):
        return {"t": "str", "v": s, "q": q}

    def with_arg(name):
        if name == "yesno":
            a = st.sampled_from([lit("yes,no"), lit("a, b,c"), lit("Y,N,M")])
        elif name == "slice":
            a = st.sampled_from([lit(":2"), lit("1:"), lit(":1"), lit("::2")])
        elif name == "stringformat":
            a = st.sampled_from([lit("s"), lit("5s"), lit("r")])
        elif name == "ljust":
            a = st.sampled_from([{"t": "int", "v": 5}, lit("3")])
        elif name == "join":
            a = st.sampled_from([lit(", "), lit("|"), lit(":"), lit(" - ")])
        elif name == "cut":  # stock `cut` raises TypeError for a non-string argument
            a = st.one_of(s_arg, st.sampled_from(STR_PATHS).map(lambda p: {"t": "var", "p": p}))
        else:
            a = arg_general
        return a.map(lambda av: {"n": name, "a": av})

    one = st.one_of(
        st.sampled_from(FILTERS_NOARG).map(lambda n: {"n": n, "a": None}),
        st.sampled_from(FILTERS_ARG).flatmap(with_arg),
    )
    strat = st.lists(one, max_size=2)
    _strat_cache[key] = strat
    return strat


def _inner_leaf(q):
    """Leaf usable inside a nested-template string whose outer quote is `other_quote(q)`."""
    st = _st()
    key = ("inner_leaf", q)
    if key in _strat_cache:
        return _strat_cache[key]
    B = _bases()
    s = B["safe"].map(lambda c: {"t": "str", "v": c.replace("}", ""), "q": q})
    base = st.one_of(st.sampled_from(ANY_PATHS).map(lambda p: {"t": "var", "p": p}), B["svar"], B["int_lit"], s)
    strat = st.tuples(base, _filters(q)).map(lambda bf: {"t": "leaf", "b": bf[0], "f": bf[1]})
    _strat_cache[key] = strat
    return strat


def _tpl():
    st = _st()
    if "tpl" in _strat_cache:
        return _strat_cache["tpl"]
    B = _bases()

    def for_quote(q):
        iq = other_quote(q)
        # text never contains braces, the outer quote, backslashes or newlines
        txt = B["safe"].map(lambda c: c.replace("\n", " "))
        txt_q = st.tuples(txt, st.booleans()).map(lambda cb: cb[0] + (iq if cb[1] else ""))
        leaf = _inner_leaf(iq)
        part = st.one_of(
            txt_q.map(lambda c: {"t": "text", "v": c}),
            st.tuples(leaf, st.sampled_from([" ", "", "  "])).map(lambda lp: {"t": "expr", "e": lp[0], "pad": lp[1]}),
            st.tuples(leaf, st.sampled_from([" ", " ", ""])).map(lambda lp: {"t": "expr", "e": lp[0], "pad": lp[1]}),
            leaf.map(lambda lf: {"t": "raw", "e": lf}),
            st.tuples(leaf, leaf).map(lambda ab: {"t": "cat", "a": ab[0], "b": ab[1]}),
            st.tuples(st.sampled_from(SCALAR_PATHS + LIST_PATHS), txt, st.one_of(st.none(), txt)).map(
                lambda cab: {"t": "if", "c": cab[0], "a": cab[1], "b": cab[2]}
            ),
            txt.map(lambda c: {"t": "cmt", "v": c.replace("#", "")}),
        )
        dynamic = {"expr", "raw", "cat", "if", "cmt"}
        normal = (
            st.lists(part, min_size=1, max_size=4)
            .filter(lambda ps: any(p["t"] in dynamic for p in ps))
            .map(lambda ps: {"t": "tpl", "q": q, "parts": ps})
        )
        # a stray, never closed opener of one tag kind in front of complete tags of the OTHER kinds: the stray opener
        # is plain text for Django's lexer, the string is still a nested template (built constructively: the parts
        # that follow never contain the closer of the stray kind)
        text_p = txt.map(lambda c: {"t": "text", "v": c})
        if_p = st.tuples(st.sampled_from(SCALAR_PATHS + LIST_PATHS), txt, st.one_of(st.none(), txt)).map(lambda cab: {"t": "if", "c": cab[0], "a": cab[1], "b": cab[2]})
        cmt_p = txt.map(lambda c: {"t": "cmt", "v": c.replace("#", "")})
        stray_var = st.tuples(st.sampled_from(["{{ ", "{{", "a {{ b "]), st.lists(st.one_of(text_p, if_p, cmt_p), min_size=0, max_size=2), st.one_of(if_p, cmt_p)).map(
            lambda t3: {"t": "tpl", "q": q, "parts": [{"t": "text", "v": t3[0]}] + t3[1] + [t3[2]]}
        )
        stray_blk = st.tuples(st.sampled_from(["{% ", "{%", "x {% y "]), st.lists(st.one_of(text_p, cmt_p), min_size=0, max_size=2), cmt_p).map(
            lambda t3: {"t": "tpl", "q": q, "parts": [{"t": "text", "v": t3[0]}] + t3[1] + [t3[2]]}
        )
        return st.one_of(normal, normal, normal, normal, stray_var, stray_blk)

    strat = st.one_of(for_quote('"'), for_quote("'"))
    _strat_cache["tpl"] = strat
    return strat


def leaf_strategy():
    st = _st()
    if "leaf" in _strat_cache:
        return _strat_cache["leaf"]
    B = _bases()
    anyvar = st.sampled_from(ANY_PATHS).map(lambda p: {"t": "var", "p": p})
    base = st.one_of(B["int_lit"], B["str_lit"], B["svar"], anyvar, B["trans"], B["float_lit"], B["str_lit"], B["svar"])
    plain_leaf = st.tuples(base, _filters()).map(lambda bf: {"t": "leaf", "b": bf[0], "f": bf[1]})
    tpl_leaf = _tpl().map(lambda b: {"t": "leaf", "b": b, "f": []})
    # a literal head whose value nevertheless depends on the context: the filter argument is a string variable
    strvar = st.sampled_from(STR_PATHS).map(lambda p: {"t": "var", "p": p})
    lit_head = st.tuples(st.one_of(B["str_lit"], B["trans"], B["int_lit"]), st.sampled_from(["add", "default", "cut", "default_if_none"]), strvar).map(
        lambda t: {"t": "leaf", "b": t[0], "f": [{"n": t[1], "a": t[2]}]}
    )
    strat = st.one_of(plain_leaf, plain_leaf, plain_leaf, plain_leaf, plain_leaf, tpl_leaf, tpl_leaf, lit_head)
    _strat_cache["leaf"] = strat
    return strat


def _key_leaf():
    st = _st()
    B = _bases()
    kbase = st.one_of(
        B["str_lit"],
        st.sampled_from(["a", "b", "key", "x-y", "@c", "a:b"]).map(lambda c: {"t": "str", "v": c, "q": '"'}),
        B["int_lit"],
        st.sampled_from(KEY_PATHS).map(lambda p: {"t": "var", "p": p}),
        B["float_lit"],
    )
    kf = st.lists(st.sampled_from(["upper", "lower", "title", "capfirst", "length"]).map(lambda n: {"n": n, "a": None}), max_size=2)
    return st.tuples(kbase, st.one_of(st.just([]), kf)).map(lambda bf: {"t": "leaf", "b": bf[0], "f": bf[1]})


def _spread_leaf(paths):
    st = _st()
    sl = st.sampled_from([[], [], [], [{"n": "slice", "a": {"t": "str", "v": ":1", "q": '"'}}]])
    if paths is LIST_PATHS:
        return st.tuples(st.sampled_from(paths), sl).map(lambda pf: {"t": "leaf", "b": {"t": "var", "p": pf[0]}, "f": pf[1]})
    return st.sampled_from(paths).map(lambda p: {"t": "leaf", "b": {"t": "var", "p": p}, "f": []})


def value_strategy(depth=3):
    """Valid values nested up to `depth` containers (depth 0 = leaf)."""
    st = _st()
    key = ("value", depth)
    if key in _strat_cache:
        return _strat_cache[key]
    leaf = leaf_strategy()
    if depth <= 0:
        strat = leaf
    else:
        inner = value_strategy(depth - 1)
        strat = st.one_of(leaf, leaf, list_strategy(depth), dict_strategy(depth), inner)
    _strat_cache[key] = strat
    return strat


def list_strategy(depth):
    st = _st()
    key = ("list", depth)
    if key in _strat_cache:
        return _strat_cache[key]
    inner = value_strategy(depth - 1)
    star_var = _spread_leaf(LIST_PATHS).map(lambda lf: {"t": "sp", "tok": "*", "v": lf})
    items = [inner, inner, inner, star_var]
    if depth > 1:
        items.append(list_strategy(depth - 1).map(lambda lv: {"t": "sp", "tok": "*", "v": lv}))
    else:
        items.append(st.lists(leaf_strategy(), max_size=2).map(lambda its: {"t": "sp", "tok": "*", "v": {"t": "list", "items": its}}))
    strat = st.lists(st.one_of(*items), max_size=4).map(lambda its: {"t": "list", "items": its})
    _strat_cache[key] = strat
    return strat


def dict_strategy(depth):
    st = _st()
    key = ("dict", depth)
    if key in _strat_cache:
        return _strat_cache[key]
    inner = value_strategy(depth - 1)
    pair = st.tuples(_key_leaf(), inner).map(lambda kv: {"t": "pair", "k": kv[0], "v": kv[1]})
    dstar_var = _spread_leaf(INNER_DICT_PATHS).map(lambda lf: {"t": "sp", "tok": "**", "v": lf})
    items = [pair, pair, pair, dstar_var]
    if depth > 1:
        items.append(dict_strategy(depth - 1).map(lambda dv: {"t": "sp", "tok": "**", "v": dv}))
    else:
        small = st.lists(st.tuples(_key_leaf(), leaf_strategy()).map(lambda kv: {"t": "pair", "k": kv[0], "v": kv[1]}), max_size=2)
        items.append(small.map(lambda its: {"t": "sp", "tok": "**", "v": {"t": "dict", "items": its}}))
    strat = st.lists(st.one_of(*items), max_size=4).map(lambda its: {"t": "dict", "items": its})
    _strat_cache[key] = strat
    return strat


def normalize_args(attrs, flag, flag_pos):
    """Enforce the domain decisions on a raw attribute list (pure function: good for shrinking).

    * positional values and list spreads first, then keywords / dict spreads (Python call rule);
    * keyword names unique, no collision between explicit keys, aggregate prefixes and spread-dict keys;
      every dict path spread at most once at top level (their key sets are disjoint by construction).
    """
    pos, kws = [], []
    seen_keys, seen_agg, seen_paths = set(), set(), set()
    plain_used, prefix_used = set(), set()
    for a in attrs:
        if a["t"] == "pos":
            pos.append(a)
        elif a["t"] == "sp":
            if invalid_reasons({"attrs": [a]}):
                kws.append(a)  # invalid class: keep where it is among the keywords
                continue
            p = a["v"]["b"]["p"]
            if p in LIST_PATHS:
                pos.append(a)
            else:
                if p in seen_paths:
                    continue
                seen_paths.add(p)
                kws.append(a)
        else:
            k = a["k"]
            if ":" in k:
                prefix = k.split(":", 1)[0]
                if k in seen_agg or prefix in plain_used:
                    continue
                seen_agg.add(k)
                prefix_used.add(prefix)
            else:
                if k in seen_keys or k in prefix_used:
                    continue
                seen_keys.add(k)
                plain_used.add(k)
            kws.append(a)
    return {"attrs": pos + kws, "flag": flag, "flag_pos": flag_pos}


def args_strategy(depth=3, max_attrs=5):
    st = _st()
    key = ("args", depth, max_attrs)
    if key in _strat_cache:
        return _strat_cache[key]
    val = value_strategy(depth)
    plain_key = st.sampled_from(PLAIN_KEYS + SPECIAL_KEYS)
    agg_key = st.tuples(st.sampled_from(AGG_PREFIXES), st.sampled_from(AGG_INNER)).map(lambda pi: pi[0] + ":" + pi[1])
    attr = st.one_of(
        val.map(lambda v: {"t": "pos", "v": v}),
        st.tuples(plain_key, val).map(lambda kv: {"t": "kw", "k": kv[0], "v": kv[1]}),
        st.tuples(plain_key, val).map(lambda kv: {"t": "kw", "k": kv[0], "v": kv[1]}),
        st.tuples(agg_key, val).map(lambda kv: {"t": "kw", "k": kv[0], "v": kv[1]}),
        # keyword whose VALUE is a variable named like a flag (`data=only`): still a keyword argument
        plain_key.map(lambda k: {"t": "kw", "k": k, "v": {"t": "leaf", "b": {"t": "var", "p": "only"}, "f": []}}),
        _spread_leaf(LIST_PATHS).map(lambda lf: {"t": "sp", "tok": "...", "v": lf}),
        _spread_leaf(DICT_PATHS).map(lambda lf: {"t": "sp", "tok": "...", "v": lf}),
    )
    strat = st.tuples(
        st.lists(attr, min_size=1, max_size=max_attrs),
        st.sampled_from([None, None, "only"]),
        st.sampled_from(["mid", "end"]),
    ).map(lambda t: normalize_args(*t))
    _strat_cache[key] = strat
    return strat


def invalid_args_strategy(focus=None):
    """Argument lists containing exactly one construct from the documented-invalid list.
    focus: None (all kinds) | "value" (invalid construct inside a value) | "kw" (`key=...x`, `key=*x`, `key=**x`)
    | "top" (top-level `*x` / `**x`)."""
    st = _st()
    if ("invalid", focus) in _strat_cache:
        return _strat_cache[("invalid", focus)]
    leaf = leaf_strategy().filter(lambda lf: lf["b"]["t"] != "trans")
    lvar = _spread_leaf(LIST_PATHS)
    dvar = _spread_leaf(DICT_PATHS)
    anyvar = st.one_of(lvar, dvar)
    lit_list = st.lists(leaf, max_size=2).map(lambda its: {"t": "list", "items": its})
    lit_dict = st.lists(st.tuples(_key_leaf(), leaf).map(lambda kv: {"t": "pair", "k": kv[0], "v": kv[1]}), max_size=2).map(
        lambda its: {"t": "dict", "items": its}
    )
    spv = st.one_of(anyvar, anyvar, lit_list, lit_dict)

    def sp(tok, v):
        return {"t": "sp", "tok": tok, "v": v}

    def lst(*items):
        return {"t": "list", "items": list(items)}

    def dct(*items):
        return {"t": "dict", "items": list(items)}

    def pair(k, v):
        return {"t": "pair", "k": k, "v": v}

    toks = st.sampled_from(["...", "*", "**"])
    # value-level invalid constructs (to be used as the value of a positional or keyword attribute)
    filt_spread = st.tuples(st.sampled_from(SCALAR_PATHS + LIST_PATHS), toks, st.sampled_from(FILTERS_NOARG), st.booleans()).map(
        lambda t: {
            "t": "leaf",
            "b": {"t": "var", "p": t[0]},
            "f": ([{"n": "lower", "a": None}] if t[3] else []) + [{"n": t[2], "a": None, "sp": t[1]}],
        }
    )
    wrong_in_list = st.tuples(st.sampled_from(["**", "..."]), spv, st.lists(leaf, max_size=2), st.booleans()).map(
        lambda t: lst(*(t[2] + [sp(t[0], t[1])] if t[3] else [sp(t[0], t[1])] + t[2]))
    )
    wrong_in_dict = st.tuples(st.sampled_from(["*", "..."]), spv, st.lists(st.tuples(_key_leaf(), leaf), max_size=2), st.booleans()).map(
        lambda t: dct(*([pair(k, v) for k, v in t[2]] + [sp(t[0], t[1])] if t[3] else [sp(t[0], t[1])] + [pair(k, v) for k, v in t[2]]))
    )
    key_spread = st.tuples(toks, anyvar, leaf).map(lambda t: dct(pair(sp(t[0], t[1]), t[2])))
    val_spread = st.tuples(toks, spv, _key_leaf(), st.lists(st.tuples(_key_leaf(), leaf), max_size=1)).map(
        lambda t: dct(*([pair(k, v) for k, v in t[3]] + [pair(t[2], sp(t[0], t[1]))]))
    )
    inval_value = st.one_of(filt_spread, wrong_in_list, wrong_in_dict, key_spread, val_spread, wrong_in_list, wrong_in_dict, key_spread, val_spread)
    # optionally wrapped in valid containers
    wrapped = st.one_of(
        inval_value,
        inval_value,
        st.tuples(inval_value, st.lists(leaf, max_size=2)).map(lambda t: lst(*(t[1] + [t[0]]))),
        st.tuples(inval_value, _key_leaf()).map(lambda t: dct(pair(t[1], t[0]))),
    )
    plain_key = st.sampled_from(PLAIN_KEYS + SPECIAL_KEYS)
    # key=...x  /  key=*x / key=**x
    kw_spread = st.tuples(plain_key, toks, spv).map(lambda t: {"t": "kw", "k": t[0], "v": sp(t[1], t[2])})
    # top-level *x / **x
    top_wrong = st.tuples(st.sampled_from(["*", "**"]), spv).map(lambda t: {"t": "sp", "tok": t[0], "v": t[1]})
    in_value = st.one_of(
        wrapped.map(lambda v: {"t": "pos", "v": v}),
        st.tuples(plain_key, wrapped).map(lambda kv: {"t": "kw", "k": kv[0], "v": kv[1]}),
        st.tuples(plain_key, wrapped).map(lambda kv: {"t": "kw", "k": kv[0], "v": kv[1]}),
    )
    inval_attr = {"value": in_value, "kw": kw_spread, "top": top_wrong}.get(focus) or st.one_of(in_value, kw_spread, top_wrong)
    valid = args_strategy(depth=2, max_attrs=3)

    def combine(t):
        base, bad, at_end = t
        attrs = list(base["attrs"])
        # a positional invalid value goes in front (so that argument order is not what is wrong)
        if bad["t"] == "pos":
            attrs = [bad] + attrs
        elif at_end:
            attrs = attrs + [bad]
        else:
            i = 0
            while i < len(attrs) and _is_positional(attrs[i]):
                i += 1
            attrs = attrs[:i] + [bad] + attrs[i:]
        if bad["t"] == "kw":
            attrs = [a for a in attrs if a is bad or a["t"] != "kw" or a["k"] != bad["k"]]
        return {"attrs": attrs, "flag": base["flag"], "flag_pos": base["flag_pos"]}

    strat = st.tuples(valid, inval_attr, st.booleans()).map(combine)
    _strat_cache[("invalid", focus)] = strat
    return strat


def tapes_strategy(n=6):
    st = _st()
    tape = st.lists(st.integers(0, 15), min_size=2, max_size=24)
    return st.lists(tape, min_size=n, max_size=n)


FIXED_TAPES = [[0], [1]]  # canonical tight layout; single spaces + every optional choice taken


def all_tapes(case):
    return FIXED_TAPES + [list(t) for t in case.get("tapes", [])]


def case_strategy(invalid=False, depth=3, max_attrs=5, n_tapes=6, focus=None):
    st = _st()
    return st.fixed_dictionaries(
        {
            "kind": st.just("invalid" if invalid else "valid"),
            "ctx": context_strategy(),
            "ast": invalid_args_strategy(focus) if invalid else args_strategy(depth, max_attrs),
            "tapes": tapes_strategy(n_tapes),
        }
    )


# ---------------------------------------------------------------------------
# predicates on rendered text (used to classify known defect classes)

_smart_split_re = re.compile(r"""((?:[^\s'"]*(?:(?:"(?:[^"\\]|\\.)*"|'(?:[^'\\]|\\.)*')[^\s'"]*)+)|\S+)""")


def split_contents_breaks(text):
    """True when stock Token.split_contents() would run off the end on `text`: a whitespace-delimited
    piece starts with `_("`/`_('` and no later piece ends with the matching `")`/`')`."""
    bits = [m.group(0) for m in _smart_split_re.finditer(text)]
    i = 0
    while i < len(bits):
        bit = bits[i]
        if bit.startswith(('_("', "_('")):
            sentinel = bit[2] + ")"
            while not bit.endswith(sentinel):
                i += 1
                if i >= len(bits):
                    return True
                bit = bits[i]
        i += 1
    return False
