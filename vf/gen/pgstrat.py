"""Hypothesis strategies that build PG programs constructively (no filtering)."""
from hypothesis import strategies as st

VALUES = ["a", "bc", "xyz", "q", "", "mn"]
SLOT_NAMES = ["a", "b", "s1", "s2", "default", "x-y", "\u00e91"]  # incl. a name that needs escaping in is_filled and a non-ASCII one
PROVIDE_KEYS = ["pk1"] * 12 + ["pk2"] * 5 + ["class"] * 3  # the last one is a Python keyword (a key is any identifier-like string)
DATA_KEYS = ["k1", "context"]  # the second name is also a parameter of every tag's own render(self, context, ...)
ELEM_TAGS = ["div", "span", "p", "section"]

DEFAULT_CFG = {
    "max_comps": 4,
    "max_nodes": 4,  # per node list
    "max_depth": 3,
    "naming": "unique",  # "unique" (C01) | "pool" (C03)
    "pool": ["x", "y", "z"],
    "probes": False,  # wrap var nodes as [pN:..]
    "provide": False,
    "elems": False,
    "only": True,
    "errors": True,  # allow expected-error constructs (required unfilled, two default slots)
    "isfilled": True,
    "inject": False,
    "ticks": False,
    "hooks": False,
    "assets": False,
    "cssvars": False,
    "idecho": False,
    "deps": False,
}


class Scope:
    def __init__(self, vars=(), owner=None, loops=0, idvar=None, loopvars=()):
        self.vars = list(vars)
        self.owner = owner  # component name whose template lexically contains the position, or None (page)
        self.loops = loops
        self.idvar = idvar  # variable holding the owner's render id (C14 echo)
        self.loopvars = list(loopvars)  # variables of the enclosing loops of this template position

    def extend(self, names, loop=False):
        return Scope(
            self.vars + [n for n in names if n not in self.vars], self.owner, self.loops + (1 if loop else 0), self.idvar, self.loopvars + (list(names) if loop else [])
        )


class Builder:
    def __init__(self, draw, cfg):
        self.draw = draw
        self.cfg = dict(DEFAULT_CFG)
        self.cfg.update(cfg or {})
        self.counter = 0
        self.probe = 0
        self.comps = []  # built specs (index order)
        self.budget = 60  # total node budget for the program

    # -- primitive draws ---------------------------------------------------
    def integer(self, lo, hi):
        return self.draw(st.integers(lo, hi))

    def chance(self, pct):
        return self.draw(st.integers(0, 99)) < pct

    def pick(self, seq):
        return seq[self.draw(st.integers(0, len(seq) - 1))]

    def fresh(self, prefix):
        self.counter += 1
        return "%s%d" % (prefix, self.counter)

    def name(self, prefix):
        if self.cfg["naming"] == "pool":
            return self.pick(self.cfg["pool"])
        return self.fresh(prefix)

    def value(self):
        return self.pick(VALUES)

    def ref(self, scope):
        """Name of a variable to reference at this position."""

        if self.cfg["naming"] == "pool":
            pool = self.cfg["pool"]
            if scope.owner is not None and self.cfg.get("extra_probe") and self.chance(15):
                return self.cfg["extra_probe"]
            name = self.pick(pool)
            if self.chance(12):
                name += "." + self.pick(DATA_KEYS)
            return name
        if scope.vars:
            return self.pick(scope.vars)
        return None

    def expr(self, scope, lit_bias=50):
        r = self.ref(scope)
        if r is None or self.chance(lit_bias):
            return {"lit": self.value()}
        return {"var": r}

    def varnode(self, name):
        n = {"t": "var", "n": name}
        if self.cfg["probes"]:
            self.probe += 1
            n["p"] = self.probe
        return n

    # -- node lists ----------------------------------------------------------
    def nodes(self, scope, depth, comp_index, min_nodes=0, where="tpl"):
        k = self.integer(min_nodes, self.cfg["max_nodes"])
        out = []
        for _ in range(k):
            if self.budget <= 0:
                break
            out.append(self.node(scope, depth, comp_index, where))
        if not out and min_nodes:
            out.append({"t": "text", "s": self.fresh("t")})
        if out and self.cfg.get("wstext", True) and self.chance(22):
            # whitespace-only text pieces between (and around) the nodes: they are part of the page like any other text
            for _ in range(self.integer(1, 2)):
                out.insert(self.integer(0, len(out)), {"t": "text", "s": self.pick([" ", " ", "\n", "  "])})
        return out

    def node(self, scope, depth, comp_index, where):
        self.budget -= 1
        cfg = self.cfg
        choices = ["text", "text"]
        has_ref = cfg["naming"] == "pool" or bool(scope.vars)
        if has_ref:
            choices += ["var", "var"]
        deep = depth < cfg["max_depth"]
        if deep:
            if has_ref:
                choices += ["if", "for"]
            choices += ["with"]
            if cfg["elems"]:
                choices += ["elem", "elem"]
            if scope.owner is not None:
                choices += ["slot", "slot", "slot"]
            if self.targets(comp_index):
                choices += ["comp", "comp", "comp"]
            if cfg["provide"]:
                choices += ["provide"] * int(cfg.get("provide_weight", 1))
        if scope.owner is not None and cfg["isfilled"]:
            choices += ["isfilled"]
        # (not directly in the page template: there the tag legitimately writes into the caller's own Context)
        if cfg.get("assign") and scope.loops == 0 and has_ref and (scope.owner is not None or where == "fillbody"):
            choices += ["assign"]
        if cfg["ticks"]:
            choices += ["tick"]
        if cfg["deps"] and scope.owner is not None and self.chance(2):
            return {"t": self.pick(["depjs", "depcss"])}
        kind = self.pick(choices)
        if kind == "assign":
            # {% firstof EXPR as NAME %}: binds NAME in the current scope FROM HERE ON (component tags written before it must not see it)
            return {"t": "assign", "n": self.name("a"), "e": self.expr(scope)}
        if kind == "text":
            return {"t": "text", "s": self.fresh("t")}
        if kind == "var":
            if scope.loops > 0 and self.chance(25):
                # loop state must be the one at the lexical position (deferred rendering snapshots it); only printed
                if scope.loops > 1 and self.chance(40):
                    return self.varnode("forloop.parentloop.counter")
                return self.varnode(self.pick(["forloop.counter", "forloop.counter0", "forloop.first", "forloop.last"]))
            return self.varnode(self.ref(scope))
        if kind == "tick":
            if has_ref and self.chance(50):
                return {"t": "tickvar", "n": self.ref(scope), "label": self.fresh("f")}
            return {"t": "tick", "label": self.fresh("k")}
        if kind == "isfilled":
            n = {"t": "isfilled", "name": self.pick(SLOT_NAMES)}
            if cfg["probes"]:
                self.probe += 1
                n["p"] = self.probe
            return n
        if kind == "if":
            return {
                "t": "if",
                "n": self.ref(scope),
                "a": self.nodes(scope, depth + 1, comp_index, 1, where),
                "b": self.nodes(scope, depth + 1, comp_index, 0, where),
            }
        if kind == "for":
            v = self.name("l")
            lst = self.expr(scope, lit_bias=40)
            if "lit" in lst and lst["lit"] == "":
                lst = {"lit": "ab"}
            return {"t": "for", "v": v, "l": lst, "c": self.nodes(scope.extend([v], loop=True), depth + 1, comp_index, 1, where)}
        if kind == "with":
            v = self.name("w")
            return {"t": "with", "n": v, "e": self.expr(scope), "c": self.nodes(scope.extend([v]), depth + 1, comp_index, 1, where)}
        if kind == "elem":
            void = self.chance(10)
            n = {"t": "elem", "tag": "br" if void else self.pick(ELEM_TAGS), "m": self.fresh("e"), "c": []}
            if void:
                n["void"] = True
            else:
                if scope.idvar and self.chance(60):
                    n["idvar"] = scope.idvar
                    if self.chance(30):
                        n["idmk"] = True
                n["c"] = self.nodes(scope, depth + 1, comp_index, 0, where)
            return n
        if kind == "provide":
            key = self.pick(PROVIDE_KEYS)
            kwargs = {"f1": self.expr(scope)}
            if self.chance(40):
                kwargs["context"] = self.expr(scope)  # a field named like a parameter of the tag's own render(self, context, ...)
                if self.chance(50):
                    kwargs = {"context": kwargs["context"], "f1": kwargs["f1"]}  # same names, other order
            if self.chance(8):
                return {"t": "provide", "key": key, "kwargs": kwargs, "c": []}  # a provider with nothing in it
            body = self.nodes(scope, depth + 1, comp_index, 1, where)
            if self.targets(comp_index) and self.chance(60):
                body.insert(self.integer(0, len(body)), self.comp(scope, depth + 1, comp_index, where))
            if self.cfg["naming"] == "unique" and self.chance(40):
                # provided values must not become template variables: probe the key / a field name
                body.insert(self.integer(0, len(body)), {"t": "var", "n": self.pick([key] + list(kwargs))})
            return {"t": "provide", "key": key, "kwargs": kwargs, "c": body}
        if kind == "slot":
            return self.slot(scope, depth, comp_index, where)
        if kind == "comp":
            return self.comp(scope, depth, comp_index, where)
        raise AssertionError(kind)

    def targets(self, comp_index):
        # components are built from the last index to the first; a template may use any already built one
        return [c for c in self.comps if comp_index is None or c["_index"] > comp_index]

    # -- slot ------------------------------------------------------------------
    def slot(self, scope, depth, comp_index, where):
        cur = self.cur
        if self.chance(70):
            name = cur["_defslot"] if self.chance(40) else self.pick(SLOT_NAMES)
        else:
            name = self.pick(SLOT_NAMES)
        n = {"t": "slot", "name": name, "data": {}, "c": []}
        if name == cur["_defslot"]:
            if self.chance(75):
                n["default"] = True
        elif self.cfg["errors"] and self.chance(3):
            n["default"] = True
        if self.chance(10 if self.cfg["errors"] else 0):
            n["required"] = True
        if self.chance(45):
            for k in DATA_KEYS[: self.integer(1, 2)]:
                n["data"][k] = self.expr(scope)
        dyn = self.integer(0, 99) if self.cfg.get("dynslots", True) else 99
        if dyn < 10:
            # dynamic slot name: {% with nK="a" %}{% slot nK ... %}
            v = self.fresh("n")
            n["nvar"] = v
            n["c"] = self.nodes(scope.extend([v]), depth + 1, comp_index, 0, "slotdefault")
            return {"t": "with", "n": v, "e": {"lit": name}, "c": [n]}
        if dyn < 16 and not n.get("default") and not n.get("required") and len(name) == 1:
            # one slot tag rendered once per name: {% for nK in "ab" %}{% slot nK ... %}
            v = self.fresh("n")
            other = self.pick([x for x in ("a", "b") if x != name])
            n["nvar"] = v
            n["fornames"] = [name, other] if self.chance(50) else [other, name]
            n["c"] = self.nodes(scope.extend([v], loop=True), depth + 1, comp_index, 0, "slotdefault")
            return {"t": "for", "v": v, "l": {"lit": "".join(n["fornames"])}, "c": [n]}
        n["c"] = self.nodes(scope, depth + 1, comp_index, 0, "slotdefault")
        return n

    # -- component tag -----------------------------------------------------------
    def comp(self, scope, depth, comp_index, where):
        target = self.pick(self.targets(comp_index))
        kwargs = {}
        for p in target["params"]:
            if self.chance(70):
                kwargs[p] = self.expr(scope)
                if self.cfg["ticks"] and self.chance(25):
                    kwargs[p] = dict(kwargs[p], tick=self.fresh("a"))
        n = {"t": "comp", "name": target["name"], "kwargs": kwargs, "only": bool(self.cfg["only"] and self.chance(12)), "body": None}
        slots = target["_slots"]
        r = self.integer(0, 99)
        if r < 17:
            n["body"] = None
        elif r < 20:
            # nothing but whitespace and comments between the tags: documented to count as "no content"
            n["body"] = {"kind": "implicit", "c": [{"t": "text", "s": self.pick([" ", " {# note #} ", "\n{# a #}\n{# b #} ", "{# only #}", "  \n"])}]}
        elif r < 45:
            n["body"] = {"kind": "implicit", "c": self.nodes(scope, depth + 1, comp_index, 1, "fillbody")}
        else:
            names = []
            pool = [s["name"] for s in slots] or []
            extra = [x for x in SLOT_NAMES if x not in pool]
            for s in pool:
                if self.chance(60) and s not in names:
                    names.append(s)
            if extra and self.chance(25):
                names.append(self.pick(extra))
            if not names:
                names.append(self.pick(pool or SLOT_NAMES))
            items = []
            for i, nm in enumerate(names):
                sl = next((s for s in slots if s["name"] == nm), None)
                items.append(self.fill_item(scope, depth, comp_index, nm, sl, first=(i == 0)))
            n["body"] = {"kind": "fills", "c": items}
        return n

    def fill_item(self, scope, depth, comp_index, slot_name, slotinfo, first):
        """One {% fill %} possibly wrapped in with/if/for (the first one is unconditional)."""
        has_ref = self.cfg["naming"] == "pool" or bool(scope.vars)
        wrap = "none"
        if has_ref and ((not first and self.chance(20)) or (first and self.chance(12))):
            # (a body whose fills ALL vanish at run time is the implicit default fill - documented in resolve_fills)
            wrap = "if"
        elif self.chance(15):
            wrap = "with"
        elif len(slot_name) == 1 and self.chance(25):
            wrap = "forname"
        elif self.chance(12):
            wrap = "withname"
        inner_scope = scope
        name_expr = {"lit": slot_name}
        wrapper = None
        if wrap == "none" and scope.loopvars and self.chance(35):
            wrap = "with"  # a tag inside a loop: the same fill tag is extracted once per iteration with another value
        if wrap == "with":
            v = self.name("b")
            e = {"var": self.pick(scope.loopvars)} if scope.loopvars and self.chance(60) else self.expr(scope)
            wrapper = {"t": "with", "n": v, "e": e, "c": None}
            inner_scope = scope.extend([v])
        elif wrap == "withname":
            v = self.name("n")
            wrapper = {"t": "with", "n": v, "e": {"lit": slot_name}, "c": None}
            inner_scope = scope.extend([v])
            name_expr = {"var": v}
        elif wrap == "forname":
            v = self.name("n")
            wrapper = {"t": "for", "v": v, "l": {"lit": slot_name}, "c": None}
            inner_scope = scope.extend([v], loop=True)
            name_expr = {"var": v}
        elif wrap == "if":
            cond = self.ref(scope)
            if scope.loops > 0 and self.chance(50):
                cond = self.pick(["forloop.first", "forloop.last"])  # differs between renders of the same tag
            wrapper = {"t": "if", "n": cond, "a": None, "b": []}
        # a second binding between the tag and the fill (inside or outside the first wrapper); with pooled names the two
        # often bind the same name, and then the innermost one has to win
        extra = None
        if self.chance(22 if self.cfg["naming"] == "pool" else 10):
            v2 = self.name("b")
            first_var = None if wrapper is None else wrapper.get("n") if wrapper["t"] == "with" else wrapper.get("v") if wrapper["t"] == "for" else None
            if first_var and wrap in ("with", "forname") and self.chance(50):
                v2 = first_var  # deliberately the same name twice
            if self.chance(50):
                extra = {"t": "with", "n": v2, "e": self.expr(scope), "c": None}
                inner_scope = inner_scope.extend([v2])
            else:
                extra = {"t": "for", "v": v2, "l": {"lit": self.pick(["a", "b", "q"])}, "c": None}
                inner_scope = inner_scope.extend([v2], loop=True)
            extra["_inside"] = self.chance(50)
        f = {"t": "fill", "name": name_expr, "c": []}
        body_scope = inner_scope
        if slotinfo and slotinfo["keys"] and self.chance(60) or self.chance(8):
            f["data"] = self.name("d")
            keys = (slotinfo["keys"] if slotinfo else []) or DATA_KEYS[:1]
            body_scope = body_scope.extend(["%s.%s" % (f["data"], k) for k in keys])
        f["c"] = self.nodes(body_scope, depth + 1, comp_index, 0, "fillbody")
        if extra is not None and self.chance(70):
            f["c"].insert(self.integer(0, len(f["c"])), self.varnode(v2))  # read the doubly bound name
        if self.chance(25):
            # the slot-default alias is only ever printed ({{ alias }}), never iterated / passed on
            dn = self.fresh("f")
            f["dflt"] = dn
            pos = self.integer(0, len(f["c"]))
            f["c"].insert(pos, self.varnode(dn))
            if self.chance(30):
                f["c"].insert(self.integer(0, len(f["c"])), self.varnode(dn))  # the default content printed twice
        inside = extra.pop("_inside") if extra is not None else False
        inner = f
        if extra is not None and (inside or wrapper is None):
            extra["c"] = [f]
            inner = extra
        if wrapper is None:
            return inner
        if wrapper["t"] == "if":
            wrapper["a"] = [inner]
        else:
            wrapper["c"] = [inner]
        if extra is not None and not inside:
            extra["c"] = [wrapper]
            return extra
        return wrapper

    # -- components & page -----------------------------------------------------------
    def component(self, index):
        name = "c%d" % index
        params = ["p%d" % i for i in range(self.integer(0, 2))]
        spec = {"name": name, "params": params, "data": [], "tpl": [], "_index": index, "_defslot": self.pick(SLOT_NAMES), "_slots": []}
        self.cur = spec
        for p in params:
            spec["data"].append([self.name("v"), ["kw", p]])
        for _ in range(self.integer(0, 2)):
            spec["data"].append([self.name("v"), ["const", self.value()]])
        if self.cfg["inject"] and self.chance(int(self.cfg.get("inject_pct", 60))):
            for _ in range(self.integer(1, 2)):
                dflt = self.pick([None, "dfl", "dfl", ""])  # incl. a falsy default
                spec["data"].append([self.name("j"), ["inject", self.pick(PROVIDE_KEYS), self.pick(["f1", "f1", "context"]), dflt]])
        if self.cfg["idecho"]:
            spec["data"].append([self.fresh("id"), ["id"]])
        if self.cfg["hooks"]:
            spec["hooks"] = {"before": self.chance(40), "after": self.chance(40), "tpl": self.chance(25)}
        if self.cfg.get("cssvars") and self.chance(30):
            spec["cssvars"] = True
        if self.cfg["assets"]:
            if self.chance(65):
                spec["js"] = "  " if self.chance(8) else "/*js_%s*/" % name
            if self.chance(65):
                spec["css"] = "\n" if self.chance(8) else "/*css_%s*/" % name
            if self.chance(55):
                media = {}
                if self.chance(70):
                    files = [self.pick(["m1.js", "m2.js", "m3.js", "sub/m4.js"]) for _ in range(self.integer(1, 3))]
                    files = list(dict.fromkeys(files))
                    media["js"] = files[0] if len(files) == 1 and self.chance(30) else files
                if self.chance(70):
                    r = self.integer(0, 2)
                    files = list(dict.fromkeys(self.pick(["s1.css", "s2.css", "s3.css"]) for _ in range(self.integer(1, 2))))
                    if r == 0:
                        media["css"] = files
                    elif r == 1:
                        media["css"] = files[0]
                    else:
                        media["css"] = {"all": files, "print": [self.pick(["s2.css", "p1.css"])]}
                spec["media"] = media
            later = [c["name"] for c in self.comps]
            if later and self.chance(25):
                spec["base"] = self.pick(later)
                if spec.get("media") and self.chance(35):
                    spec["media"]["extend"] = False  # this class's Media replaces, not extends, the Media of its bases
            if self.chance(int(self.cfg.get("nonascii_pct", 12))):
                spec["clsname"] = self.pick(["\u00dcbersicht", "Caf\u00e9", "\u041a\u043e\u043c\u043f"]) + "_%s" % name
        idvars = [v for v, s in spec["data"] if s[0] == "id"]
        scope = Scope([v for v, s in spec["data"] if s[0] != "id"], owner=name, idvar=idvars[0] if idvars else None)
        spec["tpl"] = self.nodes(scope, 0, index, 1)
        spec["_slots"] = collect_slots(spec["tpl"])
        return spec

    def program(self):
        k = self.integer(1, self.cfg["max_comps"])
        for index in reversed(range(k)):
            self.comps.insert(0, self.component(index))
        ctx = {}
        for _ in range(self.integer(1, 3)):
            ctx[self.name("g")] = self.value()
        if self.cfg.get("extra_probe"):
            ctx[self.cfg["extra_probe"]] = "uu"
        self.cur = None
        self.budget = max(self.budget, 15)
        scope = Scope(list(ctx.keys()), owner=None)
        tpl = self.nodes(scope, 0, None, 1)
        if not any(n["t"] == "comp" for n in walk(tpl)):
            self.budget = max(self.budget, 5)
            tpl.append(self.comp(scope, 0, None, "tpl"))
        if self.cfg.get("extra_unrendered"):
            # registered classes with assets that no template references
            for i in range(self.integer(0, 2)):
                extra = self.component(100 + i)
                extra["tpl"] = [{"t": "text", "s": self.fresh("t")}]
                self.comps.append(extra)
        comps = [{k: v for k, v in c.items() if not k.startswith("_")} for c in self.comps]
        if self.cfg.get("skeleton"):
            head = self.chance(75)
            body = self.chance(75)
            pre, post = [], []
            if head:
                pre.append({"t": "raw", "s": "<html><head><title>t</title>"})
                if self.chance(35):
                    pre.append({"t": "depcss"})
                pre.append({"t": "raw", "s": "</head>"})
            elif self.chance(25):
                pre.append({"t": "depcss"})
            if body:
                pre.append({"t": "raw", "s": "<body>"})
                if self.chance(35):
                    post.append({"t": "depjs"})
                post.append({"t": "raw", "s": "</body>"})
            elif self.chance(25):
                post.append({"t": "depjs"})
            if head:
                post.append({"t": "raw", "s": "</html>"})
            tpl = pre + tpl + post
        return {"comps": comps, "page": {"ctx": ctx, "tpl": tpl}}


def walk(nodes):
    for n in nodes:
        yield n
        for key in ("c", "a", "b"):
            if isinstance(n.get(key), list):
                yield from walk(n[key])
        body = n.get("body")
        if body:
            yield from walk(body["c"])


def collect_slots(nodes):
    out = {}
    for n in walk(nodes):
        if n["t"] == "slot":
            for nm in n.get("fornames") or [n["name"]]:
                s = out.setdefault(nm, {"name": nm, "keys": [], "default": False})
                for k in n.get("data") or {}:
                    if k not in s["keys"]:
                        s["keys"].append(k)
                s["default"] = s["default"] or bool(n.get("default"))
    return list(out.values())


@st.composite
def programs(draw, cfg=None):
    return Builder(draw, cfg).program()


def stats(program):
    """Structural statistics used for non-triviality rules and distribution labels."""
    s = {"comps": 0, "slots": 0, "fills": 0, "implicit": 0, "slot_in_fill": 0, "slot_in_default": 0, "loops": 0, "only": 0, "provide": 0, "dynfill": 0, "condfill": 0, "elems": 0, "dynslot": 0}

    def rec(nodes, in_fill, in_default):
        for n in nodes:
            t = n["t"]
            if t == "comp":
                s["comps"] += 1
                s["only"] += 1 if n.get("only") else 0
                body = n.get("body")
                if body:
                    if body["kind"] == "implicit":
                        s["implicit"] += 1
                        rec(body["c"], True, in_default)
                    else:
                        rec(body["c"], in_fill, in_default)
            elif t == "fill":
                s["fills"] += 1
                if "var" in n["name"]:
                    s["dynfill"] += 1
                rec(n["c"], True, in_default)
            elif t == "slot":
                s["slots"] += 1
                if n.get("nvar"):
                    s["dynslot"] += 1
                if in_fill:
                    s["slot_in_fill"] += 1
                if in_default:
                    s["slot_in_default"] += 1
                rec(n["c"], in_fill, True)
            elif t == "if":
                if any(x["t"] == "fill" for x in n["a"]):
                    s["condfill"] += 1
                rec(n["a"], in_fill, in_default)
                rec(n["b"], in_fill, in_default)
            elif t == "for":
                s["loops"] += 1
                rec(n["c"], in_fill, in_default)
            elif t in ("with", "provide", "elem", "block", "include"):
                if t == "provide":
                    s["provide"] += 1
                if t == "elem":
                    s["elems"] += 1
                rec(n.get("c") or [], in_fill, in_default)

    for c in program["comps"]:
        rec(c["tpl"], False, False)
    rec(program["page"]["tpl"], False, False)
    return s
