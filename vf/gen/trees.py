"""Scratch directory trees for C17 (static-files finder) and C20 (autodiscovery).

Every case gets a fresh directory below the per-process scratch dir (`vf.env.SCRATCH`, on /dev/shm);
it is removed when the case is over.  Trees are described by JSON-able lists of relative POSIX
paths; the oracles never trust the description but walk what really exists on disk with `os.walk`
(independent of `glob` and of Django's storage listing, which are what the code under test uses).
"""
import contextlib
import itertools
import os
import posixpath
import shutil

from vf import env

_counter = itertools.count(1)


@contextlib.contextmanager
def scratch_root(tag):
    """Fresh empty directory <SCRATCH>/<tag>/<n>; removed afterwards."""
    base = env.SCRATCH
    if base is None:  # replay before env.setup() would be a harness bug
        raise RuntimeError("vf.env.setup() has not run")
    root = os.path.join(base, tag, "n%d" % next(_counter))
    shutil.rmtree(root, ignore_errors=True)
    os.makedirs(root)
    try:
        yield root
    finally:
        shutil.rmtree(root, ignore_errors=True)


def safe_rel(rel):
    """True if `rel` is a plain relative path that stays below its base (generator sanity)."""
    if not rel or rel.startswith("/") or "\x00" in rel:
        return False
    parts = rel.split("/")
    return all(p not in ("", ".", "..") for p in parts)


def write_tree(base, files, content=""):
    """Create `files` (relative POSIX paths, or [path, content] pairs) below `base`.

    Entries that cannot be created because a path is already taken by a file/directory of the
    same name are skipped (deterministically, in list order).  Returns the list of created paths.
    """
    made = []
    for ent in files:
        rel, body = (ent, content) if isinstance(ent, str) else (ent[0], ent[1])
        if not safe_rel(rel):
            raise ValueError("unsafe relative path in generated tree: %r" % (rel,))
        full = os.path.join(base, *rel.split("/"))
        parent = os.path.dirname(full)
        try:
            os.makedirs(parent, exist_ok=True)
        except (FileExistsError, NotADirectoryError):
            continue
        if os.path.lexists(full):
            continue
        with open(full, "w", encoding="utf-8") as f:
            f.write(body)
        made.append(rel)
    return made


def walk_files(base):
    """Sorted relative POSIX paths of all regular files below `base` (os.walk, no symlink following)."""
    out = []
    if not os.path.isdir(base):
        return out
    for dirpath, dirnames, filenames in os.walk(base):
        dirnames.sort()
        rel_dir = os.path.relpath(dirpath, base)
        for fn in sorted(filenames):
            out.append(fn if rel_dir == "." else posixpath.join(rel_dir.replace(os.sep, "/"), fn))
    return sorted(out)


def is_under(path, base):
    """realpath(path) is `base` or below it."""
    rp, rb = os.path.realpath(path), os.path.realpath(base)
    return rp == rb or rp.startswith(rb.rstrip(os.sep) + os.sep)
