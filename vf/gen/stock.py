"""SG — generator of ordinary (stock) Django templates and template families.

A case is {"files": {name: source}, "main": name, "ctx": {...}}; all random choices are Hypothesis draws.
Block tags always have balanced, well-formed quotes and never contain `%}` inside a quoted string (the
precondition stated by property C10).
"""
from hypothesis import strategies as st

VARS_STR = ["a", "b", "c"]
VARS_INT = ["n", "m"]
FILTERS = ["upper", "lower", "title", "length", 'default:"dflt val"', "default:'x'", "add:n", 'add:"3"', 'join:", "', "first", "escape", "safe", 'cut:" "', "truncatechars:5", 'yesno:"y,n"', 'slice:":2"', "capfirst", "striptags", "linebreaksbr", "default_if_none:b", 'ljust:"6"', "floatformat:2", "escapejs", "wordcount", "addslashes"]
QUOTED = ['"a\\\\"', "'dir\\\\'", '"C:\\\\t\\\\"', '"x y"', "'x y'", '"it\'s"', "'say \"hi\"'", '"a\\"b"', "'a\\'b'", '"<b>&</b>"', '"50% off"', '"} }"', "'{ {'", '"#"', '""', "''", '"é ü"']
PADS = [" ", " ", " ", "  ", "\n", " \n  ", "\t"]
TEXTS = ["t1 ", "<p>", "</p>", "x & y", " ", "\n", "é", "{ not a tag }", "50%", "it's", 'say "q"', "<b>bold</b>", "  \n  "]

CTX_VALUES = {
    "a": ["", "hello", "<i>x</i>", "a b c", "it's", 'q"q'],
    "b": ["", "B", "b & b", None],
    "c": ["xyz", "", "c\nd"],
    "n": [0, 1, 7, -3],
    "m": [2, 10],
    "lst": [[], ["p"], ["p", "<q>", "r"], [3, 1, 2]],
    "d": [{}, {"k": "v", "j": "<w>"}],
    "flag": [True, False, None],
}


class SB:
    def __init__(self, draw, max_depth=3):
        self.draw = draw
        self.max_depth = max_depth
        self.counter = 0
        self.files = {}
        self.block_names = ["blk1", "blk2", "blk3"]

    def chance(self, pct):
        return self.draw(st.integers(0, 99)) < pct

    def pick(self, seq):
        return seq[self.draw(st.integers(0, len(seq) - 1))]

    def pad(self):
        return self.pick(PADS)

    def tag(self, *words):
        """{% w1 w2 ... %} with generated (possibly multi-line) padding."""
        return "{%" + self.pad() + self.pad().join(words) + self.pad() + "%}"

    def var(self, loopvars=()):
        names = VARS_STR + VARS_INT + ["lst", "d.k", "d.j", "d.missing", "flag", "undefined_v", "lst.0", "a.upper"] + list(loopvars)
        v = self.pick(names)
        for _ in range(self.draw(st.integers(0, 2))):
            v += "|" + self.pick(FILTERS)
        return v

    def cond(self, loopvars=()):
        r = self.draw(st.integers(0, 7))
        a = self.pick(VARS_STR + ["flag", "lst", "n"] + list(loopvars))
        if r == 0:
            return [a]
        if r == 1:
            return ["not", a]
        if r == 2:
            return ["n", self.pick([">", "<", ">=", "==", "!="]), str(self.draw(st.integers(0, 8)))]
        if r == 3:
            return ["a", "==", self.pick(QUOTED)]
        if r == 4:
            return [self.pick(QUOTED), "in", "lst"]
        if r == 5:
            return [a, self.pick(["and", "or"]), self.pick(VARS_STR)]
        if r == 6:
            return ["a|length", ">", "3"]
        return [a, "is", "None"]

    def nodes(self, depth, loopvars=(), in_loop=False, allow_blocks=False, n_max=4):
        k = self.draw(st.integers(1, n_max))
        return "".join(self.node(depth, loopvars, in_loop, allow_blocks) for _ in range(k))

    def node(self, depth, loopvars, in_loop, allow_blocks):
        deep = depth < self.max_depth
        choices = ["text", "text", "var", "var", "firstof", "echo", "echo", "comment1", "templatetag", "widthratio", "verbatim", "lorem", "pct"]
        if deep:
            choices += ["if", "if", "for", "with", "filter", "autoescape", "spaceless", "comment", "include", "ifchanged"]
            if allow_blocks:
                choices += ["block", "block"]
        if in_loop:
            choices += ["cycle", "forloopvar"]
        kind = self.pick(choices)
        d = depth + 1
        if kind == "text":
            return self.pick(TEXTS)
        if kind == "var":
            return "{{" + self.pick([" ", "", "  "]) + self.var(loopvars) + self.pick([" ", ""]) + "}}"
        if kind == "forloopvar":
            return "{{ forloop." + self.pick(["counter", "counter0", "first", "last", "revcounter", "parentloop.counter"]) + " }}"
        if kind == "firstof":
            return self.tag("firstof", self.pick(VARS_STR), self.pick(VARS_STR + ["undefined_v"]), self.pick(QUOTED))
        if kind == "echo":
            args = [self.pick(QUOTED + VARS_STR + ["n", "a|upper", 'a|default:"d d"']) for _ in range(self.draw(st.integers(0, 3)))]
            if self.chance(50):
                args.append("k=" + self.pick(QUOTED))
            return self.tag("vf_echo", *args)
        if kind == "pct":
            # a lone `%` outside any string, in a tag that also has a quoted string (quote-aware tokenising path)
            word = self.pick(["100%", '5%"y"', "%", "a%b", "5%'z'", "%%", "50 % 3", '%"q"'])
            close = self.pick(["%}", " %}", "%}"])
            if self.chance(60):
                return "{% comment " + self.pick(QUOTED) + " " + word + close + self.pick(["{{ a }}", "text", ""]) + self.tag("endcomment") + self.pick(TEXTS)
            return "{% vf_echo " + self.pick(QUOTED) + " " + word + close + self.pick(TEXTS) + self.tag("vf_echo", self.pick(QUOTED))
        if kind == "comment1":
            return "{#" + self.pick([" note ", " it's \"q\" ", " {% if %} ", ""]) + "#}"
        if kind == "templatetag":
            return self.tag("templatetag", self.pick(["openblock", "closeblock", "openvariable", "closevariable", "openbrace", "opencomment"]))
        if kind == "widthratio":
            return self.tag("widthratio", self.pick(["n", "m", "a"]), self.pick(["m", "10"]), "100")
        if kind == "lorem":
            return self.tag("lorem", str(self.draw(st.integers(1, 3))), "w")
        if kind == "verbatim":
            body = self.pick(["{{ raw }}", "{% if x %}", "plain", "{# c #}", '{% t "q" %}', "{{ a }}{% endverbatimx %}"])
            if self.chance(40):
                name = self.pick(["vb", "blk", "x1", '"lbl"', "'q l'", '"a b"'])  # incl. quoted labels
                return self.tag("verbatim", name) + body + "{% endverbatim " + name + " %}"
            return self.tag("verbatim") + body + self.tag("endverbatim")
        if kind == "cycle":
            vals = [self.pick(QUOTED + VARS_STR) for _ in range(self.draw(st.integers(1, 3)))]
            if self.chance(25):
                return self.tag("cycle", *vals, "as", "cyc") + "{{ cyc }}" + (self.tag("resetcycle") if self.chance(30) else "")
            return self.tag("cycle", *vals)
        if kind == "if":
            s = self.tag("if", *self.cond(loopvars)) + self.nodes(d, loopvars, in_loop, allow_blocks, 3)
            if self.chance(35):
                s += self.tag("elif", *self.cond(loopvars)) + self.nodes(d, loopvars, in_loop, allow_blocks, 2)
            if self.chance(50):
                s += self.tag("else") + self.nodes(d, loopvars, in_loop, allow_blocks, 2)
            return s + self.tag("endif")
        if kind == "for":
            self.counter += 1
            lv = "it%d" % self.counter
            seq = self.pick(["lst", "lst", "a", "d.items", "undefined_v", "lst|slice:\":2\""])
            head = self.tag("for", lv, "in", seq) if seq != "d.items" else self.tag("for", lv + ",v%d" % self.counter, "in", seq)
            s = head + self.nodes(d, tuple(loopvars) + (lv,), True, False, 3)
            if self.chance(35):
                s += self.tag("empty") + self.nodes(d, loopvars, in_loop, False, 2)
            return s + self.tag("endfor")
        if kind == "with":
            self.counter += 1
            wv = "w%d" % self.counter
            binds = ["%s=%s" % (wv, self.pick(QUOTED + ["a|upper", "n|add:1", "lst", 'b|default:"no b"']))]
            if self.chance(30):
                binds.append("a=%s" % self.pick(QUOTED))
            return self.tag("with", *binds) + "{{ %s }}" % wv + self.nodes(d, loopvars, in_loop, allow_blocks, 3) + self.tag("endwith")
        if kind == "filter":
            return self.tag("filter", self.pick(["upper", "lower|title", 'cut:" "', "force_escape", 'default:"q q"'])) + self.nodes(d, loopvars, in_loop, False, 2) + self.tag("endfilter")
        if kind == "autoescape":
            return self.tag("autoescape", self.pick(["on", "off"])) + self.nodes(d, loopvars, in_loop, allow_blocks, 3) + self.tag("endautoescape")
        if kind == "spaceless":
            return self.tag("spaceless") + "<p> <b>" + self.nodes(d, loopvars, in_loop, False, 2) + "</b> </p> <i></i>" + self.tag("endspaceless")
        if kind == "comment":
            head = self.tag("comment", self.pick(QUOTED)) if self.chance(50) else self.tag("comment")
            return head + self.pick(["{{ a }}", "{% if %}", "text", "{% endif %}"]) + self.tag("endcomment")
        if kind == "ifchanged":
            return self.tag("ifchanged") + "{{ " + self.pick(list(loopvars) or ["a"]) + " }}" + self.tag("endifchanged")
        if kind == "include":
            self.counter += 1
            name = "inc_%d.html" % self.counter
            self.files[name] = "{% load vf_tags %}" + self.nodes(d, (), False, False, 3)
            words = ["include", self.pick(['"%s"' % name, "'%s'" % name])]
            if self.chance(40):
                words += ["with", "a=%s" % self.pick(QUOTED + ["b", "n"])]
                if self.chance(40):
                    words.append("only")
            if self.chance(6):
                words[1] = '"missing_%d.html"' % self.counter
            return self.tag(*words)
        if kind == "block":
            if not self.block_names:
                return self.pick(TEXTS)
            name = self.pick(self.block_names)
            self.block_names = [b for b in self.block_names if b != name]  # block names are unique per template
            if not name:
                return "x"
            return self.tag("block", name) + self.nodes(d, loopvars, in_loop, False, 3) + self.tag("endblock", *([name] if self.chance(30) else []))
        raise AssertionError(kind)


@st.composite
def stock_cases(draw):
    sb = SB(draw)
    shape = draw(st.integers(0, 9))
    files = sb.files
    if shape < 4:
        files["main.html"] = "{% load vf_tags %}" + sb.nodes(0, allow_blocks=True)
    else:
        # base <- (mid <-) child
        files["base.html"] = "{% load vf_tags %}<html>" + sb.nodes(0, allow_blocks=True) + (sb.tag("block", "extra") + "E" + sb.tag("endblock") if sb.chance(50) else "") + "</html>"
        used = [b for b in ["blk1", "blk2", "blk3"] if b not in sb.block_names] + (["extra"] if "extra" in files["base.html"] else [])
        parent = "base.html"
        if shape >= 8:
            sb2 = SB(draw)
            sb2.files = files
            sb2.counter = 100
            mid = sb.tag("extends", sb.pick(['"base.html"', "'base.html'"])) + "{% load vf_tags %}ignored text"
            for b in used:
                if sb.chance(50):
                    mid += sb.tag("block", b) + ("{{ block.super }}" if sb.chance(50) else "") + sb2.nodes(1, n_max=2) + sb.tag("endblock")
            files["mid.html"] = mid
            parent = "mid.html"
        sb3 = SB(draw)
        sb3.files = files
        sb3.counter = 200
        child = sb.tag("extends", '"%s"' % parent) + "\n{% load vf_tags %}"
        for b in used + (["nosuch"] if sb.chance(20) else []):
            if sb.chance(65):
                child += sb.tag("block", b) + ("{{ block.super }}" if sb.chance(45) else "") + sb3.nodes(1, n_max=3) + ("{{ block.super }}" if sb.chance(15) else "") + sb.tag("endblock") + "\n"
        files["main.html"] = child
    if draw(st.integers(0, 99)) < 8:
        # a compile-time error somewhere after the generated content: stock Django and the patched Template must report
        # the same error, incl. the line number in the message / template_debug
        victim = draw(st.sampled_from(sorted(files)))
        files[victim] += draw(st.sampled_from(["\n{% nosuchtag %}", "{% if a %}unclosed", "\n\n{% endfor %}", "{{ a|nosuchfilter }}", "\n{% for x in %}"]))
    ctx = {k: draw(st.sampled_from(v)) for k, v in CTX_VALUES.items() if draw(st.integers(0, 9)) < 8}
    return {"files": dict(files), "main": "main.html", "ctx": ctx, "debug": draw(st.booleans())}
