"""Running a PG program through the real library and through the reference interpreter."""
from vf import env
from vf.core import exc_bucket
from vf.gen import pg


class RunResult:
    def __init__(self):
        self.out = None  # raw html
        self.exc = None
        self.rec = None
        self.residue = None
        self.ctx_unchanged = None
        self.ctx_diff = None


def run_real(program, mode, opts=None, budget=None, tick=None, keep_state=False, extra_ctx=None):
    """Render the page with the real library under `mode`. Returns RunResult."""
    from django.template import Context, Template

    if not keep_state:
        env.reset()
    res = RunResult()
    from vf import vf_tags

    rec = pg.Recorder(budget or 2000)
    rec.tick = tick
    res.rec = rec
    vf_tags.TICK["fn"] = rec.visit if tick is not None else None
    with env.components_settings(context_behavior=mode):
        try:
            classes, src = pg.build(program, rec, opts)
            ctx = dict(program["page"]["ctx"])
            ctx.update(extra_ctx or {})
            if opts and opts.get("dynamic") == "class" or "cls_" in src:
                for name, cls in classes.items():
                    ctx["cls_%s" % name] = cls
            res.src = src
            res.classes = classes
            t = Template(src)
            c = Context(ctx)
            with c.update({"vf_layer": "L"}):  # the caller has a scope of its own open
                before = ([dict(d) for d in c.dicts], len(c.render_context.dicts), c.template, dict(c.render_context.dicts[-1]))
                try:
                    res.out = t.render(c)
                finally:
                    after = ([dict(d) for d in c.dicts], len(c.render_context.dicts), c.template, dict(c.render_context.dicts[-1]))
                    res.ctx_unchanged = before == after
                    if not res.ctx_unchanged:
                        res.ctx_diff = "before=%r after=%r" % (before, after)
        except RecursionError as e:
            res.exc = e
        except Exception as e:  # noqa
            res.exc = e
    res.residue = {k: v for k, v in env.registry_sizes().items() if v}
    # the generated classes (still registered) close over the recorder: do not let it keep the ticker
    # (and through it an injected exception with its traceback) alive
    rec.tick = None
    vf_tags.TICK["fn"] = None
    return res


def run_model(program, mode):
    """Returns ('ok', text, interp) | ('error', msg, interp) | ('wild', None, interp)."""
    it = pg.Interp(program, mode)
    try:
        tree = it.run()
    except pg.ExpectedError as e:
        return "error", str(e), it
    except pg.WildCondition:
        return "wild", None, it
    except pg.ModelBudget:
        return "budget", None, it
    it.tree = tree
    return "ok", pg.flatten(tree), it


def compare(program, mode, opts=None):
    """C01 core oracle. Returns (list of (message, bucket), info dict)."""
    from django.template import TemplateSyntaxError

    kind, exp, it = run_model(program, mode)
    info = {"model": kind, "instances": len(it.instances), "n_filled": it.n_filled, "n_default": it.n_default}
    if kind in ("wild", "budget"):
        return [], info
    res = run_real(program, mode, opts, budget=20 * len(it.instances) + 50)
    info["real_exc"] = type(res.exc).__name__ if res.exc else None
    fails = []
    if kind == "error":
        if res.exc is None:
            fails.append(("[%s] model expects TemplateSyntaxError (%s) but render succeeded: %r" % (mode, exp, pg.normalize_real(res.out)[:300]), "c01-missing-error"))
        elif not isinstance(res.exc, TemplateSyntaxError):
            fails.append(("[%s] model expects TemplateSyntaxError (%s) but got %r" % (mode, exp, res.exc), "c01-wrong-error:" + exc_bucket(res.exc)))
        return fails, info
    if res.exc is not None:
        if isinstance(res.exc, pg.Budget) or isinstance(res.exc, RecursionError):
            fails.append(("[%s] render does not terminate: %r; expected %r" % (mode, res.exc, exp[:300]), "c01-nontermination"))
        else:
            fails.append(("[%s] unexpected %r; expected output %r" % (mode, res.exc, exp[:300]), "c01-exc:" + exc_bucket(res.exc)))
        return fails, info
    real = pg.normalize_real(res.out)
    if not pg.matches(exp, real):
        fails.append(("[%s] output differs\n expected: %r\n real:     %r" % (mode, exp[:600], real[:600]), "c01-output"))
    info["real"] = real
    return fails, info
