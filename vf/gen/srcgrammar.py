"""Template-source grammar (Hypothesis strategies) for lexer-level checks.

`sources()` draws a template *source string* assembled from parts:

* text runs (letters, blanks, newlines, stray braces / percent / hash / quote / backslash characters),
* `{{ ... }}` and `{# ... #}` (bodies may hold quotes, `%}`, newlines),
* `{% ... %}` block tags with 0..n arguments: bare words, quoted strings of both kinds (with escaped quotes,
  escaped backslashes, the other quote kind, embedded `%}` / `}}` / `{%` / `{{` / newlines), `key="..."`,
  filter arguments `v|f:"..."`, `_("...")`, bare `%` characters; the padding between the parts may contain
  newlines (multi-line tags),
* plain and named verbatim blocks (bare or quoted names), with look-alike end tags in the body, with the right
  end tag, a wrong one, or none,
* unterminated constructs (`{% a`, `{{ a`, `{# a`, a tag with an unterminated quote, mixed quote kinds),
* "chaos": a short random concatenation of the syntax tokens.

Everything is generated constructively (no filtering). The strategies only *bias* towards interesting
structure: any string is a legal input of a lexer, so nothing here is a precondition.

`wellformed_parts()` draws a list of [kind, text] parts that every stock Django engine compiles (text, var,
comment, `{% vf_echo ... %}` calls with quoted arguments, verbatim blocks); used for end-to-end checks.
"""
from hypothesis import strategies as st

WORDS = ["a", "x", "if", "t", "component", "endif", "end", "key", "verbatimx", "not", "v.w"]
SYNTAX_TOKENS = ["{%", "%}", "{{", "}}", "{#", "#}", '"', "'", "\\", "\n", " ", "x", "%", "verbatim", "endverbatim", "=", "{", "}"]

_TEXT_CHUNKS = ["a", "b c", " ", "\n", "\n\n", " \n", "<b>", "</b>", "{", "}", "%", "#", "'", '"', "\\", "{ %", "% }", "it's", 'say "q"', "é", "\r\n", "50%", "}}", "%}", "#}"]
_PADS = [" ", " ", " ", "  ", "\n", " \n ", "\t", "\n\n", "\n    "]
_EDGE_PADS = [" ", " ", " ", "", "\n", " \n", "\n  ", "  "]


def _join(parts):
    return "".join(parts)


def text_runs(max_chunks=4):
    return st.lists(st.sampled_from(_TEXT_CHUNKS), min_size=1, max_size=max_chunks).map(_join)


def quoted_strings(allow_close=True):
    """A quoted string literal: either quote kind, escapes, the other quote, tag delimiters, newlines."""

    def build(q):
        other = "'" if q == '"' else '"'
        chunks = ["a", "b c", " ", "", "=", "\\" + q, "\\\\", other, "%", "{% t %}", "{{ v }}", "{# c #}", "é", "/"]
        if allow_close:
            chunks += ["%}", "%}", "}}", "{%", "{{", "#}", "\n", " %} ", "\\n"]
        return st.lists(st.sampled_from(chunks), max_size=4).map(lambda cs: q + "".join(cs) + q)

    return st.sampled_from(['"', "'"]).flatmap(build)


def tag_args(allow_close=True):
    q = quoted_strings(allow_close)
    word = st.sampled_from(WORDS)
    return st.one_of(
        word,
        q,
        q,
        st.tuples(word, q).map(lambda t: "%s=%s" % t),
        st.tuples(word, q).map(lambda t: "%s|default:%s" % t),
        q.map(lambda s: "_(%s)" % s),
        st.sampled_from(["%", "50%", "/", "k=v", "a%b", "1", "[1, 2]", "{", "}", "only"]),
    )


def block_tags(names=None, allow_close=True, min_args=0, max_args=4):
    name = st.sampled_from(names or WORDS)
    return st.builds(
        lambda lp, nm, args, pads, tp: "{%" + lp + nm + "".join(p + a for p, a in zip(pads, args)) + tp + "%}",
        st.sampled_from(_EDGE_PADS),
        name,
        st.lists(tag_args(allow_close), min_size=min_args, max_size=max_args),
        st.lists(st.sampled_from(_PADS), min_size=max_args, max_size=max_args),
        st.sampled_from(_EDGE_PADS),
    )


def var_tags():
    body = st.lists(st.sampled_from(["v", " ", "a.b", "|f", ':"x"', "'", '"', "%}", "\n", "{%", "{", "}", "#}"]), max_size=4).map(_join)
    return body.map(lambda b: "{{" + b + "}}")


def comment_tags():
    body = st.lists(st.sampled_from(["c", " ", "it's", '"', "%}", "}}", "\n", "{%", "{{", "#"]), max_size=4).map(_join)
    return body.map(lambda b: "{#" + b + "#}")


VERBATIM_NAMES = [None, None, "blk", '"x"', "'my b'", '"a b"', '"e\\"q"', "'%'", '"p%}q"', "k='v'", '""']


def _simple_parts():
    return st.one_of(text_runs(), var_tags(), comment_tags(), block_tags(), block_tags(min_args=1))


def verbatim_blocks():
    def build(name, lp, tp, body, closing, tail):
        content = "verbatim" + ("" if name is None else " " + name)
        s = "{%" + lp + content + tp + "%}" + "".join(body)
        if closing == "exact":
            s += "{% end" + content + " %}"
        elif closing == "tight":
            s += "{%end" + content + "%}"
        elif closing == "plain":
            s += "{% endverbatim %}"
        elif closing == "wrong":
            s += "{% endverbatim other %}"
        elif closing == "spaced":
            s += "{% end" + content.replace(" ", "  ") + " %}"
        return s + tail

    lookalikes = st.sampled_from(["{% endverbatim %}", "{% endverbatim zz %}", "{% verbatim %}", '{% endverbatim "y" %}', "{% endverbatim", "{% it's %}", '{% a "b%}c" %}'])
    body = st.lists(st.one_of(_simple_parts(), lookalikes), max_size=4)
    return st.builds(
        build,
        st.sampled_from(VERBATIM_NAMES),
        st.sampled_from(_EDGE_PADS),
        st.sampled_from(_EDGE_PADS),
        body,
        st.sampled_from(["exact", "exact", "exact", "tight", "plain", "wrong", "spaced", "none"]),
        st.one_of(st.just(""), var_tags(), block_tags(min_args=1)),
    )


def unterminated():
    q = quoted_strings()
    return st.one_of(
        st.sampled_from(["{% a ", "{{ a ", "{# a ", "{%", "{{", "{#", '{% a "b %}', "{% a 'b %}", "{% a 'b\" %}", '{% a "b\\" %}', '{% a "b', "{% a \"b%}\" ", "{% it's %}", '{% a "b" \\" %}']),
        st.tuples(st.sampled_from(WORDS), q).map(lambda t: "{% " + t[0] + " " + t[1]),
        st.tuples(st.sampled_from(WORDS), q).map(lambda t: "{% " + t[0] + " " + t[1][:-1] + " %}"),
        st.tuples(st.sampled_from(WORDS), q).map(lambda t: "{% " + t[0] + " " + t[1][1:] + " %}"),
    )


def chaos(max_tokens=10):
    return st.lists(st.sampled_from(SYNTAX_TOKENS), max_size=max_tokens).map(_join)


def parts():
    return st.one_of(
        text_runs(),
        text_runs(),
        var_tags(),
        comment_tags(),
        block_tags(),
        block_tags(min_args=1),
        block_tags(min_args=1),
        block_tags(min_args=1, allow_close=False),
        verbatim_blocks(),
        unterminated(),
        chaos(),
    )


def sources(max_parts=9):
    """Template source strings."""
    return st.lists(parts(), max_size=max_parts).map(_join)


# ---------------------------------------------------------------------------
# well-formed templates (every part compiles with a stock engine that has vf.vf_tags as builtin)


def wellformed_parts(max_parts=8):
    safe_q = st.sampled_from(['"', "'"]).flatmap(
        lambda q: st.lists(st.sampled_from(["a", "b c", " ", "%}", "}}", "{%", "{{", "\n", "%", "=", "{% t %}", "é", "'" if q == '"' else '"']), max_size=4).map(
            lambda cs: q + "".join(cs) + q
        )
    )
    # Django's own kwarg regex `(\w+)=(.+)` stops at a newline, so keyword values stay on one line
    kw_q = safe_q.map(lambda s: s.replace("\n", " "))
    pos_arg = st.one_of(safe_q, safe_q, st.sampled_from(["v", "1", "w.x"]))
    # positional arguments first, then at most two distinct keywords (what any simple_tag accepts)
    args = st.tuples(st.lists(pos_arg, max_size=2), st.sampled_from([[], [], ["k"], ["k", "kw"]]), st.lists(kw_q, min_size=2, max_size=2)).map(
        lambda t: t[0] + ["%s=%s" % (k, v) for k, v in zip(t[1], t[2])]
    )
    echo = st.builds(
        lambda lp, args, pads, tp: "{%" + lp + "vf_echo" + "".join(p + a for p, a in zip(pads, args)) + tp + "%}",
        st.sampled_from([" ", "\n", " \n ", ""]),
        args,
        st.lists(st.sampled_from([" ", " ", "\n", " \n  ", "  "]), min_size=4, max_size=4),
        st.sampled_from([" ", "\n", " \n", "\n\n "]),
    )
    text = st.lists(st.sampled_from(["a", "b c", " ", "\n", "\n\n", "<p>", "it's", '"', "%", "}"]), min_size=1, max_size=4).map(_join)
    var = st.sampled_from(["{{ v }}", "{{v}}", '{{ v|default:"%}" }}', "{{ w.x }}", "{{\nv\n}}"])
    comment = st.sampled_from(["{# c #}", "{# it's #}", '{# " #}', "{##}"])
    vname = st.sampled_from(["", "", " blk", ' "x"', " 'my b'"])
    vbody = st.lists(st.sampled_from(["a", "\n", "{{ v }}", "{% endverbatim %}", "{% c09inner %}", "{% endverbatim zz %}", "{# c #}", '{% q "z" %}']), max_size=4).map(_join)

    def verb(name, body):
        if name == "":
            body = body.replace("{% endverbatim %}", "")
        return "{% verbatim" + name + " %}" + body + "{% endverbatim" + name + " %}"

    verbatim = st.builds(verb, vname, vbody)
    part = st.one_of(
        text.map(lambda s: ["text", s]),
        var.map(lambda s: ["var", s]),
        comment.map(lambda s: ["comment", s]),
        echo.map(lambda s: ["echo", s]),
        echo.map(lambda s: ["echo", s]),
        verbatim.map(lambda s: ["verbatim", s]),
    )
    return st.lists(part, max_size=max_parts)
