"""PG — component programs: JSON AST, template printer, class builder and an independent reference interpreter.

Program (JSON):
  {"comps": [{"name": "c0", "params": ["p0"], "data": [[var, src], ...], "tpl": [node, ...],
              "js": str|None, "css": str|None, "media": {...}|None, "hooks": {...}}],
   "page": {"ctx": {name: value}, "tpl": [node, ...]}}
All values are alphanumeric strings (a string is also the iterable of {% for %}: its characters).

Node kinds ("t"):
  text{s} elem{tag,m,c} var{n,p?} if{n,a,b} for{v,l,c} with{n,e,c}
  slot{name,default,required,data{k:e},c}  comp{name,kwargs{k:e},only,body,dyn?}
  fill{name(e),data?,dflt?,c}  provide{key,kwargs{k:e},c}  isfilled{name,p?}
  tick{label} (C06: {% vf_ticktag %})   depjs / depcss (C04 placeholders)
body: None | {"kind":"implicit","c":[...]} | {"kind":"fills","c":[fill | if | for | with ...]}
expr e: {"lit": "tok"} | {"var": "name"}
src (get_context_data): ["const", s] | ["kw", param] | ["id"] | ["inject", key, field, default|None]
"""
import re
import sys
import types

# ---------------------------------------------------------------------------
# printer


def p_expr(e):
    base = '"%s"' % e["lit"] if "lit" in e else e["var"]
    if e.get("tick"):
        return '%s|vf_tick:"%s"' % (base, e["tick"])  # C06: user code (a filter) inside a tag ARGUMENT; the value is unchanged
    return base


def p_kwargs(kw):
    return "".join(" %s=%s" % (k, p_expr(v)) for k, v in kw.items())


def p_nodes(nodes, opts=None):
    return "".join(p_node(n, opts) for n in nodes)


def p_node(n, opts=None):
    t = n["t"]
    if t == "text":
        if n.get("sup") and opts and opts.get("super_for") == n["sup"]:
            return "{{ block.super }}"  # C10: this text is the parent block's content, referred to from the child block
        return n["s"]
    if t == "elem":
        if n.get("void"):
            return '<%s data-m="%s">' % (n["tag"], n["m"])
        extra = ""
        if n.get("idvar"):
            # idmk: the echo spells the marker attribute's own name (as a CSS selector / script in a template would)
            extra = ' data-echo="%s{{ %s }}"' % ("data-djc-id-" if n.get("idmk") else "", n["idvar"])
        return '<%s data-m="%s"%s>%s</%s>' % (n["tag"], n["m"], extra, p_nodes(n["c"], opts), n["tag"])
    if t == "var":
        if n.get("p") is not None:
            return "[p%s:{{ %s }}]" % (n["p"], n["n"])
        return "{{ %s }}" % n["n"]
    if t == "assign":
        return "{%% firstof %s as %s %%}" % (p_expr(n["e"]), n["n"])
    if t == "isfilled":
        key = re.sub(r"[^\w]", "_", n["name"])  # documented: characters that cannot be in a variable name become "_"
        if n.get("p") is not None:
            return "[p%s:{{ component_vars.is_filled.%s }}]" % (n["p"], key)
        return "{{ component_vars.is_filled.%s }}" % key
    if t == "if":
        return "{%% if %s %%}%s{%% else %%}%s{%% endif %%}" % (n["n"], p_nodes(n["a"], opts), p_nodes(n["b"], opts))
    if t == "for":
        return "{%% for %s in %s %%}%s{%% endfor %%}" % (n["v"], p_expr(n["l"]), p_nodes(n["c"], opts))
    if t == "with":
        return "{%% with %s=%s %%}%s{%% endwith %%}" % (n["n"], p_expr(n["e"]), p_nodes(n["c"], opts))
    if t == "slot":
        flags = (" default" if n.get("default") else "") + (" required" if n.get("required") else "")
        name = n["nvar"] if n.get("nvar") else '"%s"' % n["name"]  # nvar: the name comes from a variable
        return "{%% slot %s%s%s %%}%s{%% endslot %%}" % (name, p_kwargs(n.get("data") or {}), flags, p_nodes(n["c"], opts))
    if t == "comp":
        dyn = (opts or {}).get("dynamic") or n.get("dyn")
        if dyn == "name":
            head = '{%% component "dynamic" is="%s"%s' % (n["name"], p_kwargs(n["kwargs"]))
        elif dyn == "class":
            head = '{%% component "dynamic" is=cls_%s%s' % (n["name"], p_kwargs(n["kwargs"]))
        else:
            head = '{%% component "%s"%s' % (n["name"], p_kwargs(n["kwargs"]))
        if n.get("only"):
            head += " only"
        body = n.get("body")
        if body is None:
            return head + " / %}"
        return head + " %}" + p_nodes(body["c"], opts) + "{% endcomponent %}"
    if t == "fill":
        s = "{%% fill %s" % p_expr(n["name"])
        if n.get("data"):
            s += ' data="%s"' % n["data"]
        if n.get("dflt"):
            s += ' default="%s"' % n["dflt"]
        return s + " %}" + p_nodes(n["c"], opts) + "{% endfill %}"
    if t == "provide":
        return '{%% provide "%s"%s %%}%s{%% endprovide %%}' % (n["key"], p_kwargs(n["kwargs"]), p_nodes(n["c"], opts))
    if t == "tick":
        return '{%% vf_ticktag "%s" %%}' % n["label"]
    if t == "tickvar":
        return '{{ %s|vf_tick:"%s" }}' % (n["n"], n["label"])
    if t == "depjs":
        return "{% component_js_dependencies %}"
    if t == "depcss":
        return "{% component_css_dependencies %}"
    if t == "raw":
        return n["s"]
    if t in ("block", "include"):
        # C10: a region that a family printer turns into {% block %} / {% include %}; transparent when flat
        bp = (opts or {}).get("block_printer")
        if bp is not None:
            return bp(n, opts)
        return p_nodes(n["c"], opts)
    raise ValueError("unknown node %r" % (t,))


def template_source(nodes, opts=None, load=False):
    src = p_nodes(nodes, opts)
    if load or "vf_tick" in src:
        src = "{% load vf_tags %}" + src
    return src


# ---------------------------------------------------------------------------
# building real classes


class Budget(Exception):
    pass


class Recorder:
    """Per-render side channel used by generated user code (instances, ticks, injected values)."""

    def __init__(self, budget=5000):
        self.instances = []  # (comp name, render id, kwargs)
        self.injected = []  # (comp name, key, value-or-marker)
        self.budget = budget
        self.tick = None  # callable(label) for C06

    def visit(self, label):
        self.budget -= 1
        if self.budget < 0:
            raise Budget("render does not terminate (instance budget exceeded)")
        if self.tick is not None:
            self.tick(label)


def _payload_repr(val):
    try:
        return "|".join("%s=%s" % (k, v) for k, v in sorted(val._asdict().items()))
    except Exception:
        return repr(val)


def build(program, rec, opts=None, name_prefix=""):
    """Register the program's component classes; returns (classes by name, page source)."""
    from django_components import Component, registry

    classes = {}
    opts = opts or {}
    by_name = {c["name"]: c for c in program["comps"]}
    order = []

    def visit(c):
        if c["name"] in [o["name"] for o in order]:
            return
        if c.get("base") and c["base"] in by_name:
            visit(by_name[c["base"]])
        order.append(c)

    for c in program["comps"]:
        visit(c)
    overrides = opts.get("sources") or {}
    for spec in order:
        src = overrides.get(spec["name"]) or template_source(spec["tpl"], opts)

        def make_gcd(spec):
            def get_context_data(self, *args, **kwargs):
                rec.visit("gcd:%s%s" % (spec["name"], ("@" + str(kwargs["uid"])) if "uid" in kwargs else ""))
                rec.instances.append((spec["name"], self.id, dict(kwargs)))
                out = {}
                for var, s in spec["data"]:
                    if s[0] == "const":
                        out[var] = s[1]
                    elif s[0] == "kw":
                        out[var] = kwargs.get(s[1], "")
                    elif s[0] == "id":
                        out[var] = self.id
                    elif s[0] == "tail":
                        out[var] = str(kwargs.get(s[1], ""))[1:]
                    elif s[0] == "inject":
                        key, field, dflt = s[1], s[2], s[3]
                        rec.visit("inject:%s%s" % (spec["name"], ("@" + str(kwargs["uid"])) if "uid" in kwargs else ""))
                        try:
                            if dflt is None:
                                val = self.inject(key)
                            else:
                                val = self.inject(key, dflt)
                        except KeyError:
                            rec.injected.append((spec["name"], key, "<KeyError>"))
                            out[var] = "KeyError"
                            continue
                        if isinstance(val, str):
                            rec.injected.append((spec["name"], key, "<default:%s>" % val))
                            out[var] = val
                        else:
                            rec.injected.append((spec["name"], key, _payload_repr(val)))
                            out[var] = getattr(val, field, "nofield")
                return out

            return get_context_data

        attrs = {"template": src, "get_context_data": make_gcd(spec)}
        hooks = spec.get("hooks") or {}
        if hooks.get("before"):

            def on_render_before(self, context, template, _n=spec["name"]):
                rec.visit("before:%s" % _n)

            attrs["on_render_before"] = on_render_before
        if hooks.get("after"):

            def on_render_after(self, context, template, content, _n=spec["name"]):
                rec.visit("after:%s" % _n)
                return None

            attrs["on_render_after"] = on_render_after
        if hooks.get("tpl"):
            # the template comes from the get_template() hook (user code that is called with the Context)
            def get_template(self, context, _n=spec["name"], _src=src):
                rec.visit("tpl:%s" % _n)
                return _src

            attrs["get_template"] = get_template
            del attrs["template"]
        if spec.get("js") is not None:
            attrs["js"] = spec["js"]
        if spec.get("css") is not None:
            attrs["css"] = spec["css"]
        if spec.get("cssvars"):
            # CSS variables: the instance's root elements additionally get a data-djc-css-<hash> attribute
            attrs.setdefault("css", "/*css_%s*/" % spec["name"])
            attrs["get_css_data"] = lambda self, *a, **k: {"c": "red"}
        if spec.get("media"):
            m = spec["media"]
            attrs["Media"] = type("Media", (), {k: v for k, v in m.items() if v is not None})
        clsname = spec.get("clsname") or ("%sComp_%s" % (name_prefix, spec["name"]))
        base_cls = classes[spec["base"]] if spec.get("base") in classes else Component
        cls = type(clsname, (base_cls,), attrs)
        cls.__module__ = "vfgen.%s" % (name_prefix or "m")
        if cls.__module__ not in sys.modules:
            # Media handling looks the class's module up; a file-less module means "no relative paths"
            mod = types.ModuleType(cls.__module__)
            mod.__file__ = None
            sys.modules[cls.__module__] = mod
        registry.register(spec["name"], cls)
        classes[spec["name"]] = cls
    return classes, overrides.get("page") or template_source(program["page"]["tpl"], opts)


# ---------------------------------------------------------------------------
# reference interpreter (shares no code with the library or Django's engine)


class ExpectedError(Exception):
    """The program must fail with TemplateSyntaxError."""


WILD = "\x00"  # a value the model deliberately does not predict (matches [A-Za-z0-9]*)
WILD2 = "\x02"  # an unpredicted printed object (matches any run of characters except [ ] <)


def _escape(s):
    return s.replace("&", "&amp;").replace("<", "&lt;").replace(">", "&gt;").replace('"', "&quot;").replace("'", "&#x27;")


class Layer:
    __slots__ = ("vars", "kind", "inst")

    def __init__(self, vars, kind, inst=None):
        self.vars = vars
        self.kind = kind
        self.inst = inst

    def __repr__(self):
        return "L(%s,%r)" % (self.kind, self.vars)


class Inst:
    def __init__(self, n, spec, parent):
        self.n = n
        self.spec = spec
        self.parent = parent
        self.fills = {}
        self.default_slot = None
        self.kwargs = {}
        self.data = {}
        self.dynamic = False
        self.tag_only = False


class FillClosure:
    def __init__(self, body, owner, env_at_tag, between, data_var, dflt_var, between_has_for=False):
        self.body = body
        self.owner = owner
        self.env_at_tag = env_at_tag
        self.between = between
        self.data_var = data_var
        self.dflt_var = dflt_var


def _no_comments(s):
    """Text as Django renders it: {# ... #} comments in the source produce no output."""
    return re.sub(r"\{#.*?#\}", "", s) if "{#" in s else s


class SlotRefModel:
    def __init__(self, interp, slot, env, owner, prov, parent, alias_names=()):
        self.args = (interp, slot, env, owner, prov, parent)
        self.alias_names = list(alias_names)

    def render(self):
        interp, slot, env, owner, prov, parent = self.args
        if interp.mode == "django" and self.alias_names:
            # whether the slot's default content, rendered from inside the fill, sees the fill's aliases
            # is not stated anywhere
            env = env + [Layer({k: WILD2 for k in self.alias_names}, "aliaswild")]
        if interp.mode == "isolated" and self.alias_names:
            # same question for sibling fills of the same instance that get rendered inside that default content
            interp.leaks.append((owner, self.alias_names))
            try:
                return interp.nodes(slot["c"], env, owner, prov, parent)
            finally:
                interp.leaks.pop()
        return interp.nodes(slot["c"], env, owner, prov, parent)


class IsFilled:
    def __init__(self, fills):
        self.names = {re.sub(r"[^\w]", "_", k) for k in fills}


class Interp:
    def __init__(self, program, mode, model_only_fill_as="code"):
        self.program = program
        self.mode = mode  # "django" | "isolated"
        self.comps = {c["name"]: c for c in program["comps"]}
        self.instances = []
        self.injected = []
        self.probes = {}  # probe id -> list of values in output order
        self.steps = 0
        self.flags = set()
        self.leaks = []  # (instance, alias names) of default-alias renderings in progress (isolated mode)
        self.n_filled = 0  # slots rendered from a provided fill
        self.n_default = 0  # slots rendered from their own default content
        self.n_nested_slot = 0  # slots evaluated inside default content or inside fill content

    # -- lookup --------------------------------------------------------
    def lookup(self, env, name):
        parts = name.split(".")
        val = None
        found = False
        for layer in reversed(env):
            if layer.kind == "wildfall":
                return WILD
            if parts[0] in layer.vars:
                val = layer.vars[parts[0]]
                found = True
                break
        if not found:
            return ""
        for p in parts[1:]:
            if isinstance(val, dict):
                val = val.get(p, "")
            elif isinstance(val, IsFilled):
                val = p in val.names
            elif isinstance(val, CompVars) and p == "is_filled":
                val = val.is_filled
            elif val is WILD or val is WILD2:
                return val
            else:
                return ""
        return val

    def expr(self, env, e):
        if "lit" in e:
            return e["lit"]
        return self.lookup(env, e["var"])

    @staticmethod
    def truthy(v):
        if v is WILD or v is WILD2:
            raise WildCondition()
        return bool(v)

    def show(self, v, parent=None):
        if isinstance(v, SlotRefModel):
            return v.render()
        if isinstance(v, tuple) and v and v[0] == "ID":
            return [v]
        if v is WILD or v is WILD2:
            return [WILD2]  # an unpredicted value may be any object (e.g. a slot-data dict)
        if v is True:
            return ["True"]
        if v is False:
            return ["False"]
        if isinstance(v, dict):
            if all(isinstance(x, str) and x is not WILD and x is not WILD2 for x in v.values()):
                return [_escape(str(v))]  # {{ dict }}: Python repr, autoescaped
            return [WILD2]
        if isinstance(v, (IsFilled, CompVars)):
            return [WILD]
        return [str(v)]

    # -- evaluation ----------------------------------------------------
    def run(self):
        env = [Layer({"True": True, "False": False, "None": None}, "builtin"), Layer(dict(self.program["page"]["ctx"]), "page")]
        return self.nodes(self.program["page"]["tpl"], env, None, {}, None)

    def nodes(self, nodes, env, owner, prov, parent):
        return self.nodes_env(nodes, env, owner, prov, parent)[0]

    def nodes_env(self, nodes, env, owner, prov, parent):
        """-> (output pieces, environment after the list). {% if %} opens no scope of its own in Django, so a name bound
        inside a branch stays bound after {% endif %}."""
        out = []
        for n in nodes:
            if n["t"] == "if":
                self.steps += 1
                c = self.truthy(self.lookup(env, n["n"]))
                part, env = self.nodes_env(n["a"] if c else n["b"], env, owner, prov, parent)
                out.extend(part)
                continue
            if n["t"] == "assign":
                # binds the name in the innermost scope from here on: the REST of this list sees a new innermost layer;
                # everything captured before (deferred components, fills) keeps the old one
                v = self.expr(env, n["e"])
                if v is not WILD and v is not WILD2:
                    v = v if (isinstance(v, str) and v) else ("" if not v else WILD2)
                top = env[-1]
                for held in top.vars.values():
                    # a name bound in fill content shares the layer of the fill's aliases: like them it may or may not show
                    # in default content that is rendered through the default alias afterwards (not specified)
                    if isinstance(held, SlotRefModel) and n["n"] not in held.alias_names:
                        held.alias_names.append(n["n"])
                env = env[:-1] + [Layer(dict(top.vars, **{n["n"]: v}), top.kind, top.inst)]
                continue
            out.extend(self.node(n, env, owner, prov, parent))
        return out, env

    def node(self, n, env, owner, prov, parent):
        self.steps += 1
        if self.steps > 20000:
            raise ModelBudget()
        t = n["t"]
        if t == "text" or t == "raw":
            return [_no_comments(n["s"])]
        if t == "elem":
            children = [] if n.get("void") else self.nodes(n["c"], env, owner, prov, parent)
            echo = None
            if n.get("idvar"):
                echo = self.lookup(env, n["idvar"])
                if n.get("idmk"):
                    echo = ("mk", echo)
            return [("E", n["tag"], n["m"], children, echo, bool(n.get("void")))]
        if t == "var":
            v = self.lookup(env, n["n"])
            shown = self.show(v)
            if n.get("p") is not None:
                self.probes.setdefault(n["p"], []).append(_flat(shown))
                return ["[p%s:" % n["p"]] + shown + ["]"]
            return shown
        if t == "tickvar":
            return self.show(self.lookup(env, n["n"]))
        if t == "isfilled":
            cv = self.lookup(env, "component_vars")
            if isinstance(cv, CompVars):
                v = re.sub(r"[^\w]", "_", n["name"]) in cv.is_filled.names
                shown = ["True" if v else "False"]
            elif cv is WILD:
                shown = [WILD]
            else:
                shown = [""]
            if n.get("p") is not None:
                self.probes.setdefault(n["p"], []).append(_flat(shown))
                return ["[p%s:" % n["p"]] + shown + ["]"]
            return shown
        if t == "if":
            c = self.truthy(self.lookup(env, n["n"]))
            return self.nodes(n["a"] if c else n["b"], env, owner, prov, parent)
        if t == "for":
            seq = self.expr(env, n["l"])
            if seq is WILD or seq is WILD2 or not isinstance(seq, str):
                raise WildCondition()  # iterating a dict / slot reference is outside the modelled domain
            out = []
            parentloop = self.lookup(env, "forloop")
            if parentloop is WILD or parentloop is WILD2:
                parentloop = WILD2  # loop state the model does not predict stays unpredicted
            elif not isinstance(parentloop, dict):
                parentloop = {}
            for i, ch in enumerate(seq):
                layer = Layer({n["v"]: ch, "forloop": {"counter": str(i + 1), "counter0": str(i), "first": i == 0, "last": i == len(seq) - 1, "parentloop": parentloop}}, "for")
                out.extend(self.nodes(n["c"], env + [layer], owner, prov, parent))
            return out
        if t == "with":
            layer = Layer({n["n"]: self.expr(env, n["e"])}, "with")
            return self.nodes(n["c"], env + [layer], owner, prov, parent)
        if t == "provide":
            payload = {k: self.expr(env, e) for k, e in n["kwargs"].items()}
            prov2 = dict(prov)
            prov2[n["key"]] = payload
            return self.nodes(n["c"], env, owner, prov2, parent)
        if t == "tick" or t == "depjs" or t == "depcss":
            return [("D", t)] if t != "tick" else []
        if t == "slot":
            return self.slot(n, env, owner, prov, parent)
        if t == "comp":
            return self.comp(n, env, owner, prov, parent)
        if t in ("block", "include"):
            return self.nodes(n["c"], env, owner, prov, parent)
        if t == "fill":
            # a fill tag reached outside fill extraction
            raise ExpectedError("fill rendered outside of a component body")
        raise ValueError(t)

    # -- component tag ---------------------------------------------------
    def collect_fills(self, nodes, env, between, acc, owner):
        """Evaluate the wrapper structure of a fills body at the tag position."""
        for n in nodes:
            t = n["t"]
            if t == "fill":
                name = self.expr(env, n["name"])
                if name is WILD or name is WILD2:
                    raise WildCondition()
                if not isinstance(name, str):
                    # the name variable was shadowed by a non-string (e.g. a slot-data dict): outside the domain, skipped
                    raise ModelBudget("fill name is not a string")
                acc.append((name, n, dict(between)))
            elif t == "if":
                c = self.truthy(self.lookup(env, n["n"]))
                self.collect_fills(n["a"] if c else n["b"], env, between, acc, owner)
            elif t == "for":
                seq = self.expr(env, n["l"])
                if seq is WILD or seq is WILD2 or not isinstance(seq, str):
                    raise WildCondition()
                parentloop = self.lookup(env, "forloop")
                if parentloop is WILD or parentloop is WILD2:
                    parentloop = WILD2
                elif not isinstance(parentloop, dict):
                    parentloop = {}
                for i, ch in enumerate(seq):
                    b = {n["v"]: ch, "forloop": {"counter": str(i + 1), "counter0": str(i), "first": i == 0, "last": i == len(seq) - 1, "parentloop": parentloop}}
                    layer = Layer(b, "for")
                    b2 = dict(between)
                    b2.update(b)  # a name bound twice between tag and fill: the innermost binding wins (lexical scoping)
                    self.collect_fills(n["c"], env + [Layer(dict(b), "for")], b2, acc, owner)
            elif t == "with":
                b = {n["n"]: self.expr(env, n["e"])}
                b2 = dict(between)
                b2.update(b)
                self.collect_fills(n["c"], env + [Layer(b, "with")], b2, acc, owner)
            elif t == "text":
                if _no_comments(n["s"]).strip():
                    raise ExpectedError("text next to fill tags")
            elif t in ("comp", "slot"):
                pass  # render to nothing during fill extraction
            elif t == "var":
                if _flat(self.show(self.lookup(env, n["n"]))).strip():
                    raise ExpectedError("content next to fill tags")
            elif t in ("block", "include"):
                # C10: fill tags written inside a {% block %} of the template family / moved into an included partial
                self.collect_fills(n["c"], env, between, acc, owner)
            else:
                raise ValueError("unexpected node in fills body: %s" % t)

    def comp(self, n, env, owner, prov, parent):
        spec = self.comps[n["name"]]
        inst = Inst(len(self.instances), spec, parent)
        inst.tag_only = bool(n.get("only"))
        self.instances.append(inst)
        kwargs = {k: self.expr(env, e) for k, e in n["kwargs"].items()}
        inst.kwargs = kwargs
        body = n.get("body")
        if body is not None and body["c"] and all(x["t"] == "text" and not _no_comments(x["s"]).strip() for x in body["c"]):
            body = None  # only whitespace (and {# comments #}) between the tags: documented as "no content", not a fill
        if body is not None and body["c"]:
            if body["kind"] == "implicit":
                inst.fills["default"] = FillClosure(body["c"], owner, env, {}, None, None)
            else:
                acc = []
                self.collect_fills(body["c"], env, {}, acc, owner)
                if not acc:
                    # no fill materialised: the whole body is the implicit default fill
                    inst.fills["default"] = FillClosure(body["c"], owner, env, {}, None, None)
                seen = set()
                for name, fn, between in acc:
                    if name in seen:
                        raise ExpectedError("duplicate fill %r" % name)
                    seen.add(name)
                    inst.fills[name] = FillClosure(fn["c"], owner, env, between, fn.get("data"), fn.get("dflt"))
        # get_context_data
        data = {}
        for var, s in spec["data"]:
            if s[0] == "const":
                data[var] = s[1]
            elif s[0] == "kw":
                data[var] = kwargs.get(s[1], "")
            elif s[0] == "id":
                data[var] = ("ID", inst.n)
            elif s[0] == "tail":
                data[var] = str(kwargs.get(s[1], ""))[1:]
            elif s[0] == "inject":
                key, field, dflt = s[1], s[2], s[3]
                if key in prov:
                    payload = prov[key]
                    self.injected.append((spec["name"], key, "|".join("%s=%s" % kv for kv in sorted(payload.items()))))
                    data[var] = payload.get(field, "nofield")
                elif dflt is not None:
                    self.injected.append((spec["name"], key, "<default:%s>" % dflt))
                    data[var] = dflt
                else:
                    self.injected.append((spec["name"], key, "<KeyError>"))
                    data[var] = "KeyError"
        inst.data = data
        cv = CompVars(IsFilled(inst.fills))
        isolated = self.mode == "isolated" or n.get("only")
        if isolated:
            tenv = [env[0]]
            def loopish(l_):
                return l_.kind in ("for", "forwarded") or "forloop" in l_.vars

            for i_ in range(len(env) - 1, -1, -1):
                layer = env[i_]
                if layer.kind in ("for", "forwarded"):
                    # documented-in-code forwarding of the innermost loop layer (transitively through
                    # nested components)
                    tenv.append(Layer(dict(layer.vars), "forwarded"))
                    break
                if layer.kind in ("between", "aliaswild") and loopish(layer):
                    # ("aliaswild": the same bindings, met while default content is rendered through the fill's default alias)
                    # the bindings captured around a fill (inside a loop in the component body) form one
                    # layer, which is then forwarded as "the loop layer": its other names are not predicted
                    fw = {k: (v if k == "forloop" and isinstance(v, dict) else WILD) for k, v in layer.vars.items()}
                    # several such layers can be stacked (the fill's own bindings and those that leak in while default
                    # content is rendered through a sibling fill's default alias); which of them is "the loop layer" is
                    # not specified: the names of all of them are unpredicted
                    for other in env[:i_]:
                        if other.kind in ("between", "aliaswild") and loopish(other):
                            for k in other.vars:
                                if k not in fw or k == "forloop":
                                    fw[k] = WILD2 if k == "forloop" else WILD
                    tenv.append(Layer(fw, "forwarded"))
                    break
        else:
            tenv = list(env)
        dl = dict(data)
        tenv = tenv + [Layer(dl, "data", inst), Layer({"component_vars": cv}, "cv", inst)]
        children = self.nodes(spec["tpl"], tenv, inst, prov, inst)
        return [("I", inst.n, spec["name"], children)]

    # -- slot tag --------------------------------------------------------
    def slot(self, n, env, owner, prov, parent):
        if owner is None:
            raise ExpectedError("slot outside component")
        inst = owner
        name = n["name"]
        if n.get("nvar"):
            name = self.lookup(env, n["nvar"])
            if name is WILD or name is WILD2:
                raise WildCondition()
            if not isinstance(name, str) or not name:
                raise ModelBudget("slot name variable does not hold a name")  # unsound program (minimiser): skipped
        fills = inst.fills
        if n.get("default") and not inst.dynamic:
            if inst.default_slot is not None and inst.default_slot != name:
                raise ExpectedError("two default slots")
            inst.default_slot = name
            if name != "default" and name in fills and "default" in fills:
                raise ExpectedError("slot filled twice")
        fill_name = "default" if (n.get("default") and "default" in fills) else name
        data = {k: self.expr(env, e) for k, e in (n.get("data") or {}).items()}
        if fill_name in fills:
            f = fills[fill_name]
            self.n_filled += 1
            alias = {}
            if f.data_var:
                alias[f.data_var] = data
            if f.dflt_var:
                alias[f.dflt_var] = SlotRefModel(self, n, env, owner, prov, parent, [a for a in (f.data_var, f.dflt_var) if a] + list(f.between))
            between = Layer(dict(f.between), "between")
            if self.mode == "isolated":
                # lexical scoping: bindings around the fill ({% for %} / {% with %} in the component body) are the
                # innermost scope of the fill content and win over everything visible at the tag
                fenv = list(f.env_at_tag) + [between]
                leaked = [k_ for (li_, names_) in self.leaks if li_ is inst for k_ in names_]
                if leaked:
                    # (a leaked layer that carries loop state is also what gets forwarded as "the loop layer")
                    fenv.append(Layer({k_: WILD2 for k_ in leaked}, "between" if "forloop" in leaked else "aliaswild"))
            else:
                fenv = list(env)
                idx = None
                for i, layer in enumerate(fenv):
                    if layer.kind == "data" and layer.inst is inst:
                        idx = i
                if idx is None:
                    # the receiving instance's own layer is not part of this context (an `only` component in
                    # between cut it off): where the bindings around the fill rank is not specified
                    idx = len(fenv)
                    # (that includes the loop state: the loop layer forwarded into the `only` component may sit above it)
                    between = Layer({k_: (WILD2 if k_ == "forloop" else WILD) for k_, v_ in between.vars.items()}, "between")
                fenv.insert(idx, between)
                if inst.tag_only:
                    # django mode + `only`: whether fill content still sees the variables of the tag
                    # position is not stated by the property -> unknown names are not predicted
                    fenv.insert(0, Layer({}, "wildfall"))
                if f.owner is not None:
                    alias.setdefault("component_vars", self._cv_of(f.owner))
            fenv = fenv + [Layer(alias, "alias")]
            return self.nodes(f.body, fenv, f.owner, prov, parent)
        if n.get("required") and not inst.dynamic:
            raise ExpectedError("required slot %r unfilled" % name)
        self.n_default += 1
        return self.nodes(n["c"], env, owner, prov, parent)

    def _cv_of(self, inst):
        return CompVars(IsFilled(inst.fills))


class CompVars:
    def __init__(self, is_filled):
        self.is_filled = is_filled


class WildCondition(Exception):
    """Control flow depends on a value the model does not predict: case is skipped (counted)."""


class ModelBudget(Exception):
    pass


def _flat(pieces):
    return "".join(p if isinstance(p, str) else "?" for p in pieces)


# ---------------------------------------------------------------------------
# output tree -> text / regex


def flatten(tree, ids=None):
    """Expected page text (markers only; no ids, no dependency comments). WILD kept as \\x00."""
    out = []
    for p in tree:
        if isinstance(p, str):
            out.append(p)
        elif p[0] == "E":
            _, tag, m, children, echo, void = p
            e = ""
            if echo is not None:
                pre = ""
                if isinstance(echo, tuple) and echo[0] == "mk":
                    pre, echo = "data-djc-id-", echo[1]
                e = ' data-echo="%s%s"' % (pre, "\x01%d\x01" % echo[1] if isinstance(echo, tuple) else echo)
            if void:
                out.append('<%s data-m="%s">' % (tag, m))
            else:
                out.append('<%s data-m="%s"%s>%s</%s>' % (tag, m, e, flatten(children), tag))
        elif p[0] == "I":
            out.append(flatten(p[3]))
        elif p[0] == "ID":
            out.append("\x01%d\x01" % p[1])
        elif p[0] == "D":
            pass
    return "".join(out)


_STRIP_RE = re.compile(r"<!-- _RENDERED [^>]*?-->| data-djc-(?:id|css)-\w+(?:=\"\")?")


def normalize_real(html):
    """Remove dependency comments and render-id attributes from real output."""
    return _STRIP_RE.sub("", html)


def matches(expected, real):
    """Compare expected text (may contain WILD / id references) with normalised real output.

    WILD stands for any run of [A-Za-z0-9]*; \x01N\x01 for a 6-character render id. Matching is an NFA
    simulation (no backtracking), so it is linear in practice.
    """
    if WILD not in expected and "\x01" not in expected and WILD2 not in expected:
        return expected == real
    # tokenise the pattern: ("c", ch) | ("*",) | ("id",)
    toks = []
    i = 0
    while i < len(expected):
        ch = expected[i]
        if ch == WILD:
            if not toks or toks[-1][0] != "*":
                toks.append(("*",))
            i += 1
        elif ch == WILD2:
            toks.append(("**",))
            i += 1
        elif ch == "\x01":
            j = expected.index("\x01", i + 1)
            toks.extend([("a",)] * 6)
            i = j + 1
        else:
            toks.append(("c", ch))
            i += 1
    n = len(toks)

    def closure(states):
        out = set()
        for st_ in states:
            while st_ < n and toks[st_][0] in ("*", "**"):
                out.add(st_)
                st_ += 1
            out.add(st_)
        return out

    cur = closure({0})
    for ch in real:
        nxt = set()
        alnum = ch.isascii() and ch.isalnum()
        for st_ in cur:
            if st_ >= n:
                continue
            t = toks[st_]
            if t[0] == "c":
                if t[1] == ch:
                    nxt.add(st_ + 1)
            elif t[0] == "a":
                if alnum:
                    nxt.add(st_ + 1)
            elif t[0] == "**":
                if ch not in "[]<":
                    nxt.add(st_)
            elif alnum:  # star
                nxt.add(st_)
        if not nxt:
            return False
        cur = closure(nxt)
    return n in cur
