"""Bounded structural minimiser for PG programs (used instead of Hypothesis' shrinker, which has a
hard five-minute cap and is slow on these recursive structures)."""
import copy


def _lists(node_or_prog):
    """Yield every node list (as (container, key)) reachable in a program."""
    prog = node_or_prog

    def rec(lst_owner, key):
        lst = lst_owner[key]
        yield lst_owner, key
        for n in lst:
            for k in ("c", "a", "b"):
                if isinstance(n.get(k), list):
                    yield from rec(n, k)
            body = n.get("body")
            if body:
                yield from rec(body, "c")

    for c in prog["comps"]:
        yield from rec(c, "tpl")
    yield from rec(prog["page"], "tpl")


def _used_components(prog):
    used = set()

    def rec(nodes):
        for n in nodes:
            if n["t"] == "comp":
                used.add(n["name"])
            for k in ("c", "a", "b"):
                if isinstance(n.get(k), list):
                    rec(n[k])
            body = n.get("body")
            if body:
                rec(body["c"])

    for c in prog["comps"]:
        rec(c["tpl"])
    rec(prog["page"]["tpl"])
    return used


def candidates(prog):
    """Yield smaller variants of the program (each a deep copy)."""
    # drop unused components
    used = _used_components(prog)
    for i, c in enumerate(prog["comps"]):
        if c["name"] not in used:
            p = copy.deepcopy(prog)
            del p["comps"][i]
            yield p
    # node-level edits
    locs = list(_lists(prog))
    for li, (owner, key) in enumerate(locs):
        lst = owner[key]
        for ni in range(len(lst)):
            n = lst[ni]
            # delete node
            p = copy.deepcopy(prog)
            o2, k2 = list(_lists(p))[li]
            del o2[k2][ni]
            yield p
            # unwrap
            inner = None
            if n["t"] in ("with", "for", "elem", "provide", "block", "include") and n.get("c"):
                inner = n["c"]
            elif n["t"] == "if":
                inner = n["a"] or n["b"]
            elif n["t"] == "slot" and n.get("c"):
                inner = n["c"]
            if inner is not None:
                p = copy.deepcopy(prog)
                o2, k2 = list(_lists(p))[li]
                o2[k2][ni : ni + 1] = copy.deepcopy(inner)
                yield p
            if n["t"] == "comp":
                if n.get("body"):
                    p = copy.deepcopy(prog)
                    o2, k2 = list(_lists(p))[li]
                    o2[k2][ni]["body"] = None
                    yield p
                if n.get("kwargs"):
                    p = copy.deepcopy(prog)
                    o2, k2 = list(_lists(p))[li]
                    o2[k2][ni]["kwargs"] = {}
                    yield p
                if n.get("only"):
                    p = copy.deepcopy(prog)
                    o2, k2 = list(_lists(p))[li]
                    o2[k2][ni]["only"] = False
                    yield p
            if n["t"] == "slot":
                for flag in ("default", "required"):
                    if n.get(flag):
                        p = copy.deepcopy(prog)
                        o2, k2 = list(_lists(p))[li]
                        o2[k2][ni].pop(flag)
                        yield p
                if n.get("data"):
                    p = copy.deepcopy(prog)
                    o2, k2 = list(_lists(p))[li]
                    o2[k2][ni]["data"] = {}
                    yield p
            if n["t"] == "fill":
                for flag in ("data", "dflt"):
                    if n.get(flag):
                        p = copy.deepcopy(prog)
                        o2, k2 = list(_lists(p))[li]
                        o2[k2][ni].pop(flag)
                        yield p
    for i, c in enumerate(prog["comps"]):
        if c.get("data"):
            for di in range(len(c["data"])):
                p = copy.deepcopy(prog)
                del p["comps"][i]["data"][di]
                yield p


def minimize(case, still_fails, max_evals=250, key="program"):
    """Greedy first-improvement reduction of case[key]; `still_fails(case)` must be deterministic."""
    evals = 0
    best = case
    progress = True
    while progress and evals < max_evals:
        progress = False
        for cand in candidates(best[key]):
            if evals >= max_evals:
                break
            trial = dict(best)
            trial[key] = cand
            evals += 1
            try:
                ok = still_fails(trial)
            except Exception:  # a malformed reduction (e.g. dangling reference) is simply not taken
                ok = False
            if ok:
                best = trial
                progress = True
                break
    return best
