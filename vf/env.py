"""Django bootstrap, process-global state reset and determinism patches.

Nothing here is a hook in /repo: ids are made deterministic by patching the same
seam the repository's own tests patch (`django_components.util.misc.generate`).
"""
import atexit
import itertools
import os
import shutil
import sys
import tempfile

REPO = os.environ.get("VF_REPO") or "/repo"  # an empty value means "not set"
SRC = os.path.join(REPO, "src")

_setup_done = False
SCRATCH = None  # per-process scratch directory (template dir / components dir)
STOCK = {}  # stock Template methods saved before django.setup()


def scratch_base():
    base = os.environ.get("VF_SCRATCH")
    if base and os.path.isdir(base):
        return base
    root = "/dev/shm" if os.path.isdir("/dev/shm") and os.access("/dev/shm", os.W_OK) else tempfile.gettempdir()
    base = tempfile.mkdtemp(prefix="vf_", dir=root)
    os.environ["VF_SCRATCH"] = base
    atexit.register(shutil.rmtree, base, True)
    return base


def setup(extra_settings=None, components=None):
    """Configure Django once per process. Safe to call repeatedly."""
    global _setup_done, SCRATCH
    if _setup_done:
        return
    if SRC not in sys.path:
        sys.path.insert(0, SRC)
    sys.setrecursionlimit(max(sys.getrecursionlimit(), 3000))
    base = scratch_base()
    SCRATCH = os.path.join(base, "w%d" % os.getpid())
    os.makedirs(os.path.join(SCRATCH, "templates"), exist_ok=True)
    os.makedirs(os.path.join(SCRATCH, "components"), exist_ok=True)

    import django
    from django.conf import settings
    from django.template import Template

    STOCK["compile_nodelist"] = Template.compile_nodelist
    STOCK["render"] = Template.render

    if not settings.configured:
        cfg = {
            "BASE_DIR": SCRATCH,
            "INSTALLED_APPS": ("django_components",),
            "TEMPLATES": [
                {
                    "BACKEND": "django.template.backends.django.DjangoTemplates",
                    "DIRS": [os.path.join(SCRATCH, "templates"), os.path.join(SCRATCH, "components")],
                    "OPTIONS": {
                        "builtins": ["django_components.templatetags.component_tags"],
                        "libraries": {"vf_tags": "vf.vf_tags"},
                    },
                }
            ],
            "COMPONENTS": {
                "autodiscover": False,
                "dirs": [os.path.join(SCRATCH, "components")],
                "template_cache_size": 128,
                **(components or {}),
            },
            "MIDDLEWARE": ["django_components.middleware.ComponentDependencyMiddleware"],
            "DATABASES": {},
            "SECRET_KEY": "vf",
            "ROOT_URLCONF": "django_components.urls",
            "STATIC_URL": "static/",
            "ALLOWED_HOSTS": ["*"],
            "USE_TZ": True,
        }
        cfg.update(extra_settings or {})
        settings.configure(**cfg)
    django.setup()
    _setup_done = True
    import django_components  # noqa

    real = os.path.realpath(os.path.dirname(django_components.__file__))
    want = os.path.realpath(os.path.join(SRC, "django_components"))
    if real != want:
        raise RuntimeError("django_components imported from %s, expected %s" % (real, want))
    patch_ids(True)


# ---------------------------------------------------------------------------
# deterministic ids

_id_counter = itertools.count(1)
_id_patched = False
_orig_generate = None


def _fake_generate(alphabet, size):
    n = next(_id_counter)
    # 6 chars, base-36-ish but always matching \w{6}; starts with a letter so that it never
    # looks like a number to anything downstream.
    digits = "0123456789abcdefghijklmnopqrstuvwxyz"
    s = ""
    while n:
        n, r = divmod(n, 36)
        s = digits[r] + s
    return ("a" + s.rjust(size - 1, "0"))[-size:] if len(s) < size else s[-size:]


def patch_ids(on=True):
    global _id_patched, _orig_generate
    import django_components.util.misc as misc

    if on and not _id_patched:
        _orig_generate = misc.generate
        misc.generate = _fake_generate
        _id_patched = True
    elif not on and _id_patched:
        misc.generate = _orig_generate
        _id_patched = False


def reset_ids():
    global _id_counter
    _id_counter = itertools.count(1)


# ---------------------------------------------------------------------------
# state reset


def registries():
    """The six per-render registries of the library, by name."""
    from django_components.perfutil import component as pc
    from django_components.perfutil import provide as pp

    return {
        "component_context_cache": pc.component_context_cache,
        "component_renderer_cache": pc.component_renderer_cache,
        "child_component_attrs": pc.child_component_attrs,
        "provide_cache": pp.provide_cache,
        "provide_references": pp.provide_references,
        "all_reference_ids": pp.all_reference_ids,
    }


def registry_sizes():
    return {k: len(v) for k, v in registries().items()}


def reset(clear_registry=True):
    """Reset the library's process-global state (top of every generated case)."""
    from django.template import engines

    import django_components.cache as djc_cache
    from django_components import registry
    from django_components.app_settings import app_settings
    from django_components.component import component_node_subclasses_by_name
    from django_components.components.dynamic import DynamicComponent

    if clear_registry:
        registry.clear()
        component_node_subclasses_by_name.clear()
        registry.register(app_settings.DYNAMIC_COMPONENT_NAME, DynamicComponent)
    if djc_cache.template_cache is not None:
        djc_cache.template_cache.clear()
    djc_cache.template_cache = None
    if djc_cache.component_media_cache is not None:
        djc_cache.component_media_cache.clear()
    for reg in registries().values():
        reg.clear()
    for engine in engines.all():
        for loader in engine.engine.template_loaders:
            if hasattr(loader, "reset"):
                loader.reset()
    reset_ids()


def write_file(rel, content, kind="templates"):
    path = os.path.join(SCRATCH, kind, rel)
    os.makedirs(os.path.dirname(path), exist_ok=True)
    with open(path, "w", encoding="utf-8") as f:
        f.write(content)
    return path


def components_settings(**kw):
    """override_settings(...) context manager that overrides single COMPONENTS keys."""
    from django.conf import settings
    from django.test import override_settings

    cur = dict(getattr(settings, "COMPONENTS", {}) or {})
    cur.update(kw)
    return override_settings(COMPONENTS=cur)
