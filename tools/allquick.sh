#!/bin/sh
# tools/allquick.sh <seed> : run every quick check once, one line per property
S=${1:-1}
for i in 01 02 03 04 05 06 07 08 09 10 11 12 13 14 15 16 17 18 19 20; do
  VERIF_SEED=$S /venv/bin/python -m vf.run --prop C$i --tier quick > /dev/shm/allq_C$i.log 2>&1; RC=$?
  echo "C$i rc=$RC $(grep -E "^C$i quick" /dev/shm/allq_C$i.log | cut -c1-120) $(grep -c '^VIOLATION' /dev/shm/allq_C$i.log)V $(grep -c '^KNOWN' /dev/shm/allq_C$i.log)K"
done
