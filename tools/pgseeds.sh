#!/bin/sh
# tools/pgseeds.sh "<seeds>" [ids...] : thorough tier of the generator-model checks at several seeds (flushes out model gaps)
SEEDS=${1:-"2 3"}; shift
IDS=${@:-01 03 05 10 14 04 07}
for S in $SEEDS; do for i in $IDS; do
  VERIF_SEED=$S /venv/bin/python -m vf.run --prop C$i --tier thorough > thorough_C${i}_s$S.log 2>&1; RC=$?
  echo "seed=$S C$i rc=$RC $(grep -E "^C$i thorough" thorough_C${i}_s$S.log | cut -c1-140) $(grep -c '^VIOLATION' thorough_C${i}_s$S.log)V"
  grep -E "^VIOLATION|^FAIL" thorough_C${i}_s$S.log | cut -c1-300 | head -6
done; done
