#!/opt/veriftools/pyvenv/bin/python
"""Validate MANIFEST.json and evidence/*.json against the schemas (run with python3-vt)."""
import glob, json, sys
import jsonschema
ok = True
m = json.load(open('/verif/MANIFEST.json'))
try:
    jsonschema.validate(m, json.load(open('/root/.vp/MANIFEST.schema.json'))); print('MANIFEST ok')
except Exception as e:
    ok = False; print('MANIFEST INVALID', e)
es = json.load(open('/root/.vp/EVIDENCE.schema.json'))
for p in sorted(glob.glob('/verif/evidence/*.json')):
    try:
        jsonschema.validate(json.load(open(p)), es); print(p, 'ok')
    except Exception as e:
        ok = False; print(p, 'INVALID', str(e)[:300])
sys.exit(0 if ok else 1)
