#!/venv/bin/python
"""tools/keep.py <replay.json> <regress-name> <note...>  -> /verif/regress/<PROP>/<name>.json"""
import json, os, sys
r = json.load(open(sys.argv[1]))
prop = r["property"]
os.makedirs('/verif/regress/%s' % prop, exist_ok=True)
out = {"property": prop, "note": " ".join(sys.argv[3:]), "bucket": r.get("bucket"), "message": (r.get("message") or "")[:800], "case": r["case"]}
json.dump(out, open('/verif/regress/%s/%s.json' % (prop, sys.argv[2]), 'w'), indent=1)
print("kept", prop, sys.argv[2])
