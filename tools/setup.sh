#!/bin/sh
# Offline setup: Hypothesis beside the repository's packages (idempotent), atheris into /verif/.deps.
set -u
export PIP_NO_INDEX=1
/venv/bin/python -c "import hypothesis" 2>/dev/null || \
  /venv/bin/pip install --no-index --find-links /opt/veriftools/wheels hypothesis || exit 1
if [ ! -d /verif/.deps/atheris ]; then
  /venv/bin/pip install --no-index --find-links /opt/veriftools/wheels --target /verif/.deps atheris >/dev/null 2>&1 \
    || echo "setup: atheris not installable (coverage-guided stages will be skipped)"
fi
/venv/bin/python -c "import hypothesis, django; print('setup ok: hypothesis', hypothesis.__version__, 'django', django.get_version())"
