#!/venv/bin/python
"""Pretty-print a PG replay/regress case: tools/showcase.py <file.json>"""
import json, sys
sys.path.insert(0, '/verif')
from vf.gen import pg
r = json.load(open(sys.argv[1]))
case = r.get("case", r)
if "__regress__" in case: case = case["case"]
prog = case["program"]
print("bucket:", r.get("bucket")); print("message:", (r.get("message") or "")[:1500])
for c in prog["comps"]:
    print("  ", c["name"], c.get("data"), {k: c[k] for k in ("js", "css", "media", "hooks", "clsname") if c.get(k)}, "\n      ", pg.template_source(c["tpl"]))
print("   page", prog["page"]["ctx"], "\n      ", pg.template_source(prog["page"]["tpl"]))
print({k: v for k, v in case.items() if k != "program"})
