#!/bin/sh
# tools/applyfix.sh <diff> "<commit message>"  : apply to /repo, run the repo's stable tests, commit if 514/514
set -e
cd /repo
git diff --quiet || { echo "repo dirty"; exit 1; }
patch -p1 --no-backup-if-mismatch < "$1" >/dev/null || { echo "PATCH FAILED"; git checkout -- .; exit 1; }
OUT=$(sh /verif/tools/repotest.sh)
echo "$OUT"
case "$OUT" in
  *"514 / 514"*) git add -A; git commit -qm "$2"; git log --oneline | head -1;;
  *) echo "TESTS REGRESSED - reverting"; git checkout -- .; exit 1;;
esac
