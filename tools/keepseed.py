#!/venv/bin/python
"""tools/keepseed.py <PROP> <a|b> <caught:yes|no|thorough> "<needs>" "<detail of detection>" -> /verif/seeded/<PROP>_<m>/"""
import json, os, shutil, sys
prop, m, caught, needs, detail = sys.argv[1:6]
src = "/tmp/seed_%s/out" % prop
dst = "/verif/seeded/%s_%s" % (prop, m)
os.makedirs(dst, exist_ok=True)
shutil.copy(os.path.join(src, "%s.diff" % m), os.path.join(dst, "patch.diff"))
shutil.copy(os.path.join(src, "demo_%s.py" % m), os.path.join(dst, "demo.py"))
notes = open(os.path.join(src, "notes.md")).read() if os.path.exists(os.path.join(src, "notes.md")) else ""
open(os.path.join(dst, "notes_from_author.md"), "w").write(notes)
meta = {
    "property": prop,
    "mutant": m,
    "origin": "independent sub-agent given only the property text and a scratch worktree of /repo (nothing from /verif)",
    "needs_to_manifest": needs,
    "confirmed_by_me": "tools/seedtest.sh %s %s: demo exits 0 on the clean worktree and 1 with the patch; repository suite with the patch: 514 passed (browser tests deselected)" % (prop, m),
    "our_check": {"command": "VF_REPO=<scratch copy of /repo/src + patch> /venv/bin/python -m vf.run --prop %s --tier quick" % prop, "caught": caught, "detail": detail},
    "base_commit_of_patch": os.popen("git -C /tmp/seed_%s rev-parse --short HEAD" % prop).read().strip(),
}
json.dump(meta, open(os.path.join(dst, "meta.json"), "w"), indent=1)
print("kept", dst, caught)
