#!/bin/sh
# Runs the repository's baseline test command and compares with the 514 stable tests of BASELINE.json
cd /repo && /venv/bin/python -m pytest -ra -q -p no:cacheprovider --timeout=900 --continue-on-collection-errors --junitxml=/dev/shm/repotest.xml >/dev/shm/repotest.log 2>&1
/venv/bin/python - <<'PY'
import json, xml.etree.ElementTree as ET
base = set(json.load(open('/root/.vp/BASELINE.json'))['stable_pass'])
passed = set()
for tc in ET.parse('/dev/shm/repotest.xml').getroot().iter('testcase'):
    name = tc.get('classname') + '::' + tc.get('name')
    if not any(ch.tag in ('failure', 'error', 'skipped') for ch in tc):
        passed.add(name)
missing = sorted(base - passed)
print("stable tests passing: %d / %d" % (len(base & passed), len(base)))
for m in missing[:20]: print("  MISSING", m)
PY
