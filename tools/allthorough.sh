#!/bin/sh
# tools/allthorough.sh [ids...] : thorough tier of the given (default all) properties, one line each
IDS=${@:-01 03 04 05 10 14 06 07 02 08 09 11 12 13 15 16 17 18 19 20}
for i in $IDS; do
  /venv/bin/python -m vf.run --prop C$i --tier thorough > thorough_C$i.log 2>&1; RC=$?
  echo "C$i rc=$RC $(grep -E "^C$i thorough" thorough_C$i.log | cut -c1-140) $(grep -c '^VIOLATION' thorough_C$i.log)V"
  grep -E "^VIOLATION|^FAIL" thorough_C$i.log | cut -c1-300 | head -6
done
