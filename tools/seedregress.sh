#!/bin/sh
# tools/seedregress.sh [seed] [ids...] : re-run the quick tier against every kept seeded change (seeded/<id>/patch.diff applied to a
# scratch copy of the CURRENT /repo/src under /dev/shm; /repo itself is never touched). One line per change.
S=${1:-1}; [ $# -gt 0 ] && shift
IDS=${*:-$(ls /verif/seeded)}
for ID in $IDS; do
  P=${ID%%_*}; D=/dev/shm/seedreg_$ID; rm -rf $D; mkdir -p $D; cp -r /repo/src $D/src
  if (cd $D && patch -p1 --no-backup-if-mismatch < /verif/seeded/$ID/patch.diff >/dev/null 2>&1); then
    cd /verif && VERIF_SEED=$S VF_REPO=$D /venv/bin/python -m vf.run --prop $P --tier quick > $D/log 2>&1; RC=$?
    echo "$ID seed=$S rc=$RC $(grep -c '^VIOLATION' $D/log)V $(grep '^FAIL' $D/log | head -1 | cut -c1-110)"
  else
    echo "$ID patch does not apply to the current tree (code restructured by a later fix)"
  fi
  rm -rf $D
done
