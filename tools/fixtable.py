#!/venv/bin/python
"""tools/fixtable.py : regenerate the fix table of DESIGN.md 6.3 (between FIXTABLE markers) from known_findings.json"""
import json, re
k = json.load(open("/verif/known_findings.json"))
rows = []
for line in sorted(k["fixed"], key=lambda l: re.match(r"fixed: property=(C\d+)", l).group(1)):
    m = re.match(r"fixed: property=(C\d+) ([0-9a-f]+) (.*)", line, re.S)
    rows.append("| %s | `%s` | %s |" % (m.group(1), m.group(2), m.group(3).replace("|", "\\|").replace("\n", " ")))
table = "| property | commit | what failed on the pinned tree |\n|---|---|---|\n" + "\n".join(rows)
p = "/verif/DESIGN.md"
s = open(p).read()
a, b = "<!-- FIXTABLE:BEGIN -->", "<!-- FIXTABLE:END -->"
if a in s:
    s = s[: s.index(a) + len(a)] + "\n" + table + "\n" + s[s.index(b):]
else:
    i = s.index("| property | commit | what failed on the pinned tree |")
    j = s.index("\n\n", i)
    s = s[:i] + a + "\n" + table + "\n" + b + s[j:]
open(p, "w").write(s)
print(len(rows), "rows")
