#!/bin/sh
# tools/seedtest.sh <PROP> <a|b> [tier] : confirm a sub-agent's seeded mutant and run our check against it.
#  1. demo passes on the clean worktree   2. mutant applied: repo test suite passes, demo fails
#  3. our check (quick tier by default) against a scratch copy of CURRENT /repo/src with the mutant applied
P=$1; M=$2; TIER=${3:-quick}; W=/tmp/seed_$P; OUT=$W/out
cd $W && git checkout -q -- . 2>/dev/null
echo "== clean demo:"; (cd $W && PYTHONPATH=$W/src /venv/bin/python out/demo_$M.py >/dev/shm/seed_demo.log 2>&1; echo "exit $?"; tail -2 /dev/shm/seed_demo.log | cut -c1-200)
git -C $W apply $OUT/$M.diff || { echo "diff does not apply to worktree"; exit 3; }
echo "== mutant demo:"; (cd $W && PYTHONPATH=$W/src /venv/bin/python out/demo_$M.py >/dev/shm/seed_demo.log 2>&1; echo "exit $?"; tail -3 /dev/shm/seed_demo.log | cut -c1-300)
echo "== mutant test suite:"; (cd $W && PYTHONPATH=$W/src /venv/bin/python -m pytest -q -p no:cacheprovider --timeout=900 --deselect tests/test_dependency_manager.py --deselect tests/test_dependency_rendering_e2e.py 2>&1 | tail -2)
git -C $W checkout -q -- .
D=/dev/shm/seedrun_$P$M; rm -rf $D; mkdir -p $D; cp -r /repo/src $D/src
(cd $D && patch -p1 --no-backup-if-mismatch < $OUT/$M.diff >/dev/null) || { echo "== PATCH DOES NOT APPLY to the CURRENT /repo tree (code changed by later fix commits): check skipped"; rm -rf $D; exit 4; }
echo "== our check ($TIER):"; cd /verif && VF_REPO=$D /venv/bin/python -m vf.run --prop $P --tier $TIER 2>&1 | grep -E "^VIOLATION|^FAIL|^C[0-9]+ $TIER|HARNESS" | cut -c1-260 | head -8
rm -rf $D
