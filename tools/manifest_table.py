# table consumed by tools/gen_manifest.py
ENGINES = [
    {"name": "runner", "path": "vf/run.py", "serves_properties": ["C%02d" % i for i in range(1, 21)], "kind_free_text": "sharded Hypothesis / enumeration driver, evidence + replay writer, known-finding attribution"},
]

add("C18", "model-based PBT: exhaustive op-sequence enumeration + Hypothesis histories vs OrderedDict LRU model; metamorphic render equality across cache sizes",
    "Every get/set/has/clear history up to length 5 (quick) / 7 (thorough) over 3 keys and sizes {None,0,1,2,3} is compared step by step with an LRU reference model incl. a walk of the linked list; longer histories, cached_template identity/eviction histories and component render sequences under sizes {0,1,2,128} are sampled with Hypothesis. Exhaustive within the bound, sampled beyond.",
    "Trusted: the OrderedDict model in vf/props/c18.py; Django's Template for the 'fresh compile' side. template_cache_size=None (falls back to 128) is not exercised through settings.")

ENGINES.append({"name": "PG", "path": "vf/gen/pg.py, vf/gen/pgstrat.py, vf/gen/pgrun.py, vf/gen/pgmin.py", "serves_properties": ["C01", "C03", "C04", "C05", "C06", "C07", "C10", "C14"], "kind_free_text": "Hypothesis generator of component programs (JSON AST), template printer / class builder, independent reference interpreter, bounded structural minimiser"})

add("C01", "PBT with reference interpreter (differential): generated component programs rendered by the library vs an independent AST interpreter; metamorphic variants (dynamic component, Component.render)",
    "Generated component libraries + pages (slots named/default/required/repeated/nested in defaults and fills/in loops, fills named/conditional/looped/dynamically named/aliased, `only`) are rendered under both context_behavior values and compared with the page text computed by an independent reference interpreter; expected-error programs must raise TemplateSyntaxError; the dynamic-component and Component.render(slots=...) variants must equal the tag form. Sampled (1.6k programs x 2 modes quick, 40k thorough), failures minimised structurally.",
    "Trusted: the reference interpreter (vf/gen/pg.py). Non-termination is detected by a deterministic instance budget in generated get_context_data and by RecursionError. Known finding C01-K1 (dynamic component, django mode, deferred tag with scoped bindings) is attributed by a structural predicate.",
    engine="PG")

add("C14", "PBT with reference interpreter: expected render-id sets per element derived from the interpreter's output tree; deep self-recursive chain",
    "Generated component programs with marked elements are rendered under both context behaviours; for every element the set of data-djc-id-* attributes must correspond (as per-instance root signatures) to the instances for which the interpreter says the element is top-level; ids echoed by Component.id must match; ids distinct (also with the real random generator); chain component at depths up to 200 (quick) / 2000 (thorough).",
    "Trusted: reference interpreter; regex scan of well-formed generated HTML. Pages whose text already disagrees with the interpreter are left to C01.",
    engine="PG")

add("C05", "PBT with reference interpreter: nearest-enclosing-provider computed on the rendered structure; render sequences in one process vs solo renders",
    "Generated component programs with nested / shadowing / looped / page-level / in-template {% provide %} blocks and injecting components are rendered under both context behaviours; the multiset of values returned by inject() (payload, default or KeyError) and the page text must equal the reference interpreter's; sequences of 2-4 renders (optionally with a failing render in between) in one process without resetting the library's registries must equal the solo renders.",
    "Trusted: reference interpreter (providers dynamically scoped along the rendered structure). {% provide %} around {% fill %} tags is not generated.",
    engine="PG")

add("C03", "PBT with reference interpreter over colliding names (numbered probes) + 2-run non-interference (metamorphic) + caller-Context snapshot equality",
    "Generated component programs whose page variables, component data, with/for bindings at all positions and slot-data aliases share a pool of three names are rendered under both context behaviours (with and without `only`); page text / per-probe values must equal the reference interpreter that encodes the scoping order of the property statement; in isolated mode the output must not change when an unpassed page variable changes; the caller's Context (dicts, render_context depth, template) must be unchanged after render.",
    "Trusted: reference interpreter. Where the statement leaves the winner of a collision open (see evidence.assumptions) the model uses wildcards instead of a verdict.",
    engine="PG")
