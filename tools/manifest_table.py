# table consumed by tools/gen_manifest.py
ENGINES = [
    {"name": "runner", "path": "vf/run.py", "serves_properties": ["C%02d" % i for i in range(1, 21)], "kind_free_text": "sharded Hypothesis / enumeration driver, evidence + replay writer, known-finding attribution"},
]

add("C18", "model-based PBT: exhaustive op-sequence enumeration + Hypothesis histories vs OrderedDict LRU model; metamorphic render equality across cache sizes",
    "Every get/set/has/clear history up to length 5 (quick) / 7 (thorough) over 3 keys and sizes {None,0,1,2,3} is compared step by step with an LRU reference model incl. a walk of the linked list; longer histories, cached_template identity/eviction histories and component render sequences under sizes {0,1,2,128} are sampled with Hypothesis. Exhaustive within the bound, sampled beyond.",
    "Trusted: the OrderedDict model in vf/props/c18.py; Django's Template for the 'fresh compile' side. template_cache_size=None (falls back to 128) is not exercised through settings.")
