#!/venv/bin/python
"""tools/addfixed.py <PROP> "<grep in commit subject>" "<what failed>"  -> appends a fixed: line to known_findings.json"""
import json, subprocess, sys
prop, pat, what = sys.argv[1:4]
h = subprocess.check_output(["git", "-C", "/repo", "log", "--format=%h", "--grep=" + pat]).decode().split()
assert len(h) == 1, h
k = json.load(open('/verif/known_findings.json'))
line = "fixed: property=%s %s %s" % (prop, h[0], what)
if not any(h[0] in x and ("property=%s " % prop) in x for x in k["fixed"]):
    k["fixed"].append(line)
json.dump(k, open('/verif/known_findings.json', 'w'), indent=1)
print(line[:120])
