#!/venv/bin/python
"""Regenerates /verif/MANIFEST.json from the table below (keeps it schema-valid)."""
import json
import os
import sys

HERE = os.path.dirname(os.path.dirname(os.path.abspath(__file__)))
PY = "/venv/bin/python"

# property id -> (technique, level text, level note, design ref)
CHECKS = {}


def add(pid, technique, text, note, engine=None):
    CHECKS[pid] = dict(technique=technique, text=text, note=note, engine=engine)


exec(open(os.path.join(HERE, "tools", "manifest_table.py")).read())

ALL = ["C%02d" % i for i in range(1, 21)]
CATEGORY = {"C06": "fault_enumeration"}
NOT_APPLICABLE = globals().get("NOT_APPLICABLE", {})

checks = []
for pid in ALL:
    if pid not in CHECKS:
        continue
    c = CHECKS[pid]
    entry = {
        "property_id": pid,
        "quick_cmd": "%s -m vf.run --prop %s --tier quick" % (PY, pid),
        "thorough_cmd": "%s -m vf.run --prop %s --tier thorough" % (PY, pid),
        "evidence_file": "/verif/evidence/%s.json" % pid,
        "replay_cmd_template": "%s -m vf.run --prop %s --replay {path}" % (PY, pid),
        "level_claimed": {"category": CATEGORY.get(pid, "exploration"), "text": c["text"], "design_ref": "DESIGN.md section 3, %s" % pid},
        "level_note": c["note"],
        "technique": c["technique"],
    }
    if c.get("engine"):
        entry["engine"] = c["engine"]
    checks.append(entry)

na = []
for pid in ALL:
    if pid not in CHECKS:
        na.append({"property_id": pid, "reason": NOT_APPLICABLE.get(pid, "check not built yet in this round (planned: see DESIGN.md section 3)")})

manifest = {
    "version": 1,
    "setup_cmd": "sh /verif/tools/setup.sh",
    "hooks": {
        "guard": "DJC_VERIF",
        "enable": "no source hooks: all instrumentation is external (id seam patched from the harness, sys.settrace scheduler, fault injection in generated user code); checks import django_components from /repo/src",
        "baseline_off_cmd": "cd /repo && /venv/bin/python -m pytest -ra -q -p no:cacheprovider --timeout=900 --continue-on-collection-errors",
        "source_commits": [],
        "add_only": True,
    },
    "engines": globals().get("ENGINES", []),
    "checks": checks,
    "notes": "All checks: property-based testing / fuzzing (Hypothesis generators, exhaustive enumeration of small finite sub-domains with the same oracle, atheris where useful). known_findings.json lists genuine defects recorded or fixed. Exit 2 = harness error, never a verdict.",
    "not_applicable": na,
}
with open(os.path.join(HERE, "MANIFEST.json"), "w") as f:
    json.dump(manifest, f, indent=1)
    f.write("\n")

try:
    import jsonschema

    jsonschema.validate(manifest, json.load(open("/root/.vp/MANIFEST.schema.json")))
    print("MANIFEST.json valid; %d checks, %d not_applicable" % (len(checks), len(na)))
except ImportError:
    print("MANIFEST.json written (jsonschema not available to validate); %d checks" % len(checks))
