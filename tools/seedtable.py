#!/venv/bin/python
"""tools/seedtable.py : regenerate the seeded-change table of DESIGN.md (between the SEEDTABLE markers) from seeded/*/meta.json"""
import glob, json, os, re
rows = []
for d in sorted(glob.glob("/verif/seeded/*/meta.json")):
    m = json.load(open(d))
    oc = m["our_check"]
    cell = lambda s: str(s).replace("|", "\\|").replace("\n", " ")
    rows.append("| %s_%s | %s | %s | %s |" % (m["property"], m["mutant"], cell(m["needs_to_manifest"]), cell(oc["caught"]), cell(oc["detail"])))
table = "| id | needs to manifest | caught | by / what was strengthened |\n|---|---|---|---|\n" + "\n".join(rows)
p = "/verif/DESIGN.md"
s = open(p).read()
a, b = "<!-- SEEDTABLE:BEGIN -->", "<!-- SEEDTABLE:END -->"
if a in s:
    s = s[: s.index(a) + len(a)] + "\n" + table + "\n" + s[s.index(b):]
else:
    # first use: replace the existing table under 6.7
    i = s.index("| id | needs to manifest | caught |")
    j = s.index("\n\n", i)
    s = s[:i] + a + "\n" + table + "\n" + b + s[j:]
open(p, "w").write(s)
import collections
print(len(rows), collections.Counter(json.load(open(d))["our_check"]["caught"] for d in glob.glob("/verif/seeded/*/meta.json")))
