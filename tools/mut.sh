#!/bin/sh
# tools/mut.sh <PROP> <file-relative-to-src/django_components> <python-expr-old> <python-expr-new>  : run quick check against a one-line mutant in a scratch copy
D=/dev/shm/mut_$$; rm -rf $D; mkdir -p $D; cp -r /repo/src $D/src
/venv/bin/python - "$D/src/django_components/$2" "$3" "$4" <<'PY'
import sys
p, old, new = sys.argv[1:4]
s = open(p).read()
assert old in s, "pattern not found"
open(p, 'w').write(s.replace(old, new, 1))
PY
[ $? -eq 0 ] || { rm -rf $D; exit 3; }
cd /verif && VF_REPO=$D /venv/bin/python -m vf.run --prop $1 --tier quick 2>&1 | grep -E "^VIOLATION|^C[0-9]+ quick|HARNESS" | cut -c1-200 | head -6
rm -rf $D
