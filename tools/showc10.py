#!/venv/bin/python
import json, sys
sys.path.insert(0, '/verif')
from vf.gen import pg, pgstrat
from vf.props import c10
r = json.load(open(sys.argv[1])); case = r["case"]
print("bucket:", r.get("bucket")); print((r.get("message") or "")[:700])
if case.get("kind") == "compose":
    prog = case["program"]
    for name, nodes in [(c["name"], c["tpl"]) for c in prog["comps"]] + [("page", prog["page"]["tpl"])]:
        print("  ", name, "FLAT:", pg.p_nodes(nodes))
        if any(n["t"] in ("block", "include") for n in pgstrat.walk(nodes)):
            src, f = c10.family_sources(nodes, "f" + name, bool(case.get("mid", {}).get(name)), bool(case.get("noext", {}).get(name))); print("      =>", src); [print("        ", k, ":", v) for k, v in f.items()]
    print("   ctx", prog["page"]["ctx"])
else:
    for k, v in case["files"].items(): print("  FILE", k, repr(v))
    print("  ctx", case["ctx"], "debug", case.get("debug"))
