#!/bin/sh
# tools/seedall.sh P1 P2 ... : evaluate mutants a and b of each property, summary to stdout, full logs in /dev/shm/seedlog_*
for P in "$@"; do for M in ${SEED_LETTERS:-a b}; do
  tools/seedtest.sh $P $M > /dev/shm/seedlog_${P}_$M.txt 2>&1
  CLEAN=$(grep -A1 "== clean demo" /dev/shm/seedlog_${P}_$M.txt | tail -1); MUT=$(grep -A1 "== mutant demo" /dev/shm/seedlog_${P}_$M.txt | tail -1); SUITE=$(grep -A2 "== mutant test suite" /dev/shm/seedlog_${P}_$M.txt | tail -1)
  V=$(grep -c "^VIOLATION" /dev/shm/seedlog_${P}_$M.txt); B=$(grep "^FAIL" /dev/shm/seedlog_${P}_$M.txt | head -2 | cut -c1-140 | tr '\n' '|')
  echo "$P $M clean[$CLEAN] mutant[$MUT] suite[$SUITE] violations=$V $B"
done; done
